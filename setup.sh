#!/bin/sh
# Offline setup: contracts library beside the repository's interpreter (git-ignored).
HERE="$(cd "$(dirname "$0")" && pwd)"
mkdir -p "$HERE/.deps" "$HERE/evidence" "$HERE/out"
/venv/bin/python -m pip install --quiet --no-index --find-links /opt/veriftools/wheels \
    --target "$HERE/.deps" icontract deal >/dev/null 2>&1 || true
PYTHONPATH="$HERE/lib" /venv/bin/python -W ignore -c "
from wgverif import env
assert env.ensure_deps(), 'icontract not importable'
env.import_wallgo()
print('setup ok')
"
