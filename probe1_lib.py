import copy
