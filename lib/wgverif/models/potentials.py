"""Polynomial potentials with closed-form phases (harness-side model zoo).

Every model is defined in *physical* fields phi (n components) and exposed to WallGo in
*code* fields x = A phi + b, with A a signed permutation matrix and b a translation (C08).
A unit factor s multiplies every dimensionful quantity (C07): fields, temperatures, mass
parameters -> s, the potential -> s^4.

poly1   V = -a T^4 + D (T^2 - T0^2) phi^2 - E T phi^3 + lam phi^4/4
        symmetric phase phi=0 (minimum for T>T0), broken phase phi_+(T) (exists for T<T1)
poly2   V = -a T^4 + (-muh2 + ch T^2) h^2/2 + lh h^4/4 + (-mus2 + cs T^2) S^2/2 + ls S^4/4
            + lhs h^2 S^2/4          two-step: (0,S) -> (h,0)
poly2f  V = -a T^4 + l1 (u^2-v^2)^2/4 + kap (u^2-v^2) p^2 + D (T^2-T0^2) p^2 - E T p^3 + lam p^4/4
        two fields of different natural scale (v >> p or v << p(T=0)): (v,0) -> valley point
        (u(p_+), p_+(T)), which ends in a *fold* at T1 (poly1 closed forms at lamEff)
bag1    V = -a T^4 + U(phi),  U = m2 phi^2/2 - k phi^3/3 + lam phi^4/4   (T-independent
        field part; exact bag equation of state)

Each potential object offers closed forms used only by oracles:
    phases(T) -> {"high": phi_phys or None, "low": phi_phys or None}
    exists(phase) -> (Tlo, Thi) analytic interval on which that phase is a local minimum
    V_phys(phi, T), dVdT_phys(phi, T), grad_phys(phi, T), hess_phys(phi, T)
    Tc()
"""
from __future__ import annotations

import math

import numpy as np

import WallGo
from WallGo import Fields


def make_affine(n, perm=None, signs=None, shift=None):
    A = np.zeros((n, n))
    perm = list(range(n)) if perm is None else list(perm)
    signs = [1.0] * n if signs is None else list(signs)
    for i in range(n):
        A[i, perm[i]] = signs[i]          # x_i = signs_i * phi_perm[i] + b_i
    b = np.zeros(n) if shift is None else np.asarray(shift, dtype=float)
    return A, b


class PolyPotentialBase(WallGo.EffectivePotential):
    fieldCount = 1
    effectivePotentialError = 1e-15

    def _setup_affine(self, n, perm, signs, shift):
        self.A, self.b = make_affine(n, perm, signs, shift)

    # code <-> physical
    def to_phys(self, x):
        x = np.asarray(x, dtype=float)
        return (x - self.b) @ self.A          # A orthogonal: phi = A^T (x-b)

    def to_code(self, phi):
        phi = np.asarray(phi, dtype=float)
        return phi @ self.A.T + self.b

    def evaluate(self, fields, temperature):
        x = np.asarray(fields, dtype=float)
        single = x.ndim == 1
        phi = self.to_phys(np.atleast_2d(x))
        T = np.asarray(temperature, dtype=float)
        V = self.V_phys(phi, T)
        V = np.asarray(V)
        if single and V.shape == (1,):
            return V[0]
        return V

    # ---- helpers for oracles
    def V_code(self, x, T):
        return self.V_phys(self.to_phys(np.atleast_2d(x)), np.asarray(T, dtype=float))


class Poly1(PolyPotentialBase):
    fieldCount = 1

    def __init__(self, a, D, E, lam, T0=1.0, s=1.0, perm=None, signs=None, shift=None):
        self.a, self.D, self.E, self.lam = float(a), float(D), float(E), float(lam)
        self.s = float(s)
        self.T0 = float(T0) * self.s
        self._setup_affine(1, perm, signs, shift)

    # physical closed forms -------------------------------------------------------
    def V_phys(self, phi, T):
        p = phi[..., 0]
        return (-self.a * T ** 4 + self.D * (T ** 2 - self.T0 ** 2) * p ** 2
                - self.E * T * p ** 3 + self.lam * p ** 4 / 4)

    def dVdT_phys(self, phi, T):
        p = phi[..., 0]
        return -4 * self.a * T ** 3 + 2 * self.D * T * p ** 2 - self.E * p ** 3

    def grad_phys(self, phi, T):
        p = phi[..., 0]
        return np.stack([2 * self.D * (T ** 2 - self.T0 ** 2) * p - 3 * self.E * T * p ** 2
                         + self.lam * p ** 3], axis=-1)

    def hess_phys(self, phi, T):
        p = phi[..., 0]
        h = 2 * self.D * (T ** 2 - self.T0 ** 2) - 6 * self.E * T * p + 3 * self.lam * p ** 2
        return np.asarray(h)[..., None, None]

    def T1(self):
        """Upper spinodal of the broken phase."""
        d = 8 * self.lam * self.D - 9 * self.E ** 2
        return self.T0 * math.sqrt(8 * self.lam * self.D / d) if d > 0 else math.inf

    def Tc(self):
        d = self.lam * self.D - self.E ** 2
        return self.T0 * math.sqrt(self.lam * self.D / d) if d > 0 else math.inf

    def phi_broken(self, T):
        T = np.asarray(T, dtype=float)
        disc = 9 * self.E ** 2 * T ** 2 - 8 * self.lam * self.D * (T ** 2 - self.T0 ** 2)
        return (3 * self.E * T + np.sqrt(np.maximum(disc, 0.0))) / (2 * self.lam)

    def phases(self, T):
        out = {"high": None, "low": None}
        if T > self.T0:
            out["high"] = np.array([0.0])
        if T < self.T1():
            out["low"] = np.array([float(self.phi_broken(T))])
        return out

    def exists(self, phase):
        return (self.T0, math.inf) if phase == "high" else (0.0, self.T1())

    def V_phase(self, phase, T):
        T = np.asarray(T, dtype=float)
        if phase == "high":
            return -self.a * T ** 4
        p = self.phi_broken(T)
        return self.V_phys(np.asarray(p)[..., None], T)

    def field_scale(self, Tn):
        return float(self.phi_broken(Tn))

    # soft end of the symmetric phase: at T0 the minimum phi=0 turns into a maximum and the
    # continuous family of minima passes to phi_-(T) < 0 (transcritical).  A tracer that
    # continues through T0 on that family is still on "the same continuous branch".
    def phi_minus(self, T):
        T = np.asarray(T, dtype=float)
        disc = 9 * self.E ** 2 * T ** 2 - 8 * self.lam * self.D * (T ** 2 - self.T0 ** 2)
        return (3 * self.E * T - np.sqrt(np.maximum(disc, 0.0))) / (2 * self.lam)

    def exists_soft(self, phase):
        return (0.0, math.inf) if phase == "high" else self.exists(phase)

    def V_phase_soft(self, phase, T):
        T = np.asarray(T, dtype=float)
        if phase != "high":
            return self.V_phase(phase, T)
        below = T < self.T0
        pm = np.where(below, self.phi_minus(T), 0.0)
        return self.V_phys(np.asarray(pm)[..., None], T)


class Poly2(PolyPotentialBase):
    fieldCount = 2

    def __init__(self, a, muh2, ch, lh, mus2, cs, ls, lhs, s=1.0, perm=None, signs=None,
                 shift=None):
        self.a = float(a)
        self.s = float(s)
        self.muh2, self.mus2 = float(muh2) * s * s, float(mus2) * s * s
        self.ch, self.cs, self.lh, self.ls, self.lhs = map(float, (ch, cs, lh, ls, lhs))
        self._setup_affine(2, perm, signs, shift)

    def V_phys(self, phi, T):
        h, S = phi[..., 0], phi[..., 1]
        return (-self.a * T ** 4 + 0.5 * (-self.muh2 + self.ch * T ** 2) * h ** 2
                + 0.25 * self.lh * h ** 4 + 0.5 * (-self.mus2 + self.cs * T ** 2) * S ** 2
                + 0.25 * self.ls * S ** 4 + 0.25 * self.lhs * h ** 2 * S ** 2)

    def dVdT_phys(self, phi, T):
        h, S = phi[..., 0], phi[..., 1]
        return -4 * self.a * T ** 3 + self.ch * T * h ** 2 + self.cs * T * S ** 2

    def grad_phys(self, phi, T):
        h, S = phi[..., 0], phi[..., 1]
        gh = (-self.muh2 + self.ch * T ** 2) * h + self.lh * h ** 3 + 0.5 * self.lhs * h * S ** 2
        gs = (-self.mus2 + self.cs * T ** 2) * S + self.ls * S ** 3 + 0.5 * self.lhs * h ** 2 * S
        return np.stack([gh, gs], axis=-1)

    def hess_phys(self, phi, T):
        h, S = phi[..., 0], phi[..., 1]
        hh = (-self.muh2 + self.ch * T ** 2) + 3 * self.lh * h ** 2 + 0.5 * self.lhs * S ** 2
        ss = (-self.mus2 + self.cs * T ** 2) + 3 * self.ls * S ** 2 + 0.5 * self.lhs * h ** 2
        hs = self.lhs * h * S
        return np.stack([np.stack([hh, hs], axis=-1), np.stack([hs, ss], axis=-1)], axis=-2)

    # phases: low = (h,0), high = (0,S)
    def h2(self, T):
        return (self.muh2 - self.ch * np.asarray(T, dtype=float) ** 2) / self.lh

    def S2(self, T):
        return (self.mus2 - self.cs * np.asarray(T, dtype=float) ** 2) / self.ls

    def exists(self, phase):
        """(Tlo, Thi): interval on which the phase is a local minimum.  Conditions are
        linear in T^2: radial mass > 0 (vev^2 > 0) and the transverse mass > 0."""
        if phase == "low":
            # h^2>0: T^2 < muh2/ch ;  m_SS = -mus2 + cs T^2 + lhs h^2/2 > 0
            t2_hi = self.muh2 / self.ch
            c = self.cs - 0.5 * self.lhs * self.ch / self.lh
            k = -self.mus2 + 0.5 * self.lhs * self.muh2 / self.lh
        else:
            t2_hi = self.mus2 / self.cs
            c = self.ch - 0.5 * self.lhs * self.cs / self.ls
            k = -self.muh2 + 0.5 * self.lhs * self.mus2 / self.ls
        # c T^2 + k > 0
        lo2, hi2 = 0.0, t2_hi
        if c > 0:
            lo2 = max(lo2, -k / c)
        elif c < 0:
            hi2 = min(hi2, -k / c)
        elif k <= 0:
            return (0.0, 0.0)
        if hi2 <= lo2:
            return (0.0, 0.0)
        return (math.sqrt(max(lo2, 0.0)), math.sqrt(hi2))

    def phases(self, T):
        out = {"high": None, "low": None}
        lo, hi = self.exists("low")
        if lo < T < hi:
            out["low"] = np.array([math.sqrt(float(self.h2(T))), 0.0])
        lo, hi = self.exists("high")
        if lo < T < hi:
            out["high"] = np.array([0.0, math.sqrt(float(self.S2(T)))])
        return out

    def V_phase(self, phase, T):
        T = np.asarray(T, dtype=float)
        if phase == "low":
            return -self.a * T ** 4 - (self.muh2 - self.ch * T ** 2) ** 2 / (4 * self.lh)
        return -self.a * T ** 4 - (self.mus2 - self.cs * T ** 2) ** 2 / (4 * self.ls)

    def Tc(self):
        num = self.muh2 / math.sqrt(self.lh) - self.mus2 / math.sqrt(self.ls)
        den = self.ch / math.sqrt(self.lh) - self.cs / math.sqrt(self.ls)
        t2 = num / den if den != 0 else -1
        return math.sqrt(t2) if t2 > 0 else math.nan

    def field_scale(self, Tn):
        return math.sqrt(max(float(self.h2(Tn)), float(self.S2(Tn)), 1e-300))


class Poly2F(PolyPotentialBase):
    """Two fields (u, p) with *different natural scales* and a fold end (C11 hierarchical
    field-scale workload):

        V = -a T^4 + l1/4 (u^2 - v^2)^2 + kap (u^2 - v^2) p^2
            + D (T^2 - T0^2) p^2 - E T p^3 + lam p^4/4

    dV/du = 0 off the axis u = 0 gives the valley u^2 = v^2 - 2 kap p^2 / l1, on which V is
    the poly1 potential in p with lamEff = lam - 4 kap^2/l1.  Since V_uu = 2 l1 u^2 > 0 on the
    valley, a valley point is a minimum of V exactly when p is a minimum of the reduced
    potential (Schur complement).  Hence
        high  (v, 0)                     minimum for T > T0   (transcritical exchange at T0)
        low   (u(p_+(T)), p_+(T))        minimum for T < T1   (fold at T1)
    with p_+/-, T1, T_c the poly1 closed forms at lamEff.  The model is only built for
    parameters with u^2 > 0 along the low branch down to T = 0 (checked in __init__)."""
    fieldCount = 2

    def __init__(self, a, l1, v, kap, D, E, lam, T0=1.0, s=1.0, perm=None, signs=None,
                 shift=None):
        self.a, self.l1, self.kap = float(a), float(l1), float(kap)
        self.D, self.E, self.lam = float(D), float(E), float(lam)
        self.s = float(s)
        self.v, self.T0 = float(v) * self.s, float(T0) * self.s
        self.lamEff = self.lam - 4 * self.kap ** 2 / self.l1
        if not self.lamEff > 0:
            raise ValueError("Poly2F: lamEff <= 0")
        self._setup_affine(2, perm, signs, shift)
        tt = np.linspace(0.0, self.T1(), 257) if math.isfinite(self.T1()) else np.array([0.0])
        if not np.all(self.v ** 2 - 2 * self.kap * self.phi_broken(tt) ** 2 / self.l1
                      > 0.25 * self.v ** 2):
            raise ValueError("Poly2F: valley leaves u^2 > v^2/4 on the low branch")

    # ---- polynomial and its analytic derivatives (oracle side)
    def V_phys(self, phi, T):
        u, p = phi[..., 0], phi[..., 1]
        w = u ** 2 - self.v ** 2
        return (-self.a * T ** 4 + 0.25 * self.l1 * w ** 2 + self.kap * w * p ** 2
                + self.D * (T ** 2 - self.T0 ** 2) * p ** 2 - self.E * T * p ** 3
                + 0.25 * self.lam * p ** 4)

    def dVdT_phys(self, phi, T):
        p = phi[..., 1]
        return -4 * self.a * T ** 3 + 2 * self.D * T * p ** 2 - self.E * p ** 3

    def grad_phys(self, phi, T):
        u, p = phi[..., 0], phi[..., 1]
        w = u ** 2 - self.v ** 2
        gu = self.l1 * w * u + 2 * self.kap * u * p ** 2
        gp = (2 * self.kap * w * p + 2 * self.D * (T ** 2 - self.T0 ** 2) * p
              - 3 * self.E * T * p ** 2 + self.lam * p ** 3)
        return np.stack([gu, gp], axis=-1)

    def hess_phys(self, phi, T):
        u, p = phi[..., 0], phi[..., 1]
        w = u ** 2 - self.v ** 2
        uu = self.l1 * (w + 2 * u ** 2) + 2 * self.kap * p ** 2 + 0 * T
        pp = (2 * self.kap * w + 2 * self.D * (T ** 2 - self.T0 ** 2) - 6 * self.E * T * p
              + 3 * self.lam * p ** 2)
        up = 4 * self.kap * u * p + 0 * T
        return np.stack([np.stack([uu, up], axis=-1), np.stack([up, pp], axis=-1)], axis=-2)

    # ---- closed forms (poly1 at lamEff on the valley)
    def T1(self):
        d = 8 * self.lamEff * self.D - 9 * self.E ** 2
        return self.T0 * math.sqrt(8 * self.lamEff * self.D / d) if d > 0 else math.inf

    def Tc(self):
        d = self.lamEff * self.D - self.E ** 2
        return self.T0 * math.sqrt(self.lamEff * self.D / d) if d > 0 else math.inf

    def _disc(self, T):
        return 9 * self.E ** 2 * T ** 2 - 8 * self.lamEff * self.D * (T ** 2 - self.T0 ** 2)

    def phi_broken(self, T):
        T = np.asarray(T, dtype=float)
        return (3 * self.E * T + np.sqrt(np.maximum(self._disc(T), 0.0))) / (2 * self.lamEff)

    def phi_minus(self, T):
        T = np.asarray(T, dtype=float)
        return (3 * self.E * T - np.sqrt(np.maximum(self._disc(T), 0.0))) / (2 * self.lamEff)

    def u_valley(self, p):
        return np.sqrt(np.maximum(self.v ** 2 - 2 * self.kap * np.asarray(p) ** 2 / self.l1, 0.0))

    def low_point(self, T):
        p = self.phi_broken(T)
        return np.stack([self.u_valley(p), p], axis=-1)

    def phases(self, T):
        out = {"high": None, "low": None}
        if T > self.T0:
            out["high"] = np.array([self.v, 0.0])
        if T < self.T1():
            out["low"] = np.asarray(self.low_point(float(T)))
        return out

    def exists(self, phase):
        return (self.T0, math.inf) if phase == "high" else (0.0, self.T1())

    def V_phase(self, phase, T):
        T = np.asarray(T, dtype=float)
        if phase == "high":
            return -self.a * T ** 4
        return self.V_phys(self.low_point(T), T)

    def field_scale(self, Tn):
        """Scale of the field that distinguishes the phases (p); see field_scales."""
        return float(self.phi_broken(Tn))

    def field_scales(self, Tn):
        """Natural per-field scales in *physical* order (u, p)."""
        return np.array([self.v, float(self.phi_broken(Tn))])


class Bag1(PolyPotentialBase):
    """Field part independent of T: minima at 0 and v = (k + sqrt(k^2-4 lam m2))/(2 lam)."""
    fieldCount = 1

    def __init__(self, a, m2, k, lam, s=1.0, perm=None, signs=None, shift=None):
        self.a, self.lam = float(a), float(lam)
        self.s = float(s)
        self.m2, self.k = float(m2) * s * s, float(k) * s
        self._setup_affine(1, perm, signs, shift)

    def U(self, p):
        return 0.5 * self.m2 * p ** 2 - self.k * p ** 3 / 3 + 0.25 * self.lam * p ** 4

    def V_phys(self, phi, T):
        return -self.a * np.asarray(T, dtype=float) ** 4 + self.U(phi[..., 0])

    def dVdT_phys(self, phi, T):
        return -4 * self.a * np.asarray(T, dtype=float) ** 3 + 0 * phi[..., 0]

    def grad_phys(self, phi, T):
        p = phi[..., 0]
        return np.stack([self.m2 * p - self.k * p ** 2 + self.lam * p ** 3
                         + 0 * np.asarray(T, dtype=float)], axis=-1)

    def hess_phys(self, phi, T):
        p = phi[..., 0]
        return np.asarray(self.m2 - 2 * self.k * p + 3 * self.lam * p ** 2
                          + 0 * np.asarray(T, dtype=float))[..., None, None]

    def vev(self):
        return (self.k + math.sqrt(self.k ** 2 - 4 * self.lam * self.m2)) / (2 * self.lam)

    def phases(self, T):
        return {"high": np.array([0.0]), "low": np.array([self.vev()])}

    def exists(self, phase):
        return (0.0, math.inf)

    def V_phase(self, phase, T):
        T = np.asarray(T, dtype=float)
        return -self.a * T ** 4 + (0.0 if phase == "high" else self.U(self.vev()))

    def Tc(self):
        return math.nan

    def field_scale(self, Tn):
        return self.vev()


class ZooModel(WallGo.GenericModel):
    def __init__(self, potential, particles=()):
        self.potential = potential
        self.clearParticles()
        for p in particles:
            self.addParticle(p)

    @property
    def fieldCount(self):
        return self.potential.fieldCount

    def getEffectivePotential(self):
        return self.potential


def make_particle(pot, name, index, coupling, field, statistics="Fermion", dofs=12):
    """m^2 = coupling * phi_field^2 in physical fields, expressed in code fields."""
    A, b = pot.A, pot.b

    def msq(fields):
        phi = pot.to_phys(np.atleast_2d(np.asarray(fields, dtype=float)))
        out = coupling * phi[..., field] ** 2
        if np.asarray(fields).ndim == 1:
            return out[0]
        return out

    def dmsq(fields):
        x = np.asarray(fields, dtype=float)
        phi = pot.to_phys(np.atleast_2d(x))
        gphys = np.zeros_like(phi)
        gphys[..., field] = 2 * coupling * phi[..., field]
        g = gphys @ A.T                         # d/dx_i = sum_j A_ij d/dphi_j
        if x.ndim == 1:
            return g[0]
        return g

    return WallGo.Particle(name, index=index, msqVacuum=msq, msqDerivative=dmsq,
                           statistics=statistics, totalDOFs=int(dofs))


# --------------------------------------------------------------------------- builders
def build_potential(spec):
    kw = {k: spec.get(k) for k in ("perm", "signs", "shift")}
    s = spec.get("s", 1.0)
    if kw["shift"] is not None:
        kw["shift"] = np.asarray(kw["shift"], dtype=float) * s
    fam = spec["family"]
    if fam == "poly1":
        return Poly1(spec["a"], spec["D"], spec["E"], spec["lam"], spec.get("T0", 1.0), s, **kw)
    if fam == "poly2":
        return Poly2(spec["a"], spec["muh2"], spec["ch"], spec["lh"], spec["mus2"], spec["cs"],
                     spec["ls"], spec["lhs"], s, **kw)
    if fam == "poly2f":
        return Poly2F(spec["a"], spec["l1"], spec["v"], spec["kap"], spec["D"], spec["E"],
                      spec["lam"], spec.get("T0", 1.0), s, **kw)
    if fam == "bag1":
        return Bag1(spec["a"], spec["m2"], spec["k"], spec["lam"], s, **kw)
    raise ValueError(fam)


def alpha_estimate(pot, Tn):
    """Bag-like estimate alpha ~ Delta(theta)/(3 a T^4), theta = V - (T/4) dV/dT, from the
    closed-form branches (used only to select benchmark points of moderate strength)."""
    h = 1e-4 * Tn

    def theta(ph):
        V = float(pot.V_phase(ph, Tn))
        dV = (float(pot.V_phase(ph, Tn + h)) - float(pot.V_phase(ph, Tn - h))) / (2 * h)
        return V - 0.25 * Tn * dV
    return (theta("high") - theta("low")) / (3 * pot.a * Tn ** 4)


def random_poly1(rng, s=None):
    """One-field model with comfortable margins (E >= 0.07, see DESIGN F8)."""
    g = float(rng.choice([20, 40, 80]))
    a = g * math.pi ** 2 / 90
    lam = float(rng.uniform(0.08, 0.2))
    E = float(rng.uniform(0.07, 0.11))
    D = float(rng.uniform(0.3, 0.8))
    spec = {"family": "poly1", "a": a, "D": D, "E": E, "lam": lam, "T0": 1.0,
            "s": float(10 ** rng.uniform(-2, 2)) if s is None else s}
    pot = build_potential({**spec, "s": 1.0})
    Tc, T0 = pot.Tc(), 1.0
    frac = float(rng.uniform(0.3, 0.85))
    spec["Tn_over_s"] = T0 + frac * (Tc - T0)
    return spec


def random_poly2(rng, s=None):
    g = float(rng.choice([40, 80, 106.75]))
    a = g * math.pi ** 2 / 90
    for _ in range(4000):
        lh, ls = float(rng.uniform(0.1, 0.3)), float(rng.uniform(0.1, 0.6))
        lhs = float(rng.uniform(0.6, 3.0))
        ch, cs = float(rng.uniform(0.15, 0.5)), float(rng.uniform(0.15, 0.5))
        muh2 = 1.0
        mus2 = float(rng.uniform(0.4, 1.6))
        spec = {"family": "poly2", "a": a, "muh2": muh2, "ch": ch, "lh": lh, "mus2": mus2,
                "cs": cs, "ls": ls, "lhs": lhs,
                "s": float(10 ** rng.uniform(-2, 2)) if s is None else s}
        pot = build_potential({**spec, "s": 1.0})
        Tc = pot.Tc()
        lo_l, hi_l = pot.exists("low")
        lo_h, hi_h = pot.exists("high")
        if not np.isfinite(Tc):
            continue
        # both phases exist with a margin around [0.7 Tc, 1.25 Tc]; low phase favoured below Tc
        if not (lo_l < 0.6 * Tc and hi_l > 1.3 * Tc and lo_h < 0.6 * Tc and hi_h > 1.3 * Tc):
            continue
        if not pot.V_phase("low", 0.9 * Tc) < pot.V_phase("high", 0.9 * Tc):
            continue
        Tn = Tc * float(rng.uniform(0.85, 0.97))
        if not 0.005 < alpha_estimate(pot, Tn) < 0.2:
            continue
        spec["Tn_over_s"] = Tn
        return spec
    # budget exhausted (not seen in 10 seeds of every tier): a fixed admissible point keeps
    # the generator total
    return {"family": "poly2", "a": 11.706447442403212, "muh2": 1.0, "ch": 0.38850027563060807,
            "lh": 0.12969667238006788, "mus2": 1.3158696275319768, "cs": 0.2764463954697605,
            "ls": 0.3853513769934278, "lhs": 2.452627999669575,
            "s": float(10 ** rng.uniform(-2, 2)) if s is None else s,
            "Tn_over_s": 0.892929590756008}


def random_poly2_thick(rng, s=None):
    """Two-field points with smaller thermal-mass coefficients: T_c >= 1.6 mu_h, walls of
    L*T_n ~ 2-3 instead of ~1 (the thin-wall points of random_poly2 often end in the
    start-dependent pressure iteration recorded under C08)."""
    g = float(rng.choice([40, 80, 106.75]))
    a = g * math.pi ** 2 / 90
    for _ in range(40000):
        lh, ls = float(rng.uniform(0.05, 0.3)), float(rng.uniform(0.05, 0.6))
        lhs = float(rng.uniform(0.3, 3.0))
        ch, cs = float(rng.uniform(0.03, 0.3)), float(rng.uniform(0.03, 0.3))
        mus2 = float(rng.uniform(0.3, 1.6))
        spec = {"family": "poly2", "a": a, "muh2": 1.0, "ch": ch, "lh": lh, "mus2": mus2,
                "cs": cs, "ls": ls, "lhs": lhs,
                "s": float(10 ** rng.uniform(-2, 2)) if s is None else s}
        pot = build_potential({**spec, "s": 1.0})
        Tc = pot.Tc()
        if not np.isfinite(Tc) or Tc < 1.6:
            continue
        lo_l, hi_l = pot.exists("low")
        lo_h, hi_h = pot.exists("high")
        if not (lo_l < 0.6 * Tc and hi_l > 1.3 * Tc and lo_h < 0.6 * Tc and hi_h > 1.3 * Tc):
            continue
        if not pot.V_phase("low", 0.9 * Tc) < pot.V_phase("high", 0.9 * Tc):
            continue
        Tn = Tc * float(rng.uniform(0.85, 0.97))
        if not 0.008 < alpha_estimate(pot, Tn) < 0.2:
            continue
        spec["Tn_over_s"] = Tn
        return spec
    # rare (one rng state in ~10 seeds): no thick point within the budget; a generator must
    # never take its check down, so fall back to the ordinary two-field family
    return random_poly2(rng, s)


def random_bag1(rng, s=None):
    g = float(rng.choice([20, 40, 80]))
    a = g * math.pi ** 2 / 90
    lam = float(rng.uniform(0.1, 0.4))
    v = 1.0
    # U'(v)=0, U''(0)=m2>0: choose m2 then k = (m2 + lam v^2)/v ; need U(v)<U(0)
    m2 = float(rng.uniform(0.02, 0.12)) * lam
    k = (m2 + lam * v * v) / v
    return {"family": "bag1", "a": a, "m2": m2, "k": k, "lam": lam,
            "s": float(10 ** rng.uniform(-2, 2)) if s is None else s,
            "Tn_over_s": float(rng.uniform(0.25, 0.45))}
