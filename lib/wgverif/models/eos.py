"""Analytic equations of state as WallGo.Thermodynamics subclasses (harness-side zoo).

Only p(T) and its first two derivatives are supplied per phase; e, w, c_s^2 come from the
real Thermodynamics base class, exactly as in the repository's own hydrodynamics tests.
Each class also offers ``ref`` closed forms used by the oracles (never by WallGo).

Families
--------
bag       p_H = a T^4/3*3... (a scaled out)  p_H = T^4 - eps,  p_L = psi T^4   (units of Tc)
template  constant sound speeds:  p_H = a_+ T^mu/3 - eps,  p_L = a_- T^nu/3
twostep   the toy xSM of 2004.06995:  p_H = T^4 + (aL-aH+aH T^2-m2)^2 - m2^2,
          p_L = T^4 + (aL T^2 - m2)^2 - m2^2          (Tc = 1)
Every family takes a unit factor ``s`` (temperatures multiplied by s, pressures by s^4).
"""
from __future__ import annotations

from dataclasses import dataclass

import numpy as np

import WallGo


@dataclass
class FreeEnergyHack:
    minPossibleTemperature: list
    maxPossibleTemperature: list


class AnalyticEOS(WallGo.Thermodynamics):
    """Base: subclasses define _pH(t), _dpH(t), _ddpH(t), _pL.. in *unscaled* units."""

    def __init__(self, Tn, s=1.0, rangeH=None, rangeL=None):
        self.s = float(s)
        self.Tnucl = float(Tn) * self.s
        rH = rangeH if rangeH is not None else (1e-4 * Tn, 1e4 * Tn)
        rL = rangeL if rangeL is not None else (1e-4 * Tn, 1e4 * Tn)
        self.TMinHighT, self.TMaxHighT = rH[0] * self.s, rH[1] * self.s
        self.TMinLowT, self.TMaxLowT = rL[0] * self.s, rL[1] * self.s
        self.freeEnergyHigh = FreeEnergyHack([self.TMinHighT, False], [self.TMaxHighT, False])
        self.freeEnergyLow = FreeEnergyHack([self.TMinLowT, False], [self.TMaxLowT, False])

    # scaled wrappers -------------------------------------------------------------
    def pHighT(self, T):
        return self.s ** 4 * self._pH(T / self.s)

    def dpHighT(self, T):
        return self.s ** 3 * self._dpH(T / self.s)

    def ddpHighT(self, T):
        return self.s ** 2 * self._ddpH(T / self.s)

    def pLowT(self, T):
        return self.s ** 4 * self._pL(T / self.s)

    def dpLowT(self, T):
        return self.s ** 3 * self._dpL(T / self.s)

    def ddpLowT(self, T):
        return self.s ** 2 * self._ddpL(T / self.s)

    # reference closed forms (oracle side; independent of Thermodynamics' methods) ---
    def ref(self, phase, T):
        """returns dict p, e, w, csq computed directly from the closed forms."""
        t = T / self.s
        if phase == "H":
            p, dp, ddp = self._pH(t), self._dpH(t), self._ddpH(t)
        else:
            p, dp, ddp = self._pL(t), self._dpL(t), self._ddpL(t)
        s = self.s
        return {"p": s ** 4 * p, "w": s ** 4 * t * dp, "e": s ** 4 * (t * dp - p),
                "csq": dp / (t * ddp)}


class BagEOS(AnalyticEOS):
    def __init__(self, psi, Tn, s=1.0, **kw):
        self.psi = float(psi)
        self.eps = 1.0 - self.psi
        super().__init__(Tn, s, **kw)

    def _pH(self, t):
        return t ** 4 - self.eps

    def _dpH(self, t):
        return 4 * t ** 3

    def _ddpH(self, t):
        return 12 * t ** 2

    def _pL(self, t):
        return self.psi * t ** 4

    def _dpL(self, t):
        return 4 * self.psi * t ** 3

    def _ddpL(self, t):
        return 12 * self.psi * t ** 2


class TemplateEOS(AnalyticEOS):
    """Constant sound speeds; parametrised by (alN, psiN, cb2, cs2) at Tn (unscaled Tn)."""

    def __init__(self, alN, psiN, cb2, cs2, Tn, s=1.0, wn=1.0, **kw):
        self.alN, self.psiN, self.cb2, self.cs2 = map(float, (alN, psiN, cb2, cs2))
        self.nu = 1 + 1 / self.cb2
        self.mu = 1 + 1 / self.cs2
        self.wn = float(wn)
        self.Tn0 = float(Tn)
        self.ap = 3 * self.wn / (self.mu * self.Tn0 ** self.mu)
        self.am = 3 * self.wn * self.psiN / (self.nu * self.Tn0 ** self.nu)
        # eps from the definition of alpha_n = (eH-eL-(pH-pL)/cb2)/(3 wH) at Tn
        # with pH = ap T^mu/3 - eps, pL = am T^nu/3
        pH0 = self.ap * self.Tn0 ** self.mu / 3
        pL0 = self.am * self.Tn0 ** self.nu / 3
        eH0 = self.wn - pH0
        eL0 = self.wn * self.psiN - pL0
        # (eH0+eps) - eL0 - (pH0-eps-pL0)/cb2 = 3 wn alN
        self.eps = (3 * self.wn * self.alN - (eH0 - eL0) + (pH0 - pL0) / self.cb2) / (
            1 + 1 / self.cb2)
        super().__init__(Tn, s, **kw)

    def _pH(self, t):
        return self.ap * t ** self.mu / 3 - self.eps

    def _dpH(self, t):
        return self.mu * self.ap * t ** (self.mu - 1) / 3

    def _ddpH(self, t):
        return self.mu * (self.mu - 1) * self.ap * t ** (self.mu - 2) / 3

    def _pL(self, t):
        return self.am * t ** self.nu / 3

    def _dpL(self, t):
        return self.nu * self.am * t ** (self.nu - 1) / 3

    def _ddpL(self, t):
        return self.nu * (self.nu - 1) * self.am * t ** (self.nu - 2) / 3


class TwoStepEOS(AnalyticEOS):
    def __init__(self, aL, aH, m2, Tn, s=1.0, **kw):
        self.aL, self.aH, self.m2 = float(aL), float(aH), float(m2)
        super().__init__(Tn, s, **kw)

    def _pH(self, t):
        return t ** 4 + (self.aL - self.aH + self.aH * t ** 2 - self.m2) ** 2 - self.m2 ** 2

    def _dpH(self, t):
        return 4 * t ** 3 + 4 * self.aH * t * (self.aL - self.aH + self.aH * t ** 2 - self.m2)

    def _ddpH(self, t):
        return (12 * t ** 2 + 8 * self.aH ** 2 * t ** 2
                + 4 * self.aH * (self.aL - self.aH + self.aH * t ** 2 - self.m2))

    def _pL(self, t):
        return t ** 4 + (self.aL * t ** 2 - self.m2) ** 2 - self.m2 ** 2

    def _dpL(self, t):
        return 4 * t ** 3 + 4 * self.aL * t * (self.aL * t ** 2 - self.m2)

    def _ddpL(self, t):
        return 12 * t ** 2 + 8 * self.aL ** 2 * t ** 2 + 4 * self.aL * (self.aL * t ** 2 - self.m2)


def build(spec):
    """spec: dict with 'family' and parameters -> EOS object."""
    fam = spec["family"]
    kw = {}
    if spec.get("rangeH"):
        kw["rangeH"] = tuple(spec["rangeH"])
    if spec.get("rangeL"):
        kw["rangeL"] = tuple(spec["rangeL"])
    s = spec.get("s", 1.0)
    if fam == "bag":
        return BagEOS(spec["psi"], spec["Tn"], s, **kw)
    if fam == "template":
        return TemplateEOS(spec["alN"], spec["psiN"], spec["cb2"], spec["cs2"], spec["Tn"], s, **kw)
    if fam == "twostep":
        return TwoStepEOS(spec["aL"], spec["aH"], spec["m2"], spec["Tn"], s, **kw)
    raise ValueError(fam)


def random_spec(rng, family=None, template_domain="C15"):
    """Draw an EOS spec.  Unit factor s log-uniform over five decades."""
    fam = family or rng.choice(["bag", "template", "twostep"], p=[0.15, 0.45, 0.4])
    s = float(10 ** rng.uniform(-2.5, 2.5))
    if fam == "bag":
        psi = float(rng.uniform(0.5, 0.99))
        Tn = float(rng.uniform(0.45, 0.99))
        return {"family": "bag", "psi": psi, "Tn": Tn, "s": s}
    if fam == "template":
        psiN = float(rng.uniform(0.5, 1.0))
        # transition strength from 1e-3 to order one above the minimal value
        alN = (1 - psiN) / 3 + float(10 ** rng.uniform(-3, 0))
        cs2 = float(rng.uniform(0.2, 1 / 3))
        cb2 = float(rng.uniform(0.2, 1 / 3))
        if rng.random() < 0.25:
            cs2 = cb2 = 1 / 3
        return {"family": "template", "alN": alN, "psiN": psiN, "cb2": cb2, "cs2": cs2,
                "Tn": 1.0, "s": s}
    aL = float(rng.uniform(0.12, 0.4))
    aH = float(rng.uniform(0.3, 0.9)) * aL
    m2 = float(rng.uniform(0.25, 0.6))
    # strong supercooling included: the sound speeds then differ visibly between T_n, T+, T-
    Tn = float(rng.uniform(0.45, 0.99))
    return {"family": "twostep", "aL": aL, "aH": aH, "m2": m2, "Tn": Tn, "s": s}


def admissible(eos):
    """Positive sound speeds / enthalpies around Tn in both phases, and a first-order
    transition that can proceed at Tn (low-T phase has the higher pressure, alpha_n>0)."""
    Tn = eos.Tnucl
    for T in Tn * np.array([0.3, 0.5, 0.8, 1.0, 1.3, 2.0, 3.0]):
        for ph in ("H", "L"):
            r = eos.ref(ph, T)
            if not (0.05 < r["csq"] < 0.6 and r["w"] > 0):
                return False, f"csq/w out of range in phase {ph} at T={T / Tn:.2f}Tn"
    H, L = eos.ref("H", Tn), eos.ref("L", Tn)
    aln = (H["e"] - L["e"] - (H["p"] - L["p"]) / L["csq"]) / (3 * H["w"])
    if not aln > 0:
        return False, "alpha_n <= 0"
    if not L["p"] >= H["p"]:
        return False, "low-T phase not favoured at Tn"
    return True, ""
