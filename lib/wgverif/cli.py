"""CLI: check <ID> [--tier quick|thorough] [--seed N] [--replay FILE] [--jobs N]"""
import argparse
import os
import sys

from . import env  # noqa: F401  (must precede numpy)
from . import core


def main(argv=None):
    ap = argparse.ArgumentParser(prog="check")
    ap.add_argument("property")
    ap.add_argument("--tier", default=os.environ.get("VERIF_TIER", "quick"),
                    choices=["quick", "thorough"])
    ap.add_argument("--seed", type=int, default=int(os.environ.get("VERIF_SEED", "0")))
    ap.add_argument("--replay")
    ap.add_argument("--jobs", type=int)
    ap.add_argument("--limit", type=int)
    a = ap.parse_args(argv)
    return core.main_check(a.property, a.tier, a.seed, jobs=a.jobs, replay=a.replay,
                           limit=a.limit)


if __name__ == "__main__":
    sys.exit(main())
