"""Independent reference for C14 (collision data: load / basis change / interpolation).

Nothing in here imports WallGo.  Ingredients:

* restricted Chebyshev families, evaluated with numpy.polynomial.chebyshev.chebvander
  (the code under test uses scipy.special.eval_chebyt):
      pz direction:  Tbar_n(x) = T_n(x) - 1 (n even),  T_n(x) - x (n odd),   n = 2..N
      pp direction:  Ttil_n(x) = T_n(x) - 1,                                 n = 1..N-1
  The first T members of either family are the same functions on every grid size, which
  is what makes "low-order distribution" meaningful across grids.
* Lagrange interpolation weights from scipy.interpolate.BarycentricInterpolator on the
  *full* source node set (boundary nodes included, where every distribution vanishes).
* the operator action tensor
      A[a,alpha,beta,b,m,n] = sum_{jk} C[a,alpha,beta,b,j,k] * F_z[j,m] * F_p[k,n]
  where column m of F_z holds the representation, in the basis the array is declared to
  be in, of the m-th low-order Chebyshev function (unit vector for "Chebyshev",
  node values for "Cardinal").  Two collision arrays describe the same operator on the
  low-order distributions iff their action tensors agree after Lagrange interpolation of
  the momentum-point axes (alpha, beta) to the target nodes.
"""
from __future__ import annotations

import numpy as np
from numpy.polynomial import chebyshev as _cheb
from scipy.interpolate import BarycentricInterpolator

EPS = float(np.finfo(float).eps)


def cheb_matrix(x, N, direction):
    """[len(x), N-1] values of the restricted Chebyshev family of grid size N at x."""
    x = np.asarray(x, dtype=float)
    if direction == "pz":
        n = np.arange(2, N + 1)
        V = _cheb.chebvander(x, N)[:, 2:]
        return V - np.where(n[None, :] % 2 == 0, 1.0, x[:, None])
    if direction == "pp":
        return _cheb.chebvander(x, N - 1)[:, 1:] - 1.0
    raise ValueError(direction)


class GridRef:
    """Momentum nodes of a grid (read from the Grid object the harness built) together
    with everything the oracle derives from them."""

    def __init__(self, rz, rp):
        self.rz = np.asarray(rz, dtype=float)
        self.rp = np.asarray(rp, dtype=float)
        self.N = len(self.rz) + 1
        assert len(self.rp) == self.N - 1
        self.zfull = np.concatenate([[-1.0], self.rz, [1.0]])
        self.pfull = np.concatenate([self.rp, [1.0]])
        self.Mz = cheb_matrix(self.rz, self.N, "pz")     # [node, order]
        self.Mp = cheb_matrix(self.rp, self.N, "pp")
        self.kappa = float(np.linalg.cond(self.Mz) * np.linalg.cond(self.Mp))

    def rep(self, basis, T):
        """(F_z, F_p), each [N-1, T]: the first T low-order functions in `basis`."""
        S = self.N - 1
        if basis == "Chebyshev":
            e = np.eye(S)[:, :T]
            return e, e
        if basis == "Cardinal":
            return self.Mz[:, :T], self.Mp[:, :T]
        raise ValueError(basis)

    def lagrange_to(self, other):
        """(Lz, Lp): Lz[alpha', alpha] = L_alpha(rz'_alpha') over the interior nodes of
        self, evaluated at the nodes of `other` (boundary columns dropped: the data
        vanish there)."""
        wz = BarycentricInterpolator(self.zfull, np.eye(len(self.zfull)))(other.rz)
        wp = BarycentricInterpolator(self.pfull, np.eye(len(self.pfull)))(other.rp)
        return np.asarray(wz)[:, 1:-1], np.asarray(wp)[:, :-1]


def action(C, Fz, Fp):
    return np.einsum("axybjk,jm,kn->axybmn", C, Fz, Fp, optimize=True)


def expected_action(Cs, gs: GridRef, bs, gt: GridRef):
    """Action of the source operator on the (gt.N-1)^2 low-order distributions, Lagrange
    interpolated to the nodes of gt; plus the magnitude bound of the same computation
    (all factors replaced by absolute values), per ordered pair."""
    T = gt.N - 1
    Fz, Fp = gs.rep(bs, T)
    Lz, Lp = gs.lagrange_to(gt)
    As = action(Cs, Fz, Fp)
    E = np.einsum("px,qy,axybmn->apqbmn", Lz, Lp, As, optimize=True)
    Aabs = action(np.abs(Cs), np.abs(Fz), np.abs(Fp))
    B = np.einsum("px,qy,axybmn->apqbmn", np.abs(Lz), np.abs(Lp), Aabs, optimize=True)
    scale = B.max(axis=(1, 2, 4, 5))           # [a, b]
    return E, scale


def actual_action(Ct, gt: GridRef, bt):
    T = gt.N - 1
    Fz, Fp = gt.rep(bt, T)
    A = action(Ct, Fz, Fp)
    Aabs = action(np.abs(Ct), np.abs(Fz), np.abs(Fp))
    return A, Aabs.max(axis=(1, 2, 4, 5))


def pair_residuals(E, A):
    return np.abs(E - A).max(axis=(1, 2, 4, 5))   # [a, b]


# ------------------------------------------------------------------ tolerance
# tol = K * eps * (kappa_s + kappa_t) * scale, per ordered pair.
#   scale   absolute-value bound of the reference computation for that pair (all factors
#           replaced by their moduli): the forward rounding error of any evaluation of
#           the same sums is a small multiple of eps*scale;
#   kappa_x cond(Mz_x)*cond(Mp_x) of the node-value <-> Chebyshev-coefficient matrices:
#           the amplification of the inversion that producing or consuming a Cardinal
#           representation on grid x cannot avoid (1.6 .. 18 on Gauss-Lobatto nodes
#           N = 3..13; 2.5 .. 4e4 on uniform nodes).  The two inversions act one after
#           the other on an O(eps) error, so they add.
# Calibration (one particle: unchanged tree; 2-3 particles: tree with the axis-order
# repair; seeds 0-4 quick and 0-1 thorough, Spectral and Uniform spacing, ~1.4e5 judged
# basis changes, ~7e4 interpolations, ~7e4 loads): the largest residual/(eps*kappa*scale)
# was 1.3 for a basis change and 0.45 for interpolation / end-to-end loads (kappa =
# kappa_s + kappa_t); 97% of all comparisons lie within a factor 10 below those maxima.
# K = 64 therefore leaves a factor 50 (basis change) / 140 (interpolation, load) above
# the worst observation, while every bookkeeping error (axis order, wrong block, wrong
# truncation, missing inverse or transpose) is 1e-7..1 of scale (1e-7: neighbouring
# integer tags exchanged), i.e. >= 1e5 tolerances on the spectral grids.
K_ACTION = 64.0


def action_tolerance(scale, kappa_s, kappa_t):
    return K_ACTION * EPS * (kappa_s + kappa_t) * scale + 1e-300
