"""Reference algebra for C16, built only on numpy.polynomial.chebyshev (Clenshaw
evaluation, chebmul, chebder, chebpts2, chebvander) and scipy's BarycentricInterpolator.

Nothing here imports WallGo.  Conventions (read off the *documentation* of
WallGo.Grid / WallGo.Polynomial, not their code):

  direction  n        full grid (n+1 nodes, Gauss-Chebyshev-Lobatto)      kept without endpoints
  'z'        M        extrema of T_M                                       indices 1..n-1
  'pz'       N        extrema of T_N                                       indices 1..n-1
  'pp'       N-1      extrema of T_{N-1}                                   indices 0..n-1 (x=+1 dropped)

Polynomial space on a direction:
  endpoints=True          all polynomials of degree <= n           (n+1 numbers)
  'z','pz' no endpoints   (1-x^2) q(x), deg q <= n-2               (n-1 numbers)
  'pp'     no endpoints   (1-x)   q(x), deg q <= n-1               (n   numbers)

"Chebyshev" coefficients without endpoints refer to the restricted basis
T_k - (line through T_k(+-1))  (k=2..n)   resp.   T_k - T_k(1)  (k=1..n);
because those corrections only touch the T_0 / T_1 components, the coefficient of the
restricted basis function k equals the ordinary Chebyshev coefficient c_k of the
polynomial (k>=2 resp. k>=1) -- that is how the oracle gets them, with no linear solve.
"""
from __future__ import annotations

import math

import numpy as np
from numpy.polynomial import chebyshev as C

EPS = float(np.finfo(float).eps)
DIRS = ("z", "pz", "pp")


def size_n(direction: str, M: int, N: int) -> int:
    return {"z": M, "pz": N, "pp": N - 1}[direction]


def nodes_full(n: int) -> np.ndarray:
    """Extrema of T_n on [-1,1], ascending (numpy's Chebyshev points of the 2nd kind)."""
    return C.chebpts2(n + 1)


def kept(direction: str, endpoints: bool, n: int) -> np.ndarray:
    if endpoints:
        return np.arange(n + 1)
    if direction == "pp":
        return np.arange(0, n)
    return np.arange(1, n)


def ncoef(direction: str, endpoints: bool, n: int) -> int:
    return len(kept(direction, endpoints, n))


def vanish_factor(direction: str, endpoints: bool) -> np.ndarray:
    """Chebyshev series of the factor every member of the space carries."""
    if endpoints:
        return np.array([1.0])
    if direction == "pp":
        return np.array([1.0, -1.0])          # 1 - x
    return np.array([0.5, 0.0, -0.5])         # 1 - x^2 = (T0 - T2)/2


def degree_range(direction: str, endpoints: bool, n: int) -> tuple[int, int]:
    dv = len(vanish_factor(direction, endpoints)) - 1
    return dv, n


def random_member(rng, direction: str, endpoints: bool, n: int, degree: int,
                  scale: float = 1.0) -> np.ndarray:
    """Chebyshev series (length n+1) of a random member of the space with exactly that
    degree: small integer coefficients for the free factor, leading one non-zero."""
    vf = vanish_factor(direction, endpoints)
    dq = degree - (len(vf) - 1)
    assert dq >= 0 and degree <= n, (direction, endpoints, n, degree)
    q = rng.integers(-4, 5, size=dq + 1).astype(float)
    if q[-1] == 0:
        q[-1] = float(rng.choice([-3, -2, -1, 1, 2, 3]))
    c = C.chebmul(vf, q) * scale
    out = np.zeros(n + 1)
    out[: len(c)] = c
    return out


def restricted_coeffs(c: np.ndarray, direction: str, endpoints: bool, n: int) -> np.ndarray:
    c = np.concatenate([c, np.zeros(max(0, n + 1 - len(c)))])[: n + 1]
    if endpoints:
        return c.copy()
    if direction == "pp":
        return c[1:].copy()
    return c[2:].copy()


def rep(c: np.ndarray, basis: str, direction: str, endpoints: bool, n: int) -> np.ndarray:
    """Numbers a WallGo.Polynomial axis must hold to represent the series c."""
    if basis == "Cardinal":
        return C.chebval(nodes_full(n)[kept(direction, endpoints, n)], c)
    return restricted_coeffs(c, direction, endpoints, n)


def amp(c: np.ndarray) -> float:
    """sum |c_k| >= max |P| on [-1,1]."""
    return float(np.sum(np.abs(c)))


def restricted_vander(x: np.ndarray, direction: str, endpoints: bool, n: int) -> np.ndarray:
    """Matrix B[i,j] = (restricted basis function j)(x_i), from chebvander only.  The
    correction is the interpolant of T_k through the end value(s), computed from the
    Vandermonde rows at +-1 (no parity rule written down here)."""
    x = np.asarray(x, dtype=float)
    V = C.chebvander(x, n)
    if endpoints:
        return V
    Vp = C.chebvander(np.array([1.0]), n)[0]
    if direction == "pp":
        B = V - Vp[None, :]
        return B[:, 1:]
    Vm = C.chebvander(np.array([-1.0]), n)[0]
    B = V - (0.5 * (Vp + Vm))[None, :] - (0.5 * (Vp - Vm))[None, :] * x[:, None]
    return B[:, 2:]


def transform_cond(direction: str, endpoints: bool, n: int) -> float:
    x = nodes_full(n)[kept(direction, endpoints, n)]
    B = restricted_vander(x, direction, endpoints, n)
    return float(np.linalg.cond(B))


def lagrange_basis(n: int, x: np.ndarray) -> np.ndarray:
    """L[i,j] = (Lagrange cardinal function of full-grid node j)(x_i), via scipy's
    barycentric interpolator."""
    from scipy.interpolate import BarycentricInterpolator
    xs = nodes_full(n)
    bi = BarycentricInterpolator(xs, np.eye(n + 1))
    return np.asarray(bi(np.asarray(x, dtype=float).ravel()))


# ----------------------------------------------------------------------- integration
WCLASSES = ("invsqrt", "sqrt")


def weight_spec(direction: str, endpoints: bool, n: int, degP: int, wclass: str):
    """Largest polynomial degree of q such that  P * w * sqrt(1-x^2)  is a polynomial of
    degree <= 2n-1 which vanishes at every node where the quadrature's own factor
    sqrt(1-x^2) vanishes.  Returns None when the class is empty.

      'invsqrt' (grids without endpoints only):
           z,pz : w = q / sqrt(1-x^2)                 f = P q
           pp   : w = q sqrt((1+x)/(1-x))             f = P q (1+x)   (finite, 0 at the kept x=-1)
      'sqrt'    : w = q sqrt(1-x^2)                   f = P q (1-x^2)
    """
    if wclass == "invsqrt":
        if endpoints:
            return None
        extra = 1 if direction == "pp" else 0
    else:
        extra = 2
    dq = 2 * n - 1 - degP - extra
    return dq if dq >= 0 else None


def weight_values(q: np.ndarray, x: np.ndarray, direction: str, wclass: str) -> np.ndarray:
    qv = C.chebval(x, q)
    if wclass == "sqrt":
        return qv * np.sqrt((1.0 - x) * (1.0 + x))
    if direction == "pp":
        return qv * np.sqrt((1.0 + x) / (1.0 - x))
    return qv / np.sqrt((1.0 - x) * (1.0 + x))


def exact_integral(c: np.ndarray, q: np.ndarray, direction: str, wclass: str) -> float:
    """int_{-1}^{1} P(x) w(x) dx  =  pi * (T_0 coefficient of P w sqrt(1-x^2))."""
    f = C.chebmul(c, q)
    if wclass == "sqrt":
        f = C.chebmul(f, [0.5, 0.0, -0.5])
    elif direction == "pp":
        f = C.chebmul(f, [1.0, 1.0])
    return math.pi * float(f[0])


def integral_amp(c, q, direction, wclass) -> float:
    a = amp(c) * amp(q) * math.pi
    if wclass == "invsqrt" and direction == "pp":
        a *= 2.0
    return a


# --------------------------------------------------------------------------- tensors
def outer_sum(vectors: list[np.ndarray]) -> np.ndarray:
    """vectors[i] has shape (R, size_i); returns sum_r outer(vectors[0][r], ..., vectors[k-1][r])."""
    R = vectors[0].shape[0]
    out = None
    for r in range(R):
        t = np.asarray(vectors[0][r], dtype=float)
        for v in vectors[1:]:
            t = np.multiply.outer(t, v[r])
        out = t if out is None else out + t
    return out
