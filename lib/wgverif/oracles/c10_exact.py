"""Closed-form equation of state of the zoo potentials (oracle side of C10).

Everything here is evaluated from the *parameters* of a wgverif.models.potentials object
(Poly1 / Poly2 / Bag1); nothing goes through WallGo's minimiser, tracer or splines.

    branch(pot, phase, T)      physical field on the phase's branch, shape (nT, nf)
    V(pot, phase, T)           V(phi_phase(T), T)               (= -p)
    dV(pot, phase, T)          d/dT of the above   (envelope theorem: dV/dT = V_T)
    d2V(pot, phase, T)         V_TT - V_phiT . H^-1 . V_phiT    (implicit differentiation)
    eos(pot, phase, T)         dict p, dp, ddp, e, w, csq
    alpha(pot, T)              (eH - eL - (pH - pL)/csqL) / (3 wH)
    p_trace(pot, phase, fe, rtol)   the admissibility predicate P_trace on a traced table
    self_check(pot, phase, T)  finite-difference test of dV, d2V against V (guards the oracle)

The second-derivative pieces V_TT and V_phiT are written out per family here (additive to
the zoo, which offers V, V_T, grad and Hessian).
"""
from __future__ import annotations

import math

import numpy as np

EPS = float(np.finfo(float).eps)


def family(pot):
    return type(pot).__name__.lower()          # poly1 / poly2 / bag1


def branch(pot, phase, T):
    """Physical field values on the closed-form branch, shape (nT, nf).  Outside the
    existence interval the analytic continuation (clipped square roots) is returned."""
    T = np.atleast_1d(np.asarray(T, dtype=float))
    fam = family(pot)
    if fam == "poly1":
        if phase == "high":
            return np.zeros((T.size, 1))
        return np.asarray(pot.phi_broken(T), dtype=float).reshape(-1, 1)
    if fam == "poly2":
        z = np.zeros_like(T)
        if phase == "low":
            return np.stack([np.sqrt(np.maximum(pot.h2(T), 0.0)), z], axis=-1)
        return np.stack([z, np.sqrt(np.maximum(pot.S2(T), 0.0))], axis=-1)
    if fam == "bag1":
        v = 0.0 if phase == "high" else pot.vev()
        return np.full((T.size, 1), v)
    raise ValueError(fam)


def _VTT(pot, phi, T):
    fam = family(pot)
    if fam == "poly1":
        return -12 * pot.a * T ** 2 + 2 * pot.D * phi[..., 0] ** 2
    if fam == "poly2":
        return -12 * pot.a * T ** 2 + pot.ch * phi[..., 0] ** 2 + pot.cs * phi[..., 1] ** 2
    return -12 * pot.a * T ** 2


def _VphiT(pot, phi, T):
    fam = family(pot)
    if fam == "poly1":
        p = phi[..., 0]
        return np.stack([4 * pot.D * T * p - 3 * pot.E * p ** 2], axis=-1)
    if fam == "poly2":
        return np.stack([2 * pot.ch * T * phi[..., 0], 2 * pot.cs * T * phi[..., 1]], axis=-1)
    return np.zeros(phi.shape)


def V(pot, phase, T):
    T = np.atleast_1d(np.asarray(T, dtype=float))
    return np.asarray(pot.V_phys(branch(pot, phase, T), T), dtype=float)


def dV(pot, phase, T):
    T = np.atleast_1d(np.asarray(T, dtype=float))
    return np.asarray(pot.dVdT_phys(branch(pot, phase, T), T), dtype=float)


def d2V(pot, phase, T):
    T = np.atleast_1d(np.asarray(T, dtype=float))
    phi = branch(pot, phase, T)
    g = _VphiT(pot, phi, T)                       # (nT, nf)
    H = np.asarray(pot.hess_phys(phi, T), dtype=float)
    H = np.broadcast_to(H, (T.size, phi.shape[1], phi.shape[1]))
    out = np.asarray(_VTT(pot, phi, T), dtype=float).copy()
    for i in range(T.size):
        if np.any(g[i] != 0.0):
            out[i] -= float(g[i] @ np.linalg.solve(H[i], g[i]))
    return out


def eos(pot, phase, T):
    T = np.atleast_1d(np.asarray(T, dtype=float))
    p, dp, ddp = -V(pot, phase, T), -dV(pot, phase, T), -d2V(pot, phase, T)
    with np.errstate(all="ignore"):
        return {"p": p, "dp": dp, "ddp": ddp, "e": T * dp - p, "w": T * dp,
                "csq": dp / (T * ddp)}


def alpha_from(T, pH, dpH, pL, dpL, ddpL):
    """alpha as a function of the five thermodynamic inputs it depends on."""
    eH, eL = T * dpH - pH, T * dpL - pL
    csqL = dpL / (T * ddpL)
    return (eH - eL - (pH - pL) / csqL) / 3.0 / (T * dpH)


def alpha(pot, T):
    H, L = eos(pot, "high", T), eos(pot, "low", T)
    T = np.atleast_1d(np.asarray(T, dtype=float))
    return alpha_from(T, H["p"], H["dp"], L["p"], L["dp"], L["ddp"])


def self_check(pot, phase, T):
    """Relative mismatch of the analytic dV, d2V with 4th-order differences of V at T.
    (Guards against a wrong closed form in the oracle itself.)"""
    h = 2e-3 * T
    x = np.array([T - 2 * h, T - h, T, T + h, T + 2 * h])
    v = V(pot, phase, x)
    d1 = (v[0] - 8 * v[1] + 8 * v[3] - v[4]) / (12 * h)
    d2 = (-v[0] + 16 * v[1] - 30 * v[2] + 16 * v[3] - v[4]) / (12 * h * h)
    a1, a2 = float(dV(pot, phase, T)[0]), float(d2V(pot, phase, T)[0])
    sc1 = abs(a1) + abs(v[2]) / T
    sc2 = abs(a2) + abs(v[2]) / T ** 2
    return abs(d1 - a1) / sc1, abs(d2 - a2) / sc2


def physical(pot, phase, T):
    """Positive entropy and 0 < cs^2 < 1 from the closed form (the template extrapolation
    mu = 1 + 1/cs^2 presupposes it)."""
    q = eos(pot, phase, T)
    return bool(np.all(q["dp"] > 0) and np.all(q["ddp"] > 0) and np.all(q["csq"] > 1e-3)
                and np.all(q["csq"] < 1.0) and np.all(np.isfinite(q["csq"])))


# ------------------------------------------------------------------------------ P_trace
def p_trace(pot, phase, fe, rtol, K=10.0):
    """Admissibility predicate P_trace on the table left behind by FreeEnergy.tracePhase
    (this is C11's subject; here it only decides what C10 may judge).

    returns dict(status, why, nu, rows) with status in
        "ok"           every row inside the analytic existence interval, nearer to its own
                       branch than to the other phase's, free-energy excess of every row
                       <= K*rtol*|V|
        "hop"          a row lies outside the existence interval (beyond the 1e-6 relative
                       slack documented in DESIGN C11) or nearer to the other branch
        "off-minimum"  same branch, but some row's V(phi_k,T_k) - V_exact(T_k) exceeds the
                       value-level tolerance
    A stored V_k that is not V(phi_k,T_k) (rounding: 1e-12) does not change the status; it is
    returned under "stored_V_mismatch" and nu is then taken from V(phi_k,T_k).
    nu = max |V_k - V_exact(T_k)| (the data noise entering the spline), rows = table size.
    """
    Tk = np.asarray(fe._interpolationPoints, dtype=float)
    vals = np.asarray(fe._interpolationValues, dtype=float)
    out = {"status": "ok", "why": "", "nu": 0.0, "rows": int(Tk.size),
           "table": [float(Tk.min()), float(Tk.max())]}
    lo, hi = pot.exists(phase)
    if Tk.min() < lo * (1 - 1e-6) or Tk.max() > hi * (1 + 1e-6):
        out.update(status="hop", why=f"table [{Tk.min():.9g},{Tk.max():.9g}] leaves the "
                   f"existence interval ({lo:.9g},{hi:.9g})")
        return out
    if np.any(np.diff(Tk) <= 0):
        out.update(status="hop", why="table abscissae not strictly increasing")
        return out
    phi = pot.to_phys(vals[:, :-1])
    own = branch(pot, phase, Tk)
    other = branch(pot, "low" if phase == "high" else "high", Tk)
    d_own = np.linalg.norm(phi - own, axis=1)
    d_oth = np.linalg.norm(phi - other, axis=1)
    sep = np.linalg.norm(own - other, axis=1)
    far = (d_own > d_oth) & (sep > 0)
    if np.any(far):
        k = int(np.argmax(far))
        out.update(status="hop", why=f"row T={Tk[k]:.9g} phi={phi[k].tolist()} is nearer to "
                   f"the other phase ({other[k].tolist()}) than to its own ({own[k].tolist()})")
        return out
    Vex = V(pot, phase, Tk)
    Vrow = np.asarray(pot.V_phys(phi, Tk), dtype=float)
    scale = np.abs(Vex) + pot.a * Tk ** 4
    excess = (Vrow - Vex) / scale
    stored = np.abs(vals[:, -1] - Vrow) / scale
    out["nu"] = float(np.max(np.abs(vals[:, -1] - Vex)))
    out["max_excess_rel"] = float(np.max(excess))
    if np.max(stored) > 1e-12:
        # The rows sit where they should, but the tabulated free energy is not the potential
        # at the tabulated point.  That is not an inadmissible *input* of C10: the reported
        # pressure is minus this column, so "p = -V at the minimum" is C10's own statement
        # and stays judged.  The data noise entering the tolerance must then not be taken
        # from the (wrong) stored column -- it would excuse itself -- but from the rows.
        k = int(np.argmax(stored))
        out["stored_V_mismatch"] = {"rel": float(stored[k]), "T": float(Tk[k]), "row": k,
                                    "stored": float(vals[k, -1]), "V_at_row": float(Vrow[k])}
        out["nu"] = float(np.max(np.abs(Vrow - Vex)))
    if np.max(np.abs(excess)) > K * rtol + 64 * EPS:
        k = int(np.argmax(np.abs(excess)))
        out.update(status="off-minimum", why=f"row T={Tk[k]:.9g}: free-energy excess "
                   f"{excess[k]:.2e}|V| > {K:g}*rTol={K * rtol:.1e} (|dphi|={d_own[k]:.2e})")
    return out


# ---------------------------------------------------------------- interpolation-error model
class SplineErrorModel:
    """The *documented* accuracy model of the free-energy table (manager.initTemperatureRange:
    "the error of a cubic spline scales like dT**4"), evaluated for this case:

        |s   - f  | <= 5/384 h^4 M4        (Hall & Meyer 1976, any mesh, h = max spacing)
        |s'  - f' | <= 1/24  h^3 M4
        |s'' - f''| <= 3/8   h^2 M4

    with h the largest knot spacing of the table (<= the dT handed to tracePhase) and M4 the
    closed-form max |d4V/dT4| within 6 h of T, plus 0.27^6 times its maximum over the whole
    table (the influence of a far-away interval on a cubic spline decays by 2-sqrt(3) per
    knot).  Data noise nu (max |V_k - V_exact(T_k)| of the rows, at least 4 eps |V|) enters
    as c_n nu / h_med^n with h_med the *median* spacing: a table whose abscissae nearly
    coincide amplifies rounding noise far beyond that, which is a property of the table the
    code produced and not something the model excuses."""

    C = (5.0 / 384.0, 1.0 / 24.0, 3.0 / 8.0)
    CN = (2.0, 4.0, 16.0)

    def __init__(self, pot, phase, knots, nu):
        self.t = np.asarray(knots, dtype=float)
        h = np.diff(self.t)
        self.hmax = float(h.max())
        self.hmed = float(np.median(h))
        self.hmin = float(h.min())
        self.imin = int(np.argmin(h))
        G = np.linspace(self.t[0], self.t[-1], 1201)
        d2 = d2V(pot, phase, G)
        dG = G[1] - G[0]
        d4 = np.abs(np.diff(d2, 2)) / dG ** 2
        self.G = G[1:-1]
        self.d4 = d4
        self.M4glob = float(np.max(d4))
        Vs = np.abs(V(pot, phase, G))
        self.nu = max(float(nu), 4 * EPS * float(np.max(Vs)))

    def M4(self, T):
        w = 6 * self.hmax + (self.G[1] - self.G[0])
        sel = np.abs(self.G - T) <= w
        loc = float(np.max(self.d4[sel])) if np.any(sel) else self.M4glob
        return loc + 0.27 ** 6 * self.M4glob

    def model(self, n, T):
        return self.C[n] * self.hmax ** (4 - n) * self.M4(T) + self.CN[n] * self.nu / self.hmed ** n

    def near_duplicate(self):
        """(ratio h_min/h_med, location) of the closest pair of abscissae."""
        return self.hmin / self.hmed, float(self.t[self.imin])
