"""Independent reference for the one-loop thermal integrals (property C20).

    J_b(x) =  int_0^inf dy y^2 log(1 - exp(-sqrt(y^2 + x)))
    J_f(x) = -int_0^inf dy y^2 log(1 + exp(-sqrt(y^2 + x)))

for every real x.  For x < 0 the square root is continued from the upper half plane,
sqrt(y^2 + x) = +i sqrt(-x - y^2) on 0 <= y < sqrt(-x), and the logarithm is the principal
one (Re(1 -/+ e^{-i theta}) >= 0, so the principal branch is the continuous one), which is
what WallGo.PotentialTools.integrals documents ("principal part").

Nothing in here is taken from WallGo.  Three independent evaluations are provided:

* ``J`` / ``dJ``       mpmath tanh-sinh quadrature of the *complex* integrand at ``dps``
                       (default 20) digits, integration interval split at every logarithmic
                       singularity  y_k = sqrt(-x - (k pi)^2)  (k even: bosons, k odd:
                       fermions; at those points |1 -/+ e^{-i theta}| = 0 and the
                       imaginary part jumps by pi) and at y = sqrt(-x).
                       The derivative uses  d/dx log(1 -/+ e^{-E}) = (1/2y) d/dy log(...)
                       and one integration by parts:
                           J_b'(x) = -1/2 int_0^inf log(1 - e^{-E}) dy
                           J_f'(x) = +1/2 int_0^inf log(1 + e^{-E}) dy
                       (only logarithmic singularities; valid for every real x).
* ``series`` / ``dseries``   Bessel series for x > 0 (scipy, vectorised)
                           J_b = -sum_n x K_2(n sqrt x)/n^2,  J_f = sum_n (-1)^n x K_2(n sqrt x)/n^2
                           J_b' = sum_n sqrt(x)/(2n) K_1(n sqrt x), J_f' = -sum_n (-1)^n (...)
* ``envelope``         rigorous closed-form bounds for x > 0 (Boltzmann form):
                           x K_2(sqrt x) <= |J_b| <= x K_2(sqrt x)/(1 - e^{-sqrt x})
                           x K_2(sqrt x)(1 - e^{-sqrt x}/2) <= |J_f| <= x K_2(sqrt x)

``selfcheck`` compares them with each other and with the known values at zero; the check
module records the outcome as evidence and refuses to judge anything if it fails.
"""
from __future__ import annotations

import math

import mpmath as mp
import numpy as np

JB0 = -math.pi ** 4 / 45.0
JF0 = -7.0 * math.pi ** 4 / 360.0
DJB0 = math.pi ** 2 / 12.0          # J_b'(0) = zeta(2)/2
DJF0 = math.pi ** 2 / 24.0          # J_f'(0) = eta(2)/2

DPS = 20          # identical float64 results to dps=30 on [-20,0] (checked), 44% cheaper


def thresholds(kind: str, xmin: float = -4000.0) -> list[float]:
    """Arguments x < = 0 at which J_kind(x) has a branch point ((x + w_n^2)^{3/2} from the
    Matsubara mode w_n = 2 n pi (bosons) / (2n+1) pi (fermions))."""
    out = []
    k = 0 if kind == "b" else 1
    while -(k * math.pi) ** 2 >= xmin:
        out.append(-(k * math.pi) ** 2)
        k += 2
    return out


def _breaks(kind: str, x) -> list:
    """Break points in y for x < 0: 0, the zeros of |1 -/+ e^{-i theta}| and sqrt(-x)."""
    a = mp.sqrt(-x)
    pts = [mp.mpf(0)]
    k = 2 if kind == "b" else 1
    ys = []
    while (k * mp.pi) ** 2 < -x:
        ys.append(mp.sqrt(-x - (k * mp.pi) ** 2))
        k += 2
    pts += sorted(ys)
    if not pts or pts[-1] != a:
        pts.append(a)
    # drop duplicates (threshold exactly hit -> y_k = 0)
    uniq = [pts[0]]
    for p in pts[1:]:
        if p - uniq[-1] > mp.mpf(10) ** (-mp.mp.dps + 5):
            uniq.append(p)
    return uniq


def _tail_points(a, x):
    """Split [a, inf) so tanh-sinh sees the scale of the integrand: it decays like
    exp(-sqrt(y^2+x)) ~ exp(-y) for y >> sqrt|x|."""
    s = max(mp.mpf(1), mp.sqrt(abs(x)))
    return [a, a + s / 4, a + s, a + 4 * s, a + 4 * s + 40, mp.inf]


def _logterm(kind: str, x, y):
    e = mp.sqrt(mp.mpc(y * y + x))        # principal sqrt: +i sqrt|.| for negative argument
    if kind == "b":
        return mp.log(1 - mp.exp(-e))
    return -mp.log(1 + mp.exp(-e))


def _dps_for(x, dps):
    """mp.quad controls the absolute error at the working precision; for x > 0 the value
    decays like exp(-sqrt x), so carry that many extra digits."""
    return dps + (int(math.sqrt(x) / 2.3) + 10 if x > 0 else 0)


def J(kind: str, x: float, dps: int = DPS) -> tuple[float, float]:
    """(Re, Im) of J_b (kind 'b') or J_f (kind 'f') at real x."""
    with mp.workdps(_dps_for(x, dps)):
        x = mp.mpf(x)
        if x >= 0:
            f = lambda y: y * y * _logterm(kind, x, y).real  # noqa: E731
            if x == 0:
                pts = [0, 1, 5, 45, mp.inf]
            else:
                pts = _tail_points(mp.mpf(0), x)
            return float(mp.quad(f, pts)), 0.0
        br = _breaks(kind, x)
        a = br[-1]
        fre = lambda y: y * y * _logterm(kind, x, y).real  # noqa: E731
        fim = lambda y: y * y * _logterm(kind, x, y).imag  # noqa: E731
        re = mp.quad(fre, br) + mp.quad(fre, _tail_points(a, x))
        im = mp.quad(fim, br)
        return float(re), float(im)


def dJ(kind: str, x: float, dps: int = DPS) -> tuple[float, float]:
    """(Re, Im) of dJ/dx at real x (see module docstring)."""
    with mp.workdps(_dps_for(x, dps)):
        x = mp.mpf(x)
        g = lambda y: -_logterm(kind, x, y) / 2  # noqa: E731
        if x >= 0:
            f = lambda y: g(y).real  # noqa: E731
            if x == 0:
                pts = [0, 1, 5, 45, mp.inf]
            else:
                pts = _tail_points(mp.mpf(0), x)
            return float(mp.quad(f, pts)), 0.0
        br = _breaks(kind, x)
        a = br[-1]
        re = mp.quad(lambda y: g(y).real, br) + mp.quad(lambda y: g(y).real, _tail_points(a, x))
        im = mp.quad(lambda y: g(y).imag, br)
        return float(re), float(im)


def _nmax(z):
    # terms decay like exp(-n z)/n^{5/2}; stop at exp(-45) ~ 3e-20 relative to the first
    return int(min(4000, max(3, math.ceil(45.0 / z) + 1)))


def series(kind: str, x) -> np.ndarray:
    """Bessel-series value for x > 0 (array in, array out, real)."""
    from scipy.special import kve
    x = np.atleast_1d(np.asarray(x, dtype=float))
    out = np.empty_like(x)
    for i, xi in enumerate(x):
        z = math.sqrt(xi)
        n = np.arange(1, _nmax(z) + 1, dtype=float)
        # kve(2, nz) = K_2(nz) e^{nz}
        t = xi * kve(2, n * z) * np.exp(-n * z) / n ** 2
        if kind == "f":
            t = t * (-1.0) ** (n + 1)
        # sum small terms first
        out[i] = -float(np.sum(t[::-1]))
    return out


def dseries(kind: str, x) -> np.ndarray:
    from scipy.special import kve
    x = np.atleast_1d(np.asarray(x, dtype=float))
    out = np.empty_like(x)
    for i, xi in enumerate(x):
        z = math.sqrt(xi)
        n = np.arange(1, _nmax(z) + 1, dtype=float)
        t = z / (2.0 * n) * kve(1, n * z) * np.exp(-n * z)
        if kind == "f":
            t = t * (-1.0) ** (n + 1)
        out[i] = float(np.sum(t[::-1]))
    return out


def boltzmann(x) -> np.ndarray:
    """Leading (n = 1) term  x K_2(sqrt x)  ~ sqrt(pi/2) x^{3/4} e^{-sqrt x} (1 + 15/(8 sqrt x))."""
    from scipy.special import kve
    x = np.asarray(x, dtype=float)
    z = np.sqrt(x)
    return x * kve(2, z) * np.exp(-z)


def envelope(kind: str, x) -> tuple[np.ndarray, np.ndarray]:
    """(lower, upper) bounds on |J_kind(x)| for x > 0."""
    x = np.asarray(x, dtype=float)
    b = boltzmann(x)
    q = np.exp(-np.sqrt(x))
    if kind == "b":
        return b, b / (1.0 - q)
    return b * (1.0 - q / 2.0), b


def selfcheck() -> dict:
    """Cross-validate the three evaluations, the values at zero and the derivative formula.
    Returns {"ok": bool, "n": int, "max_ratio": float, "worst": tag, "failed": [...]}; every
    entry carries its own tolerance (ratio = error / tolerance)."""
    entries = []

    def upd(err, tol, tag):
        entries.append((float(err) / tol, tag))

    for kind, v0, d0 in (("b", JB0, DJB0), ("f", JF0, DJF0)):
        upd(abs(J(kind, 0.0)[0] - v0) / abs(v0), 1e-13, (kind, "J(0)"))
        upd(abs(dJ(kind, 0.0)[0] - d0) / abs(d0), 1e-13, (kind, "dJ(0)"))
        for x in (1e-3, 0.37, 5.0, 77.0, 950.0, 2500.0):
            a = J(kind, x)[0]
            b = float(series(kind, x)[0])
            upd(abs(a - b) / abs(b), 1e-12, (kind, "J~series", x))
            a = dJ(kind, x)[0]
            c = float(dseries(kind, x)[0])
            upd(abs(a - c) / abs(c), 1e-12, (kind, "dJ~dseries", x))
            lo, hi = envelope(kind, x)
            inside = float(lo) * (1 - 1e-12) <= abs(b) <= float(hi) * (1 + 1e-12)
            upd(0.0 if inside else 1.0, 0.5, (kind, "envelope", x))
        # derivative formula (integration by parts) against a symmetric difference of J;
        # difference error h^2 |d3J|/6 with |d3J| < 50 away from the thresholds
        for x in (-0.5, -3.0, -12.0, -45.0):
            h = 1e-3
            for part in (0, 1):
                fd = (J(kind, x + h)[part] - J(kind, x - h)[part]) / (2 * h)
                upd(abs(dJ(kind, x)[part] - fd), 1e-5, (kind, "dJ~FD", x, part))
        # 50-digit evaluation agrees with the default-precision one
        for x in (-7.7, -33.3):
            a, b = J(kind, x), J(kind, x, dps=50)
            upd(max(abs(a[0] - b[0]), abs(a[1] - b[1])), 1e-13, (kind, "dps20~dps50", x))
        # continuity of the real part across 0: |J(-d) - J(0)| <= 2 d |dJ(0)|
        upd(abs(J(kind, -1e-9)[0] - v0), 2e-9, (kind, "J(-0)"))
    entries.sort(key=lambda e: -e[0])
    failed = [e for e in entries if not e[0] <= 1.0]
    return {"ok": not failed, "n": len(entries), "max_ratio": entries[0][0],
            "worst": entries[0][1], "failed": failed}
