"""Independent reference pieces for C12 (Boltzmann solver).

Nothing here imports WallGo's Polynomial / BoltzmannSolver arithmetic.  Everything that
plays the role of an oracle is built from numpy.polynomial (restricted Chebyshev bases,
derivatives of polynomials), complex-step differentiation of the equilibrium distribution
and the textbook Lorentz velocity addition.

Conventions (read off the *documentation* of WallGo.Grid / WallGo.Polynomial):

* grid nodes  chi_a = -cos(a pi/M), a=1..M-1;  rz_b = -cos(b pi/N), b=1..N-1;
  rp_c = -cos(c pi/(N-1)), c=0..N-2   (Gauss-Lobatto, boundary points at infinity dropped)
* "Chebyshev" basis without endpoints:
     z, pz :  T_n(x) - 1 (n even),  T_n(x) - x (n odd),  n = 2..M (resp. N)
     pp    :  T_n(x) - 1,                                 n = 1..N-1
* "Cardinal" basis: Lagrange cardinal functions of the nodes, coefficients = grid values.
"""
from __future__ import annotations

import numpy as np
import numpy.polynomial.chebyshev as Ch
import numpy.polynomial.polynomial as Pw

EPS = float(np.finfo(float).eps)


# ----------------------------------------------------------------------------- bases
def nodes(M, N):
    chi = -np.cos(np.arange(1, M) * np.pi / M)
    rz = -np.cos(np.arange(1, N) * np.pi / N)
    rp = -np.cos(np.arange(0, N - 1) * np.pi / (N - 1))
    return chi, rz, rp


def vander_full(x, nmax):
    """columns: T_n - 1 (n even) / T_n - x (n odd), n = 2..nmax; vanish at x = +-1."""
    x = np.asarray(x)
    V = Ch.chebvander(x, nmax)
    n = np.arange(2, nmax + 1)
    return V[:, 2:] - np.where(n % 2 == 0, np.ones_like(x)[:, None], x[:, None])


def vander_partial(x, nmax):
    """columns: T_n - 1, n = 1..nmax; vanish at x = +1."""
    return Ch.chebvander(np.asarray(x), nmax)[:, 1:] - 1.0


def basis_matrices(M, N, basisM, basisN):
    """(A, B, C): grid values = A (z) x B (pz) x C (pp) applied to the coefficients."""
    chi, rz, rp = nodes(M, N)
    A = vander_full(chi, M) if basisM == "Chebyshev" else np.eye(M - 1)
    B = vander_full(rz, N) if basisN == "Chebyshev" else np.eye(N - 1)
    C = vander_partial(rp, N - 1) if basisN == "Chebyshev" else np.eye(N - 1)
    return A, B, C


def coeffs_to_values(coef, M, N, basisM, basisN):
    """coef (P, M-1, N-1, N-1) in (basisM, basisN, basisN) -> values on the grid."""
    A, B, C = basis_matrices(M, N, basisM, basisN)
    return np.einsum("ai,bj,ck,pijk->pabc", A, B, C, np.asarray(coef), optimize=True)


def _solve_axis(mat, arr, axis):
    a = np.moveaxis(arr, axis, 0)
    out = np.linalg.solve(mat, a.reshape(a.shape[0], -1)).reshape(a.shape)
    return np.moveaxis(out, 0, axis)


def values_to_coeffs(vals, M, N, basisM, basisN):
    A, B, C = basis_matrices(M, N, basisM, basisN)
    out = np.asarray(vals, dtype=float)
    if basisM == "Chebyshev":
        out = _solve_axis(A, out, 1)
    if basisN == "Chebyshev":
        out = _solve_axis(B, out, 2)
        out = _solve_axis(C, out, 3)
    return out


def basis_condition(M, N, basisM, basisN):
    A, B, C = basis_matrices(M, N, basisM, basisN)
    return float(np.linalg.cond(A) * np.linalg.cond(B) * np.linalg.cond(C))


def collision_cardinal_to_chebyshev(Ccard, N):
    """Collision kernel acting on grid values -> kernel acting on restricted-Chebyshev
    coefficients of the momentum dependence: (C g)(b,c) = sum_jk Ccard[b,c,j,k] g(j,k),
    g(j,k) = sum_{j'k'} B[j,j'] Cm[k,k'] coef[j',k']."""
    _, B, Cm = basis_matrices(2, N, "Cardinal", "Chebyshev")
    return np.einsum("abcdjk,jm,kn->abcdmn", Ccard, B, Cm, optimize=True)


# ------------------------------------------------------------------------ backgrounds
def boost(v, u):
    """Relativistic velocity addition: velocity v seen from a frame moving with u."""
    return (v - u) / (1.0 - v * u)


class Profiles:
    """Analytic background  T(x), v_wallframe(x), phi_i(x)  built from a shape function.

    kind "tanh": shape(u) = tanh(u), argument u = (xi/L - x0)/w   (xi physical position)
    kind "poly": shape   = polynomial in the compact coordinate chi (power-basis
                 coefficients ``pc``), so spectral derivatives are exact.  For the
                 velocity the polynomial is the profile in the frame moving with
                 velocityMid = v0 (the solver's plasma frame).
    Everything is in units of T0 (temperatures, fields) and L (lengths).
    """

    def __init__(self, bg, T0, L):
        self.bg = bg
        self.T0 = float(T0)
        self.L = float(L)
        self.kind = bg["kind"]

    def _shape(self, which, chi, xi):
        spec = self.bg[which] if not isinstance(which, dict) else which
        if self.kind == "tanh":
            return np.tanh((np.asarray(xi) / self.L - spec["x0"]) / spec["w"])
        return Pw.polyval(chi, np.asarray(spec["pc"], dtype=float))

    def T(self, chi, xi=None):
        return self.T0 * (1.0 + self.bg["T"]["a"] * self._shape("T", chi, xi))

    def vWallFrame(self, chi, xi=None):
        if self.kind == "poly":
            # the *plasma-frame* velocity is the polynomial (that is what the solver
            # differentiates); the wall-frame profile handed to WallGo is its boost back
            vpl = self.bg["v"].get("c0", 0.0) + self.bg["v"]["a"] * self._shape("v", chi, xi)
            vm = self.bg["v"]["v0"]
            return (vpl + vm) / (1.0 + vpl * vm)
        return self.bg["v"]["v0"] + self.bg["v"]["a"] * self._shape("v", chi, xi)

    def fields(self, chi, xi=None):
        cols = []
        for f in self.bg["fields"]:
            s = self._shape(f, chi, xi)
            cols.append(self.T0 * (f["lo"] + (f["hi"] - f["lo"]) * 0.5 * (1.0 - s)))
        return cols

    def velocityMid(self):
        # average of the two asymptotic wall-frame velocities
        if self.kind == "tanh":
            lo = self.bg["v"]["v0"] - self.bg["v"]["a"]
            hi = self.bg["v"]["v0"] + self.bg["v"]["a"]
        else:
            return float(self.bg["v"]["v0"])   # frame in which v_plasma is the polynomial
        return 0.5 * (lo + hi)

    def msq(self, part, chi, xi=None):
        tot = self.T0 ** 2 * part["m0"]
        for c, f in zip(part["c"], self.fields(chi, xi)):
            tot = tot + c * f ** 2
        return tot


def feq(x, stat):
    """stat = -1 Fermi-Dirac, +1 Bose-Einstein."""
    return 1.0 / (np.exp(x) - stat)


def source_reference(prof, part, chi, dxidchi, pz, pp, h=1e-30):
    """S = -(P_wall d/dxi - gamma_wall/2 (dm^2/dxi) d/dp_z) f_eq   evaluated by complex-step
    differentiation of  f_eq = 1/(exp(gamma (E - v p_z)/T) -+ 1)  with the background an
    analytic function of chi.  Momenta live in the frame moving with velocityMid relative
    to the wall (the solver's "plasma frame"); v below is the fluid velocity in that frame.
    Returns array (len(chi), len(pz), len(pp))."""
    stat = -1.0 if part["stat"] == "Fermion" else 1.0
    vmid = prof.velocityMid()
    vw = boost(0.0, vmid)
    gw = 1.0 / np.sqrt(1.0 - vw * vw)
    chi3 = np.asarray(chi)[:, None, None]
    pz3 = np.asarray(pz)[None, :, None]
    pp3 = np.asarray(pp)[None, None, :]

    def f(chi_c, pz_c):
        T = prof.T(chi_c)
        v = boost(prof.vWallFrame(chi_c), vmid)
        m2 = prof.msq(part, chi_c)
        E = np.sqrt(m2 + pz_c ** 2 + pp3 ** 2)
        g = 1.0 / np.sqrt(1.0 - v * v)
        return feq(g * (E - v * pz_c) / T, stat)

    dfdchi = np.imag(f(chi3 + 1j * h, pz3 + 0j)) / h
    dfdpz = np.imag(f(chi3 + 0j, pz3 + 1j * h)) / h
    dm2dchi = np.imag(prof.msq(part, chi3 + 1j * h)) / h
    m2 = prof.msq(part, chi3)
    E = np.sqrt(m2 + pz3 ** 2 + pp3 ** 2)
    Pw_ = gw * (pz3 - vw * E)
    dchidxi = 1.0 / np.asarray(dxidchi)[:, None, None]
    return -(Pw_ * dchidxi * dfdchi - 0.5 * gw * dm2dchi * dchidxi * dfdpz)


# --------------------------------------------------------------- polynomial test functions
class TestDeviation:
    """g_a(chi, rz, rp) = s_a (1-chi^2) q(chi) * (1-rz^2) r(rz) * (1-rp) w(rp), polynomial
    (power-basis coefficient lists q, r, w), vanishing on the dropped boundaries."""

    def __init__(self, q, r, w, amps):
        self.q = Pw.polymul([1.0, 0.0, -1.0], q)
        self.r = Pw.polymul([1.0, 0.0, -1.0], r)
        self.w = Pw.polymul([1.0, -1.0], w)
        self.amps = np.asarray(amps, dtype=float)

    def values(self, chi, rz, rp, dchi=0, drz=0):
        q = Pw.polyder(self.q, dchi) if dchi else self.q
        r = Pw.polyder(self.r, drz) if drz else self.r
        a = Pw.polyval(chi, q)[:, None, None]
        b = Pw.polyval(rz, r)[None, :, None]
        c = Pw.polyval(rp, self.w)[None, None, :]
        return self.amps[:, None, None, None] * (a * b * c)[None]


def operator_reference(prof, parts, Ccard, mult, g, M, N, dxidchi, dpzdrz, pz, pp):
    """(L g + mult T^2 C g) on the grid for polynomial g and polynomial-in-chi background:
    L = dchi/dxi [ P_wall d/dchi - gamma_wall/2 dm^2/dchi drz/dpz d/drz ].
    Returns (liouville_part, collision_part), each (P, M-1, N-1, N-1)."""
    chi, rz, rp = nodes(M, N)
    vmid = prof.velocityMid()
    vw = boost(0.0, vmid)
    gw = 1.0 / np.sqrt(1.0 - vw * vw)
    gv = g.values(chi, rz, rp)
    gchi = g.values(chi, rz, rp, dchi=1)
    grz = g.values(chi, rz, rp, drz=1)
    dchidxi = 1.0 / np.asarray(dxidchi)[None, :, None, None]
    drzdpz = 1.0 / np.asarray(dpzdrz)[None, None, :, None]
    m2 = np.array([prof.msq(p, chi) for p in parts])[:, :, None, None]
    h = 1e-30
    dm2 = np.array([np.imag(prof.msq(p, chi + 1j * h)) / h for p in parts])[:, :, None, None]
    E = np.sqrt(m2 + pz[None, None, :, None] ** 2 + pp[None, None, None, :] ** 2)
    Pwall = gw * (pz[None, None, :, None] - vw * E)
    liou = dchidxi * (Pwall * gchi - 0.5 * gw * dm2 * drzdpz * grz)
    T = prof.T(chi)[None, :, None, None]
    coll = mult * T ** 2 * np.einsum("abcdjk,dzjk->azbc", Ccard, gv, optimize=True)
    return liou, coll


# ------------------------------------------------ reference system for sampled backgrounds
def lobatto_diff(n):
    """(x, D): Gauss-Lobatto nodes x_j = -cos(j pi/n), j = 0..n, and the differentiation
    matrix of the Lagrange interpolant through them (barycentric form; node differences
    from the product-to-sum identity, diagonal from the negative row sum)."""
    j = np.arange(n + 1)
    x = -np.cos(j * np.pi / n)
    w = (-1.0) ** j
    w[0] *= 0.5
    w[-1] *= 0.5
    s = j[:, None] + j[None, :]
    d = j[:, None] - j[None, :]
    dx = 2.0 * np.sin(s * np.pi / (2 * n)) * np.sin(d * np.pi / (2 * n))   # x_i - x_j
    np.fill_diagonal(dx, 1.0)
    D = (w[None, :] / w[:, None]) / dx
    np.fill_diagonal(D, 0.0)
    np.fill_diagonal(D, -D.sum(axis=1))
    return x, D


def plain_grid_closed_form(M, N, L, Tmom):
    """Coordinates and Jacobians of WallGo.Grid from its documented compactification
    chi = xi/sqrt(xi^2+L^2), rho_z = tanh(p_z/2T), rho_par = 1 - 2 exp(-p_par/T)."""
    chi, rz, rp = nodes(M, N)
    return {"xi": L * chi / np.sqrt(1.0 - chi ** 2), "pz": 2.0 * Tmom * np.arctanh(rz),
            "pp": -Tmom * np.log((1.0 - rp) / 2.0),
            "dxidchi": L / (1.0 - chi ** 2) ** 1.5, "dpzdrz": 2.0 * Tmom / (1.0 - rz ** 2)}


def reference_system(T, vWallFrame, vMid, msq, stats, Ccard, mult, M, N, gq):
    """Linear system  (L + mult T^2 C) f = S  on collocation values f[a, alpha, beta, gamma]
    (Cardinal/Cardinal) for a background given by its samples on the full chi grid
    (T, vWallFrame: (M+1,); msq: (P, M+1)) and the grid quantities
    gq = {dxidchi (M-1,), dpzdrz (N-1,), pz (N-1,), pp (N-1,)}.

      L f = dchi/dxi [ P_wall d/dchi - gamma_w/2 dm^2/dchi drz/dpz d/drz ] f
      S   = -(P_wall d/dxi - gamma_w/2 dm^2/dxi d/dp_z) f_eq,
      f_eq = 1/(exp(gamma (E - v p_z)/T) -+ 1)

    The xi-derivative of f_eq is taken by complex-step differentiation along the direction
    (dT/dchi, dv/dchi, dm^2/dchi) in the space of background quantities, these three being
    the spectral derivatives (own Lobatto differentiation matrix) of the samples; the
    p_z-derivative by complex step in p_z.  deltaF vanishes on the dropped boundary nodes,
    hence the interior blocks of the differentiation matrices.
    Returns (operator (n, n), source (n,))."""
    P = len(stats)
    _, Dc = lobatto_diff(M)
    _, Dz = lobatto_diff(N)
    T = np.asarray(T, dtype=float)
    vpl = boost(np.asarray(vWallFrame, dtype=float), vMid)
    msq = np.asarray(msq, dtype=float)
    vw = boost(0.0, vMid)
    gw = 1.0 / np.sqrt(1.0 - vw * vw)
    dT = (Dc @ T)[1:-1]
    dv = (Dc @ vpl)[1:-1]
    dm2 = (msq @ Dc.T)[:, 1:-1]
    Ti, vi, m2i = T[1:-1], vpl[1:-1], msq[:, 1:-1]
    pz = np.asarray(gq["pz"], dtype=float)
    pp = np.asarray(gq["pp"], dtype=float)
    dchidxi = 1.0 / np.asarray(gq["dxidchi"], dtype=float)
    drzdpz = 1.0 / np.asarray(gq["dpzdrz"], dtype=float)
    st = np.asarray(stats, dtype=float)[:, None, None, None]

    h = 1e-30
    Z = (None, slice(None), None, None)
    PZ = pz[None, None, :, None]
    PP = pp[None, None, None, :]

    def f(Tc, vc, m2c, pzc):
        E = np.sqrt(m2c + pzc ** 2 + PP ** 2)
        g = 1.0 / np.sqrt(1.0 - vc * vc)
        return feq(g * (E - vc * pzc) / Tc, st)

    m2b = m2i[:, :, None, None]
    dfdchi = np.imag(f(Ti[Z] + 1j * h * dT[Z], vi[Z] + 1j * h * dv[Z],
                       m2b + 1j * h * dm2[:, :, None, None], PZ + 0j)) / h
    dfdpz = np.imag(f(Ti[Z] + 0j, vi[Z] + 0j, m2b + 0j, PZ + 1j * h)) / h
    E = np.sqrt(m2b + PZ ** 2 + PP ** 2)
    Pwall = gw * (PZ - vw * E)
    source = -(Pwall * dchidxi[Z] * dfdchi
               - 0.5 * gw * dm2[:, :, None, None] * dchidxi[Z] * dfdpz)

    m1, n1 = M - 1, N - 1
    op = np.zeros((P, m1, n1, n1, P, m1, n1, n1))
    Dci, Dzi = Dc[1:-1, 1:-1], Dz[1:-1, 1:-1]
    Im, In = np.eye(m1), np.eye(n1)
    for a in range(P):
        op[a, :, :, :, a] += np.einsum("zbg,zi,bj,gk->zbgijk",
                                       dchidxi[:, None, None] * Pwall[a], Dci, In, In,
                                       optimize=True)
        op[a, :, :, :, a] -= np.einsum("z,b,zi,bj,gk->zbgijk", dchidxi * (gw / 2) * dm2[a],
                                       drzdpz, Im, Dzi, In, optimize=True)
    op += mult * np.einsum("z,zi,abgcjk->azbgcijk", Ti ** 2, Im, np.asarray(Ccard),
                           optimize=True)
    n = P * m1 * n1 * n1
    return op.reshape(n, n), source.reshape(n)
