"""C17 reference models: the documented coordinate maps in 40-digit mpmath arithmetic,
their derivatives, and forward rounding bounds for the float64 evaluation.

Nothing in here imports WallGo.  The models are *closed forms written from the
documentation* (class docstrings of Grid and Grid3Scales):

* simple position map       chi = xi / sqrt(xi^2 + L^2)          (Grid docstring)
* momentum maps             rho_z = tanh(p_z / 2T),  rho_par = 1 - 2 exp(-p_par / T)
* three-scale position map  z(chi) - z(0) = int_0^chi f(x)/(1-x^2) dx with f a sum of two
  smoothed steps  (x-x0)/sqrt(a^2+(x-x0)^2)  at x0 = -r, +r plus a constant; the integral
  is the five-term sum of arctanh's.  ``ThreeScaleModel.selfcheck`` verifies, for the
  parameters of the case at hand, that the derivative of the five-term closed form equals
  f/(1-x^2) to 1e-25, so the closed form itself is validated, not trusted.

Rounding bounds.  The float64 code evaluates  Re arctanh(y)  with  y = (u + v)/D  where
u = 1 -/+ x, v = +/- sqrt(a^2 + (x -/+ r)^2).  A first-order forward analysis gives

    |d y|      <= eps (|u| + 2|v| + |u+v|)/D + 2 eps |y|
    |d atanh|  <= |d y| / |1 - y^2| + 2 eps |atanh y|

and the five terms are then scaled and summed (3 eps per product/sum).  The bound is
evaluated in mpmath *for that very point*, so the ill-conditioning of the closed form for
small a (y -> 1+: observed errors of the real map up to 5e-5 of max(|z-centre|, L) at grid
points and 2.5e-3 at probe points, inside the quantified domain) is allowed for
exactly where it occurs and nowhere else.  Calibration (unchanged tree and tree with the
two proposed fixes; quick seeds 0-4 = 2 100 grids, thorough seeds 0-1 = 10 000 grids,
2.1e6 position points): observed error / bound <= 0.50 for the map, <= 0.28 for the
Jacobian, <= 0.50 for the quadrature relation, and the maxima do not grow from the quick
to the thorough sample.  The safety factors K_MAP = K_JAC = 4 therefore leave a margin of
8, while every mutant tried (wrong factor, sign, argument in any term) exceeds the bound
by a factor 1e3 ... 1e14.
"""
from __future__ import annotations

import mpmath as mp

mp.mp.dps = 40
EPS = 2.0 ** -52
MPF = mp.mpf

K_MAP = 4.0      # safety factors on the forward rounding bounds (see module docstring)
K_JAC = 4.0


def _reatanh(y):
    """Re arctanh(y) for real y (|y| may exceed 1): log|(1+y)/(1-y)|/2."""
    return mp.log(abs((1 + y) / (1 - y))) / 2


class ThreeScaleModel:
    """Position map of Grid3Scales for given (L, r, s, tailIn, tailOut, centre).

    ``aIn``/``aOut`` may be passed (the object's own derived parameters, taken as exact
    numbers) or are computed from the defining condition "each smoothed step has the value
    s L / r at the origin".
    """

    def __init__(self, L, r, s, tailIn, tailOut, centre, aIn=None, aOut=None):
        self.L, self.r, self.s = MPF(L), MPF(r), MPF(s)
        self.tIn, self.tOut, self.c = MPF(tailIn), MPF(tailOut), MPF(centre)
        self.aInExact = self.a_from_condition(self.tIn)
        self.aOutExact = self.a_from_condition(self.tOut)
        self.aIn = MPF(aIn) if aIn is not None else self.aInExact
        self.aOut = MPF(aOut) if aOut is not None else self.aOutExact
        L_, r_ = self.L, self.r
        aI, aO = self.aIn, self.aOut
        self.D = [mp.sqrt(aO ** 2 + (1 - r_) ** 2), mp.sqrt(aO ** 2 + (1 + r_) ** 2),
                  mp.sqrt(aI ** 2 + (1 - r_) ** 2), mp.sqrt(aI ** 2 + (1 + r_) ** 2)]
        cO = 2 * r_ * self.tOut - L_
        cI = 2 * r_ * self.tIn - L_
        self.coef = [(1 - r_) * cO / self.D[0] / r_, -(1 + r_) * cO / self.D[1] / r_,
                     (1 - r_) * cI / self.D[2] / r_, -(1 + r_) * cI / self.D[3] / r_,
                     2 * self.tIn + 2 * self.tOut - 4 * self.s * L_ / r_]
        self._t0 = None
        self._b0 = None

    # -- derived parameter from its defining condition ------------------------------
    def a_from_condition(self, tail):
        """a such that (2 tail - L/r) (1 - r/sqrt(a^2+r^2)) / 2 == s L / r."""
        L_, r_, s_ = self.L, self.r, self.s
        q = 1 - 2 * s_ * L_ / (2 * r_ * tail - L_)       # = r/sqrt(a^2+r^2), in (0,1)
        return r_ * mp.sqrt(1 / q ** 2 - 1)

    def a_relative_rounding(self, tail):
        """first-order bound on the relative float error of aIn/aOut as coded
        (cancellation in 2 r tail - L(1+2s) and 2 r tail - L(1+s))."""
        L_, r_, s_ = self.L, self.r, self.s
        big = 2 * r_ * abs(tail) + L_ * (1 + 2 * s_)
        d1 = abs(2 * r_ * tail - L_ * (1 + 2 * s_))
        d2 = abs(2 * r_ * tail - L_ * (1 + s_))
        return float(EPS * (3 * big / d1 + 1.5 * big / d2 + 6))

    # -- the five terms -------------------------------------------------------------
    def _parts(self, x):
        x = MPF(x)
        so = mp.sqrt(self.aOut ** 2 + (x - self.r) ** 2)
        si = mp.sqrt(self.aIn ** 2 + (x + self.r) ** 2)
        uv = [(1 - x, so), (1 + x, -so), (1 + x, -si), (1 - x, si)]
        ys = [(u + v) / D for (u, v), D in zip(uv, self.D)]
        return x, uv, ys

    def _sum(self, x):
        x, _, ys = self._parts(x)
        tot = self.coef[4] * mp.atanh(x)
        for c, y in zip(self.coef, ys):
            tot += c * _reatanh(y)
        return tot / 2

    def z(self, x):
        if self._t0 is None:
            self._t0 = self._sum(0)
        return self._sum(x) - self._t0 + self.c

    def f(self, x):
        """the documented smoothed-step numerator of z'(chi)."""
        x = MPF(x)
        L_, r_ = self.L, self.r
        return ((2 * self.tIn - L_ / r_) * (1 - (x + r_) / mp.sqrt(self.aIn ** 2 + (x + r_) ** 2)) / 2
                + (2 * self.tOut - L_ / r_) * (1 + (x - r_) / mp.sqrt(self.aOut ** 2 + (x - r_) ** 2)) / 2
                + (1 - 2 * self.s) * L_ / r_)

    def jac_doc(self, x):
        x = MPF(x)
        return self.f(x) / (1 - x ** 2)

    def jac(self, x):
        """derivative of the five-term map (numerical differentiation at 40 digits)."""
        return mp.diff(self.z, MPF(x))

    def selfcheck(self, xs):
        """max relative |d/dx five-term - f/(1-x^2)| over xs (must be ~1e-30)."""
        worst = MPF(0)
        for x in xs:
            worst = max(worst, abs(self.jac(x) / self.jac_doc(x) - 1))
        return float(worst)

    # -- rounding bounds ------------------------------------------------------------
    def _sum_bound(self, x):
        x, uv, ys = self._parts(x)
        tot = MPF(0)
        for c, (u, v), y, D in zip(self.coef, uv, ys, self.D):
            dn = EPS * (abs(u) + 2 * abs(v) + abs(u + v))
            dy = dn / D + 2 * EPS * abs(y)
            at = abs(_reatanh(y))
            tot += abs(c) * (dy / abs(1 - y ** 2) + 2 * EPS * at) + 3 * EPS * abs(c) * at
        tot += 5 * EPS * abs(self.coef[4] * mp.atanh(x))
        return tot / 2

    def z_bound(self, x):
        """forward rounding bound (float) of decompactify's z at x, without K."""
        if self._b0 is None:
            self._b0 = self._sum_bound(0)
        return float(self._sum_bound(x) + self._b0 + EPS * abs(self.c) + 2 * EPS * abs(self.z(x)))

    def jac_bound(self, x):
        x = MPF(x)
        L_, r_ = self.L, self.r
        mag = 4 * (abs(2 * self.tIn - L_ / r_) + abs(2 * self.tOut - L_ / r_) + L_ / r_)
        one = 1 - x ** 2
        return float(EPS * mag / one + abs(self.jac_doc(x)) * (EPS / one + 4 * EPS))

    def centre_slope_tol(self):
        """tolerance on |J(0) - L/r|: rounding of the three-term sum plus the effect of
        the (cancellation-amplified) rounding of aIn/aOut on each step's value at 0."""
        L_, r_ = self.L, self.r
        tol = 16 * EPS * (abs(self.tIn) + abs(self.tOut) + L_ / r_)
        for tail, a in ((self.tIn, self.aIn), (self.tOut, self.aOut)):
            C = 2 * tail - L_ / r_
            dgda_a = abs(C) * r_ * a ** 2 / (2 * (a ** 2 + r_ ** 2) ** MPF(1.5))
            tol += 4 * dgda_a * self.a_relative_rounding(tail)
        return float(tol)


class SimpleModel:
    """Position map of Grid: chi = xi/sqrt(xi^2+L^2)  <=>  xi = L chi / sqrt(1-chi^2)."""

    def __init__(self, L):
        self.L = MPF(L)
        self.c = MPF(0)

    def compact(self, xi):
        xi = MPF(xi)
        return xi / mp.sqrt(xi ** 2 + self.L ** 2)

    def z(self, x):
        x = MPF(x)
        return self.L * x / mp.sqrt(1 - x ** 2)

    def jac(self, x):
        return mp.diff(self.z, MPF(x))

    def jac_doc(self, x):
        """1 / (d chi / d xi) of the documented compact map at xi = z(x)."""
        return 1 / mp.diff(self.compact, self.z(x))

    def selfcheck(self, xs):
        worst = MPF(0)
        for x in xs:
            worst = max(worst, abs(self.compact(self.z(x)) - MPF(x)),
                        abs(self.jac(x) / self.jac_doc(x) - 1))
        return float(worst)

    def z_bound(self, x):
        x = MPF(x)
        one = 1 - x ** 2
        return float(abs(self.z(x)) * (EPS / (2 * one) + 4 * EPS) + EPS * EPS * self.L)

    def jac_bound(self, x):
        x = MPF(x)
        one = 1 - x ** 2
        return float(abs(self.L / one ** MPF(1.5)) * (1.5 * EPS / one + 4 * EPS))


class MomentumModel:
    """rho_z = tanh(p_z/2T),  rho_par = 1 - 2 exp(-p_par/T)  (Grid docstring)."""

    def __init__(self, T):
        self.T = MPF(T)

    # pz
    def compact_pz(self, pz):
        return mp.tanh(MPF(pz) / (2 * self.T))

    def pz(self, rho):
        return 2 * self.T * mp.atanh(MPF(rho))

    def jac_pz(self, rho):
        return 1 / mp.diff(self.compact_pz, self.pz(rho))

    def pz_bound(self, rho):
        return float(4 * EPS * abs(self.pz(rho)) + 4 * EPS * self.T * abs(MPF(rho)) + EPS * EPS * self.T)

    def jac_pz_bound(self, rho):
        rho = MPF(rho)
        one = 1 - rho ** 2
        return float(2 * self.T / one * (EPS / one + 4 * EPS))

    # pp
    def compact_pp(self, pp):
        return 1 - 2 * mp.exp(-MPF(pp) / self.T)

    def pp(self, rho):
        return -self.T * mp.log((1 - MPF(rho)) / 2)

    def jac_pp(self, rho):
        return 1 / mp.diff(self.compact_pp, self.pp(rho))

    def pp_bound(self, rho):
        rho = MPF(rho)
        # (1-rho)/2 carries an absolute error eps/2 -> log error eps/(1-rho)
        return float(self.T * (EPS / (1 - rho) + 4 * EPS * abs(mp.log((1 - rho) / 2)) + 2 * EPS))

    def jac_pp_bound(self, rho):
        rho = MPF(rho)
        return float(self.T / (1 - rho) * (EPS / (1 - rho) + 4 * EPS))

    def selfcheck(self, rz, rp):
        worst = MPF(0)
        for x in rz:
            worst = max(worst, abs(self.compact_pz(self.pz(x)) - MPF(x)))
        for x in rp:
            worst = max(worst, abs(self.compact_pp(self.pp(x)) - MPF(x)))
        return float(worst)
