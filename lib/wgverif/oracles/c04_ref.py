"""C04 oracles: energy-momentum tensor of plasma + scalar field from the closed-form zoo
potential (analytic dV/dT), and the out-of-equilibrium stress from the moments by a direct
Lorentz boost of the plasma-frame tensor.  Nothing here imports the code under test and
nothing calls EOM.temperatureProfileEqLHS / plasmaVelocity / deltaToTmunu.

Conventions (read off hydrodynamics.findHydroBoundaries and EOM): z grows towards the
symmetric (high-T) phase, the fluid moves towards -z in the wall frame, so v < 0 and
c1 = T^{30} = w gamma^2 v < 0;  c2 = T^{33} = p + w gamma^2 v^2.
"""
from __future__ import annotations

import math

import numpy as np

EPS = float(np.finfo(float).eps)


def boost_matrix(v):
    """Lambda^mu_nu taking plasma-frame components to the frame in which the plasma moves
    with velocity v along z (u^mu = gamma (1,0,0,v))."""
    g = 1.0 / math.sqrt((1.0 - v) * (1.0 + v))
    lam = np.eye(4)
    lam[0, 0] = lam[3, 3] = g
    lam[0, 3] = lam[3, 0] = g * v
    return lam


def tout_direct(d00, d02, d20, d11, msq, dofs, v):
    """Out-of-equilibrium (T^{30}, T^{33}) in the wall frame from the moments of each
    species (arrays over species), DESIGN C13 definition:
        plasma frame  T^{00}=D20, T^{03}=D11, T^{33}=D02, T^{11}=T^{22}=(D20-D02-m^2 D00)/2
    boosted with the explicit 4x4 matrix, summed with the degrees of freedom."""
    lam = boost_matrix(v)
    t30 = t33 = 0.0
    for a00, a02, a20, a11, m2, n in zip(d00, d02, d20, d11, msq, dofs):
        tp = 0.5 * (a20 - a02 - m2 * a00)
        Tpl = np.array([[a20, 0.0, 0.0, a11],
                        [0.0, tp, 0.0, 0.0],
                        [0.0, 0.0, tp, 0.0],
                        [a11, 0.0, 0.0, a02]])
        Tw = lam @ Tpl @ lam.T
        t30 += n * Tw[3, 0]
        t33 += n * Tw[3, 3]
    return float(t30), float(t33)


class PointStress:
    """T^{30}, T^{33} at one grid point as functions of (T, v) from closed forms."""

    def __init__(self, pot, x_code, dphidz, t30_out, t33_out):
        self.pot = pot
        self.phi = pot.to_phys(np.atleast_2d(np.asarray(x_code, dtype=float)))
        self.kin = 0.5 * float(np.sum(np.asarray(dphidz, dtype=float) ** 2))
        self.t30_out, self.t33_out = float(t30_out), float(t33_out)

    def w(self, T):
        return float(-T * np.ravel(self.pot.dVdT_phys(self.phi, np.asarray(float(T))))[0])

    def V(self, T):
        return float(np.ravel(self.pot.V_phys(self.phi, np.asarray(float(T))))[0])

    def t30(self, T, v):
        return self.w(T) * v / ((1 - v) * (1 + v)) + self.t30_out

    def t33(self, T, v):
        return self.kin - self.V(T) + self.w(T) * v * v / ((1 - v) * (1 + v)) + self.t33_out

    def v_from_t30(self, T, c1):
        """|v|<1 root of w gamma^2 v = c1 - T30_out (used only to propagate the root
        finder's tolerance in T into a tolerance on the T33 residual)."""
        s1 = c1 - self.t30_out
        w = self.w(T)
        if s1 == 0.0:
            return 0.0
        return (-w + math.sqrt(w * w + 4 * s1 * s1)) / (2 * s1)

    def t33_on_t30_shell(self, T, c1):
        return self.t33(T, self.v_from_t30(T, c1))


def phase_eos(pot, phase, T):
    """closed-form (p, w) of a phase at temperature T: p = -V(phi_min(T),T),
    w = -T dV/dT at fixed phi (envelope theorem: dV/dphi = 0 at the minimum)."""
    ph = pot.phases(float(T))[phase]
    if ph is None:
        return None
    phi = np.atleast_2d(ph)
    p = -float(np.ravel(pot.V_phys(phi, np.asarray(float(T))))[0])
    w = -float(T) * float(np.ravel(pot.dVdT_phys(phi, np.asarray(float(T))))[0])
    return p, w


def matching_residuals(pot, vp, vm, Tp, Tm):
    """relative flux residuals of a matching on the closed-form EOS (P_matching)."""
    hi, lo = phase_eos(pot, "high", Tp), phase_eos(pot, "low", Tm)
    if hi is None or lo is None:
        return None
    (pp, wp), (pm, wm) = hi, lo
    gp, gm = 1 / (1 - vp * vp), 1 / (1 - vm * vm)
    r1 = (wp * gp * vp - wm * gm * vm) / (wp * gp * vp)
    r2 = (pp + wp * gp * vp * vp - pm - wm * gm * vm * vm) / (abs(pp) + wp)
    return r1, r2


def smooth_moments(rng, chi, npart, amp):
    """random low-degree Chebyshev series times (1-chi^2): vanish at the points at infinity.
    returns array (4, npart, len(chi)) with max |.| <= amp (order: 00, 02, 20, 11)."""
    out = np.zeros((4, npart, chi.size))
    for a in range(4):
        for i in range(npart):
            deg = int(rng.integers(0, 5))
            c = rng.normal(size=deg + 1)
            q = np.polynomial.chebyshev.chebval(chi, c) * (1 - chi ** 2)
            m = float(np.max(np.abs(q)))
            out[a, i] = amp * float(rng.uniform(-1, 1)) * q / (m if m > 0 else 1.0)
    return out
