"""C09 oracles: 40-digit tanh profile with a *numerically differentiated* derivative
(mpmath.diff, so the reference never uses the sech^2 closed form the code uses), the
absolute scale of the pressure integrand, and the rounding bound of the 4th-order finite
difference gradient.  Nothing here imports the code under test.
"""
from __future__ import annotations

import math

import mpmath as mp
import numpy as np

EPS = float(np.finfo(float).eps)
DPS = 40


def profile_mp(z, low, high, width, offset):
    """(phi, dphi/dz) of  phi = low + (high-low)/2 (1 + tanh(z/width + offset))  at 40
    digits; the derivative is mp.diff of phi (Richardson-extrapolated differences), not a
    formula.  All inputs are taken as the exact binary floats the code received."""
    # far in the tail phi - phi(inf) ~ e^{-2|x|}: differencing phi resolves the derivative
    # only if the working precision carries those extra 0.87|x| digits
    xabs = abs(float(z) / float(width) + float(offset))
    with mp.workdps(DPS + int(0.9 * xabs) + 5):
        lo, hi, w, d = mp.mpf(float(low)), mp.mpf(float(high)), mp.mpf(float(width)), \
            mp.mpf(float(offset))

        def phi(x):
            return lo + (hi - lo) / 2 * (1 + mp.tanh(x / w + d))

        z0 = mp.mpf(float(z))
        # default step method: central differences with h = 2^-(prec+..) evaluated at
        # raised working precision -> full 40-digit accuracy for a function smooth on the
        # scale of the width (>= 1e-3 in every workload)
        return phi(z0), mp.diff(phi, z0)


def profile_residuals(zs, low, high, widths, offsets, fields, dphidz, idx):
    """Compare the recorded output of the real wallProfile on points ``idx`` with the
    40-digit reference.  Returns (worst_field_ratio, worst_deriv_ratio, rows, npoints).

    Tolerances (propagated first-order rounding of the float64 evaluation, x2):
      fields:  |err| <= 2*(4 + 2 sech^2(x)|x|... ) -> simplified, safe form
               8 eps (|low| + |high|)            (tanh in [-1,1], a few roundings)
      dPhidz:  relative (16 + 8|x|) eps, x = z/L + delta  (d ln cosh^2 / dx <= 2, the
               argument carries <= eps |x| absolute rounding)
    """
    nf = len(widths)
    worst_f = worst_d = 0.0
    rows = []
    n = 0
    for k in idx:
        for i in range(nf):
            ph, dph = profile_mp(zs[k], low[i], high[i], widths[i], offsets[i])
            x = abs(zs[k] / widths[i] + offsets[i])
            tol_f = 8 * EPS * (abs(low[i]) + abs(high[i])) + 1e-300
            ef = abs(float(mp.mpf(float(fields[k][i])) - ph))
            rf = ef / tol_f
            d_ref = float(dph)
            # |x| > 355: cosh(x)^2 overflows and the code returns 0 where the exact value is a
            # denormal ~1e-308 |dphi|/L; that underflow is admitted by the absolute floor
            tol_d = (16 + 8 * x) * EPS * abs(d_ref) + 5e-324 * 16 \
                + 1e-290 * abs(high[i] - low[i]) / abs(widths[i])
            ed = abs(float(mp.mpf(float(dphidz[k][i])) - dph))
            if not np.isfinite(fields[k][i]):
                rf = math.inf
            if not np.isfinite(dphidz[k][i]):
                ed, rd = math.inf, math.inf
            else:
                rd = ed / tol_d
            n += 1
            if rf > worst_f:
                worst_f = rf
            if rd > worst_d:
                worst_d = rd
            if rf > 1 or rd > 1:
                rows.append({"point": int(k), "field": i, "z": float(zs[k]), "x": float(x),
                             "field_got": float(fields[k][i]), "field_ref": float(ph),
                             "d_got": float(dphidz[k][i]), "d_ref": d_ref,
                             "d_rel_err": ed / abs(d_ref) if d_ref else math.inf})
    return worst_f, worst_d, rows, n


def tanh_profile(z, low, high, widths, offsets):
    """float64 profile and closed-form derivative for the *oracle's* scale estimate only."""
    x = z[:, None] / widths[None, :] + offsets[None, :]
    f = low[None, :] + 0.5 * (high - low)[None, :] * (1 + np.tanh(x))
    d = 0.5 * (high - low)[None, :] / widths[None, :] / np.cosh(np.clip(x, -300, 300)) ** 2
    return f, d


def integrand_scale(grad_code, low, high, widths, offsets, temperature, n=6001):
    """S = int dz sum_i |dV/dx_i  dx_i/dz|  (closed-form gradient ``grad_code(x, T)`` in
    code fields, trapezoid on a fine uniform mesh covering +-(22 + |offset|) widths).
    The quadrature error of the code is an error *relative to this mass*, not relative to
    the difference of the end values (which vanishes at T_c)."""
    low, high = np.asarray(low, float), np.asarray(high, float)
    widths, offsets = np.asarray(widths, float), np.asarray(offsets, float)
    zmax = float(np.max((22.0 + np.abs(offsets)) * widths))
    z = np.linspace(-zmax, zmax, n)
    f, d = tanh_profile(z, low, high, widths, offsets)
    g = grad_code(f, temperature)
    per_field = np.trapezoid(np.abs(g * d), z, axis=0)
    signed = float(np.trapezoid(np.sum(g * d, axis=1), z))
    return float(np.sum(per_field)), signed


def fd_rounding_bound(vmax, dx, dphi):
    """First-order rounding bound on  int dz sum_i (FD gradient error)_i dphi_i/dz :
    the 4th-order central stencil (1,-8,8,-1)/12 has sum|c| = 1.5; each potential value
    carries <= 4 eps |V| (evaluation of a quartic in floats); int |dphi_i/dz| dz = |Delta phi_i|
    (monotone tanh)."""
    dx = np.asarray(dx, float)
    dphi = np.abs(np.asarray(dphi, float))
    return float(np.sum(1.5 * 4 * EPS * vmax / dx * dphi))


def resolution(znodes, widths, offsets, span=2.0):
    """rho = min_i L_i / (largest node spacing within +-span L_i of the centre -delta_i L_i
    of wall i): the number of quadrature nodes per wall width where that wall lives.
    0 when the nodes do not cover the region."""
    z = np.asarray(znodes, float)
    rho = math.inf
    for L, d in zip(np.asarray(widths, float), np.asarray(offsets, float)):
        lo, hi = -d * L - span * L, -d * L + span * L
        if lo < z[0] or hi > z[-1]:
            return 0.0
        k0 = max(int(np.searchsorted(z, lo, side="right")) - 1, 0)
        k1 = min(int(np.searchsorted(z, hi, side="left")), z.size - 1)
        gap = float(np.max(np.diff(z[k0:k1 + 1])))
        rho = min(rho, L / gap)
    return float(rho)
