"""Executable reference model of the InterpolatableFunction evaluation contract (C18).

The model is *not* a copy of WallGo's implementation: it keeps only what the docstrings of
``InterpolatableFunction`` promise --

  * the table: strictly increasing abscissae ``xs`` and rows ``ys`` (every row finite; a row
    with a non-finite entry is left out, individually);
  * one out-of-range mode per side (ERROR / NONE / CONSTANT / FUNCTION);
  * the adaptive bookkeeping (points evaluated directly with a finite value are remembered;
    at the threshold the table is extended to cover them, 0.2*initialCount points per side,
    initialCount/2 per side when no table exists yet);

and predicts, for every operation, the output *shape*, the per-element *category*
(inside / below / above / direct), whether ``ValueError`` is due, the *value* (own scipy
``CubicSpline`` inside; outside exactly what the mode of that side prescribes) with a
per-element tolerance propagated from rounding / finite-difference / spline error models,
the set of abscissae that must be evaluated directly, and the *post-state*.

It also ships the analytic test functions (closed-form derivatives and sup-norm bounds of
all derivatives, optional non-finite region) from which the "agrees with the underlying
function to interpolation accuracy" bound is computed.

Nothing in this file imports WallGo.
"""
from __future__ import annotations

import numpy as np
from scipy.interpolate import CubicSpline

EPS = float(np.finfo(float).eps)
MODES = ("ERROR", "NONE", "CONSTANT", "FUNCTION")

# category codes (per input element)
INSIDE, BELOW, ABOVE, DIRECT = 0, -1, 1, 2

# ---- accuracy model -----------------------------------------------------------------
# Hall & Meyer (1976): for the complete cubic spline on an arbitrary mesh with maximal
# step H,  |f-s| <= 5/384 H^4 M4,  |f'-s'| <= 1/24 H^3 M4,  |f''-s''| <= 3/8 H^2 M4.
# scipy's default is the not-a-knot spline on (after extensions, dropped non-finite points)
# strongly non-uniform meshes, whose constants are larger, most of all for s''.  K_ACC[k]
# is the safety factor in front of the Hall-Meyer constant for the k-th derivative.
# Calibration (all ten proposed fixes applied; thorough tier seeds 0 and 1, 26 200 sequences
# and 5.7e5 judged in-range entries each; C18.py summarize ->
# "acc_ratio_max_in_units_of_Hall_Meyer_bound"): largest observed
#   error / (Hall-Meyer bound with the effective local step)
# = 13.9 (k=0), 20.3 (k=1), 100.7 (k=2); quick tier seeds 0-4: <= 11 / 8 / 3.
# K_ACC leaves a factor >= 7.  A wrong table row or a wrong mode is an O(1) error in the
# value (O(1/h^k) in the derivatives), i.e. far beyond the bound (unchanged tree, tables
# damaged by the arange defects: 2e4 / 1e4 / 2e4 .. 3e9 Hall-Meyer units).
HM = (5.0 / 384.0, 1.0 / 24.0, 3.0 / 8.0)
K_ACC = (100.0, 200.0, 1000.0)
# influence of a long interval j on the error in interval i decays like RHO^|i-j|
# (the exact decay rate of cubic-spline fundamental functions is 2-sqrt(3)=0.268; 0.5 is
# deliberately pessimistic)
RHO = 0.5
# safety factor on the finite-difference error model (truncation + rounding)
K_FD = 10.0
# sum |c_i| of the central 5-point stencils used by helpers.derivative (order 4)
S_FD = {1: 18.0 / 12.0, 2: 64.0 / 12.0}
# truncation constants of those stencils: dx^4/30 f^(5), dx^4/90 f^(6)
T_FD = {1: 1.0 / 30.0, 2: 1.0 / 90.0}


def fd_step(order, epsilon=1e-16, scale=1.0):
    """Step used by WallGo.helpers.derivative (documented: scale*epsilon^(1/(n+order)),
    accuracy order 4)."""
    return float(scale) * float(epsilon) ** (1.0 / (order + 4))


def round15(a):
    """What a '%.15g' text round trip does to every entry."""
    a = np.asarray(a, dtype=float)
    flat = np.array([float("%.15g" % v) for v in a.ravel()], dtype=float)
    return flat.reshape(a.shape)


# ======================================================================================
class TestFunction:
    """R-component analytic function
         f_j(x) = A sin(w x + p) + B cos(v x + q) + C + L x
    with closed-form derivatives, sup bounds  M_k = |A| w^k + |B| v^k (+|L| for k=1), and an
    optional region where one component (or all) is non-finite."""

    __test__ = False

    def __init__(self, spec):
        self.spec = spec
        self.R = int(spec["R"])
        c = spec["comps"]
        g = lambda k: np.array([float(d[k]) for d in c])  # noqa: E731
        self.A, self.w, self.p = g("A"), g("w"), g("p")
        self.B, self.v, self.q = g("B"), g("v"), g("q")
        self.C, self.L = g("C"), g("L")
        self.xabs = float(spec["xabs"])       # sup |x| over the case's whole domain
        self.nan = spec.get("nan") or {"kind": "none"}
        self.has_bounds = True

    # -- smooth part -------------------------------------------------------------------
    def smooth(self, x, k=0):
        """k-th derivative of the smooth function, shape x.shape + (R,) (always with the
        component axis)."""
        x = np.asarray(x, dtype=float)[..., None]
        a1 = self.w * x + self.p + k * np.pi / 2.0
        a2 = self.v * x + self.q + k * np.pi / 2.0
        r = self.A * self.w ** k * np.sin(a1) + self.B * self.v ** k * np.cos(a2)
        if k == 0:
            r = r + self.C + self.L * x
        elif k == 1:
            r = r + self.L
        return r

    def bad(self, x):
        """True where the value is non-finite."""
        x = np.asarray(x, dtype=float)
        kd = self.nan["kind"]
        if kd == "none":
            return np.zeros(x.shape, dtype=bool)
        if kd == "interval":
            return (x > self.nan["a"]) & (x < self.nan["b"])
        if kd == "above":
            return x > self.nan["a"]
        if kd == "below":
            return x < self.nan["a"]
        raise ValueError(kd)

    def value(self, x):
        """What the underlying function returns: x.shape for R == 1, x.shape+(R,) else."""
        x = np.asarray(x, dtype=float)
        r = self.smooth(x, 0)
        b = self.bad(x)
        if np.any(b):
            val = {"nan": np.nan, "inf": np.inf, "-inf": -np.inf}[self.nan.get("val", "nan")]
            comp = self.nan.get("comp", None)
            if comp is None:
                r[b, :] = val
            else:
                r[b, int(comp) % self.R] = val
        if self.R == 1:
            return r[..., 0]
        return r

    def value_rows(self, x):
        """value() with the component axis always present."""
        r = self.value(x)
        return r[..., None] if self.R == 1 else r

    def bound(self, k):
        """sup |f^(k)| per component, shape (R,), on |x| <= xabs."""
        if k == 0:
            return np.abs(self.A) + np.abs(self.B) + np.abs(self.C) + np.abs(self.L) * self.xabs
        r = np.abs(self.A) * self.w ** k + np.abs(self.B) * self.v ** k
        if k == 1:
            r = r + np.abs(self.L)
        return r

    def value_tol(self):
        """Rounding bound for 'the same closed form evaluated on a different array layout'
        (SIMD vs scalar libm paths differ by <= 1 ulp per transcendental; argument
        w*x+p carries eps*|w x|)."""
        return 8.0 * EPS * (self.bound(0) + self.xabs * self.bound(1))


def random_function_spec(rng, R, center, halfwidth, nan_kind="none"):
    comps = []
    for _ in range(R):
        comps.append({
            "A": float(rng.uniform(0.2, 2.0) * rng.choice([-1, 1])),
            "w": float(rng.uniform(0.3, 2.5)), "p": float(rng.uniform(0, 6.28)),
            "B": float(rng.uniform(0.0, 1.5)), "v": float(rng.uniform(0.3, 2.5)),
            "q": float(rng.uniform(0, 6.28)),
            "C": float(rng.uniform(-3, 3)), "L": float(rng.uniform(-0.5, 0.5)),
        })
    spec = {"R": int(R), "comps": comps, "center": float(center),
            "halfwidth": float(halfwidth),
            "xabs": float(abs(center) + halfwidth + 1.0), "nan": {"kind": "none"}}
    if nan_kind != "none":
        nan = {"kind": nan_kind, "val": str(rng.choice(["nan", "nan", "inf", "-inf"]))}
        if nan_kind == "interval":
            a = center + rng.uniform(-0.6, 0.4) * halfwidth
            nan["a"] = float(a)
            nan["b"] = float(a + rng.uniform(0.03, 0.25) * halfwidth)
        elif nan_kind == "above":
            nan["a"] = float(center + rng.uniform(0.15, 0.7) * halfwidth)
        else:
            nan["a"] = float(center - rng.uniform(0.15, 0.7) * halfwidth)
        nan["comp"] = None if (R == 1 or rng.random() < 0.4) else int(rng.integers(R))
        spec["nan"] = nan
    return spec


class OpaqueFunction:
    """Adapter for a function without known derivative bounds (JbIntegral, JfIntegral,
    FreeEnergy: the model then uses a pristine second instance as 'the underlying
    function').  Accuracy-bound and finite-difference value checks are skipped."""

    __test__ = False

    def __init__(self, R, call, xabs):
        self.R = int(R)
        self._call = call
        self.xabs = float(xabs)
        self.has_bounds = False
        self.nan = {"kind": "none"}

    def value(self, x):
        return np.asarray(self._call(np.asarray(x, dtype=float)), dtype=float)

    def value_rows(self, x):
        r = self.value(x)
        return r[..., None] if self.R == 1 else r

    def bad(self, x):
        return ~np.all(np.isfinite(self.value_rows(x)), axis=-1)

    def bound(self, k):
        return np.full(self.R, np.nan)

    def value_tol(self):
        return np.full(self.R, 1e-300)


# ======================================================================================
class Pred:
    """Prediction for one evaluate/derivative call."""

    def __init__(self, shape):
        self.shape = tuple(shape)
        self.raises = False          # ValueError due (an element lies on an ERROR side)
        self.cat = None              # int array, x.shape
        self.expected = None         # float array, shape; NaN where NaN is due
        self.tol = None              # float array, shape; inf where not judged
        self.truth = None            # underlying function / derivative (accuracy clause)
        self.acc = None              # accuracy bound (inf where clause not applicable)
        self.batches = []            # abscissae that must be evaluated directly, in order
        self.batches_exact = True    # False: only plausibility of observed batches
        self.layer = None            # bool x.shape: outside but within FD reach of the table
        self.kind = None             # bookkeeping label per element (mode used)


class TableUpdate:
    """Predicted effect of a table-changing operation."""

    def __init__(self, status, xs=None, ys=None, info=None):
        self.status = status      # 'ok' | 'undefined' (fewer than 2 valid points, or a
        #                            zero-width range: nothing is promised)
        self.xs = xs
        self.ys = ys
        self.info = info or {}


class InterpModel:
    def __init__(self, fn, adaptive, n0, threshold):
        self.fn = fn
        self.R = fn.R
        self.lower = "NONE"
        self.upper = "NONE"
        self.adaptive = bool(adaptive)
        self.n0 = int(n0)
        self.threshold = int(threshold)
        self.xs = None
        self.ys = None            # (n, R) always
        self.pending = np.array([])
        self.count = 0
        self._spl = None
        self._heff = None

    # -- state ---------------------------------------------------------------------------
    @property
    def has_table(self):
        return self.xs is not None

    @property
    def xmin(self):
        return float(self.xs[0])

    @property
    def xmax(self):
        return float(self.xs[-1])

    def set_table(self, xs, ys):
        self.xs = np.array(xs, dtype=float)
        ys = np.array(ys, dtype=float)
        self.ys = ys[:, None] if ys.ndim == 1 else ys
        self._spl = None
        self._heff = None

    def clear_table(self):
        self.xs = self.ys = self._spl = self._heff = None

    def spline(self):
        if self._spl is None:
            self._spl = CubicSpline(self.xs, self.ys, axis=0, extrapolate=True)
        return self._spl

    def heff(self):
        """effective local step per interval: max_j h_j * RHO^|i-j|."""
        if self._heff is None:
            h = np.diff(self.xs)
            f = h.copy()
            for i in range(1, len(h)):
                f[i] = max(f[i], f[i - 1] * RHO)
            b = h.copy()
            for i in range(len(h) - 2, -1, -1):
                b[i] = max(b[i], b[i + 1] * RHO)
            self._heff = np.maximum(f, b)
        return self._heff

    def acc_bound(self, x, k):
        """Bound on |f^(k) - s^(k)| at in-range x, shape x.shape+(R,)."""
        x = np.asarray(x, dtype=float)
        if not self.fn.has_bounds:
            return np.full(x.shape + (self.R,), np.inf)
        if len(self.xs) < 4:
            # two points: the 'spline' is the chord; three: the parabola through them.
            # Lagrange remainder with the whole table width (times 2)
            n = len(self.xs)
            Ht = self.xs[-1] - self.xs[0]
            Mn = self.fn.bound(n)
            c = {2: (1.0 / 8.0, 0.5, 1.0), 3: (4.0 / 162.0, 0.5, 1.0)}[n][k]
            b = 2.0 * c * Mn * Ht ** (n - k) + 64.0 * EPS * (
                self.fn.bound(0) + self.fn.xabs * self.fn.bound(1)) / np.min(np.diff(self.xs)) ** k
            if k == 2 and n == 2:
                b = b + self.fn.bound(2)          # s'' = 0
            return np.broadcast_to(b, x.shape + (self.R,)).copy()
        idx = np.clip(np.searchsorted(self.xs, x, side="right") - 1, 0, len(self.xs) - 2)
        H = self.heff()[idx][..., None]
        hmin = np.diff(self.xs)[idx][..., None]
        M4 = self.fn.bound(4)
        floor = 64.0 * EPS * (self.fn.bound(0) + self.fn.xabs * self.fn.bound(1)) / hmin ** k
        return K_ACC[k] * HM[k] * H ** (4 - k) * M4 + floor

    # -- table-changing operations -------------------------------------------------------
    def _filtered(self, xs, rows):
        ok = np.all(np.isfinite(rows), axis=-1)
        return xs[ok], rows[ok], int(np.sum(~ok))

    def _commit(self, xs, rows, info):
        xs, rows, ndrop = self._filtered(xs, rows)
        info = dict(info, dropped=ndrop)
        if len(xs) < 2 or not np.all(np.diff(xs) > 0):
            return TableUpdate("undefined", info=info)
        self.set_table(xs, rows)
        return TableUpdate("ok", self.xs, self.ys, info)

    def new_table(self, xmin, xmax, n):
        xs = np.linspace(xmin, xmax, int(n))
        return self._commit(xs, self.fn.value_rows(xs), {"op": "new", "new_rows_nonfinite":
                            int(np.sum(self.fn.bad(xs)))})

    def set_table_from_values(self, xs, rows):
        rows = np.asarray(rows, dtype=float)
        rows = rows[:, None] if rows.ndim == 1 else rows
        return self._commit(np.asarray(xs, dtype=float), rows, {"op": "fromValues"})

    def extend(self, new_min, new_max, p_min, p_max):
        """Documented intent: p_min equally spaced new points from new_min up to (not
        including) the old lower end; p_max equally spaced new points above the old upper
        end, the last one at new_max.  Resets the adaptive bookkeeping."""
        if not self.has_table:
            up = self.new_table(new_min, new_max, int(p_min + p_max)) \
                if new_max > new_min and p_min + p_max >= 2 else TableUpdate("undefined")
            up.info["op"] = "extend-no-table"
            return up
        lo = np.array([])
        hi = np.array([])
        if new_min < self.xmin and p_min > 0:
            lo = np.linspace(new_min, self.xmin, int(p_min), endpoint=False)
        if new_max > self.xmax and p_max > 0:
            hi = np.linspace(self.xmax, new_max, int(p_max) + 1)[1:]
        info = {"op": "extend", "n_lo": len(lo), "n_hi": len(hi),
                "new_min": float(new_min), "new_max": float(new_max),
                "p_min": int(p_min), "p_max": int(p_max),
                "old_min": self.xmin, "old_max": self.xmax,
                "new_rows_nonfinite": int((np.sum(self.fn.bad(lo)) if len(lo) else 0)
                                          + (np.sum(self.fn.bad(hi)) if len(hi) else 0)),
                "tol_x": 4.0 * (max(len(lo), len(hi)) + 2) * EPS
                * max(abs(new_min), abs(new_max), abs(self.xmin), abs(self.xmax))}
        # a gap that cannot hold the requested number of distinct floats: nothing is
        # promised about the table (covered / partly extended), see C18.py D10
        res = 4.0 * EPS * max(abs(new_min), abs(new_max), abs(self.xmin), abs(self.xmax))
        sub = (len(lo) and self.xmin - new_min <= 4 * len(lo) * res) or \
            (len(hi) and new_max - self.xmax <= 4 * len(hi) * res)
        if sub:
            info["sub_resolution"] = True
            if self.adaptive:
                self.pending = np.array([])
                self.count = 0
            return TableUpdate("undefined", info=info)
        xs = np.concatenate((lo, self.xs, hi))
        ev = lambda z: (self.fn.value_rows(z).reshape(-1, self.R) if len(z)  # noqa: E731
                        else np.empty((0, self.R)))
        rows = np.concatenate((ev(lo), self.ys, ev(hi)))
        up = self._commit(xs, rows, info)
        if self.adaptive:
            self.pending = np.array([])
            self.count = 0
        return up

    def write_read(self):
        """'%.15g' text round trip of the table."""
        xs = round15(self.xs)
        ys = round15(self.ys)
        return self._commit(xs, ys, {"op": "write-read"})

    def set_modes(self, lower, upper):
        assert lower in MODES and upper in MODES
        self.lower, self.upper = lower, upper

    def enable_adaptive(self):
        self.adaptive = True
        self.pending = np.array([])
        self.count = 0

    def disable_adaptive(self):
        self.adaptive = False

    # -- adaptive bookkeeping --------------------------------------------------------------
    def apply_batch(self, xb, scheduled=True):
        """One direct evaluation of the abscissae xb (any shape).  Returns None or the
        TableUpdate of the adaptive extension it triggers."""
        if not (self.adaptive and scheduled):
            return None
        xb = np.asarray(xb, dtype=float)
        ok = ~self.fn.bad(xb)
        valid = np.unique(xb[ok]) if xb.ndim else (xb.reshape(1) if bool(ok) else np.array([]))
        if valid.size == 0:
            return None
        self.count += int(valid.size)
        self.pending = np.concatenate((self.pending, valid))
        if self.count < self.threshold:
            return None
        lo, hi = float(np.min(self.pending)), float(np.max(self.pending))
        self.pending = np.array([])
        self.count = 0
        if self.has_table:
            n = int(0.2 * self.n0)
            up = self.extend(lo, hi, n, n)
        else:
            n = int(self.n0 / 2)
            if hi > lo and 2 * n >= 2:
                up = self.new_table(lo, hi, 2 * n)
            else:
                up = TableUpdate("undefined")
            if not (hi > lo):
                up.info["degenerate_range"] = True
        up.info.update(adaptive=True, lo=lo, hi=hi, n=n)
        return up

    # -- evaluation -----------------------------------------------------------------------
    def _out_shape(self, xa):
        return xa.shape + ((self.R,) if self.R > 1 else ())

    def _squeeze(self, rows):
        return rows[..., 0] if self.R == 1 else rows

    def categories(self, xa):
        if not self.has_table:
            return np.full(xa.shape, DIRECT, dtype=int)
        cat = np.zeros(xa.shape, dtype=int)
        cat[xa < self.xmin] = BELOW
        cat[xa > self.xmax] = ABOVE
        return cat

    def predict_evaluate(self, x, use_interp=True):
        xa = np.asarray(x, dtype=float)
        pr = Pred(self._out_shape(xa))
        R = self.R
        vt = self.fn.value_tol()
        if not self.has_table or not use_interp:
            pr.cat = np.full(xa.shape, DIRECT, dtype=int)
            pr.expected = self.fn.value(xa)
            pr.tol = self._squeeze(np.broadcast_to(vt, xa.shape + (R,)).copy())
            pr.batches = [xa.copy()]
            pr.kind = np.full(xa.shape, "direct", dtype=object)
            return pr
        cat = self.categories(xa)
        pr.cat = cat
        lo, hi, ins = cat == BELOW, cat == ABOVE, cat == INSIDE
        exp = np.full(xa.shape + (R,), np.nan)
        tol = np.full(xa.shape + (R,), np.inf)
        truth = np.full(xa.shape + (R,), np.nan)
        acc = np.full(xa.shape + (R,), np.inf)
        kind = np.full(xa.shape, "inside", dtype=object)
        spl = self.spline()
        scale0 = np.max(np.abs(self.ys), axis=0) + 1e-300
        if np.any(ins):
            e = spl(xa[ins])
            exp[ins] = e
            tol[ins] = 64.0 * EPS * np.maximum(np.abs(e), scale0)
            truth[ins] = self.fn.value_rows(xa[ins]).reshape(-1, R)
            acc[ins] = self.acc_bound(xa[ins], 0)
        pr.raises = bool((np.any(lo) and self.lower == "ERROR")
                         or (np.any(hi) and self.upper == "ERROR"))
        both_none = self.lower == "NONE" and self.upper == "NONE"
        out = lo | hi
        if both_none and np.any(out):
            pr.batches = [xa[out].copy()]
        for mask, mode, edge, name in ((lo, self.lower, self.xmin, "below"),
                                       (hi, self.upper, self.xmax, "above")):
            if not np.any(mask):
                continue
            kind[mask] = name + ":" + mode
            if mode == "ERROR":
                break          # nothing after the error is promised
            if mode == "NONE":
                exp[mask] = self.fn.value_rows(xa[mask]).reshape(-1, R)
                tol[mask] = vt
                if not both_none:
                    pr.batches.append(xa[mask].copy())
            elif mode == "CONSTANT":
                e = spl(edge)
                exp[mask] = e
                tol[mask] = 64.0 * EPS * np.maximum(np.abs(e), scale0)
            else:
                e = spl(xa[mask])
                exp[mask] = e
                tol[mask] = 64.0 * EPS * np.maximum(np.abs(e), scale0) * \
                    (1.0 + (np.abs(xa[mask] - edge) / np.min(np.diff(self.xs)))[..., None] ** 3)
        pr.expected, pr.tol = self._squeeze(exp), self._squeeze(tol)
        pr.truth, pr.acc = self._squeeze(truth), self._squeeze(acc)
        pr.kind = kind
        return pr

    def _fd_tol(self, order, dx, xa):
        """error model of the order-4 central difference on the smooth function."""
        fn = self.fn
        if not fn.has_bounds:
            return np.full(xa.shape + (self.R,), np.inf)
        trunc = T_FD[order] * dx ** 4 * fn.bound(order + 4)
        rnd = S_FD[order] * 2.0 * EPS * (fn.bound(0) + fn.xabs * fn.bound(1)) / dx ** order
        return np.broadcast_to(K_FD * (trunc + rnd), xa.shape + (self.R,)).copy()

    def predict_derivative(self, x, order, use_interp=True, epsilon=1e-16, scale=1.0):
        xa = np.asarray(x, dtype=float)
        pr = Pred(self._out_shape(xa))
        R = self.R
        fn = self.fn
        pr.batches_exact = False
        pr.layer = np.zeros(xa.shape, dtype=bool)
        if not self.has_table or not use_interp:
            dx = fd_step(order)       # the direct path documents no use of epsilon/scale
            pr.dx = dx
            pr.cat = np.full(xa.shape, DIRECT, dtype=int)
            exp = fn.smooth(xa, order) if fn.has_bounds else np.full(xa.shape + (R,), np.nan)
            tol = self._fd_tol(order, dx, xa)
            nearbad = self._near_bad(xa, 2.5 * dx)
            tol[nearbad] = np.inf
            pr.expected, pr.tol = self._squeeze(exp), self._squeeze(tol)
            pr.kind = np.full(xa.shape, "direct-fd", dtype=object)
            pr.nearbad = nearbad
            return pr
        dx = fd_step(order, epsilon, scale)
        pr.dx = dx
        cat = self.categories(xa)
        pr.cat = cat
        lo, hi, ins = cat == BELOW, cat == ABOVE, cat == INSIDE
        exp = np.full(xa.shape + (R,), np.nan)
        tol = np.full(xa.shape + (R,), np.inf)
        truth = np.full(xa.shape + (R,), np.nan)
        acc = np.full(xa.shape + (R,), np.inf)
        kind = np.full(xa.shape, "inside", dtype=object)
        spl = self.spline()
        dspl = spl.derivative(order)
        hmin = float(np.min(np.diff(self.xs)))
        scale0 = (np.max(np.abs(self.ys), axis=0) + 1e-300) / hmin ** order
        nearbad = self._near_bad(xa, 2.5 * dx)
        if np.any(ins):
            e = dspl(xa[ins])
            exp[ins] = e
            tol[ins] = 256.0 * EPS * np.maximum(np.abs(e), scale0)
            if fn.has_bounds:
                truth[ins] = fn.smooth(xa[ins], order)
                a = self.acc_bound(xa[ins], order)
                a[fn.bad(xa[ins])] = np.inf
                acc[ins] = a
        pr.raises = bool((np.any(lo) and self.lower == "ERROR")
                         or (np.any(hi) and self.upper == "ERROR"))
        reach = 2.0 * dx * (1.0 + 1e-9) + 4.0 * EPS * fn.xabs
        for mask, mode, edge, name in ((lo, self.lower, self.xmin, "below"),
                                       (hi, self.upper, self.xmax, "above")):
            if not np.any(mask):
                continue
            kind[mask] = name + ":" + mode
            if mode == "ERROR":
                continue
            xm = xa[mask]
            layer = np.abs(xm - edge) <= reach
            lay = np.zeros(xa.shape, dtype=bool)
            lay[mask] = layer
            pr.layer |= lay
            # Inside the layer a difference quotient over the function that evaluate()
            # returns (mode g outside, spline s inside) is as admissible as the exact
            # derivative of g.  The two differ by at most  S/dx^n * max |s - g|  over the
            # stencil points that lie inside the table; that deviation is computed from the
            # model's own spline, for this very stencil (factor 2 for the one-sided count).
            j = 0 if name == "below" else len(self.xs) - 2
            cj = spl.c[:, j]                      # end cubic, (4, R)
            sedge = spl(edge)

            def deviation(g):
                dev = np.zeros(xm.shape + (R,))
                for kk in (-2, -1, 1, 2):
                    pos = xm + kk * dx
                    ins_ = ((pos >= self.xmin) & (pos <= self.xmax))[..., None]
                    d_ = np.abs(spl(pos) - g(pos))
                    dev = np.maximum(dev, np.where(ins_, d_, 0.0))
                return dev

            if mode == "NONE":
                if fn.has_bounds:
                    exp[mask] = fn.smooth(xm, order)
                t = self._fd_tol(order, dx, xm)
                if np.any(layer):
                    dev = deviation(lambda pos: fn.smooth(pos, 0)) if fn.has_bounds else \
                        np.full(xm.shape + (R,), np.inf)
                    t[layer] += 2.0 * S_FD[order] / dx ** order * dev[layer]
                t[nearbad[mask]] = np.inf
                tol[mask] = t
            elif mode == "CONSTANT":
                c = np.abs(sedge)
                exp[mask] = 0.0
                t = np.broadcast_to(K_FD * S_FD[order] * 2.0 * EPS * (c + 1e-300)
                                    / dx ** order, xm.shape + (R,)).copy()
                if np.any(layer):
                    dev = deviation(lambda pos: np.broadcast_to(sedge, pos.shape + (R,)))
                    t[layer] += 2.0 * S_FD[order] / dx ** order * dev[layer]
                tol[mask] = t
            else:  # FUNCTION: the extrapolant is the end cubic itself
                e = dspl(xm)
                exp[mask] = e
                sc = np.maximum.reduce([np.abs(spl(xm - 2 * dx)), np.abs(spl(xm)),
                                        np.abs(spl(xm + 2 * dx))]) \
                    + fn.xabs * np.abs(spl.derivative(1)(xm))
                t = K_FD * S_FD[order] * 2.0 * EPS * (sc + 1e-300) / dx ** order \
                    + 256.0 * EPS * np.abs(e)
                if np.any(layer):
                    x0 = self.xs[j]

                    def pend(pos):
                        z = (pos - x0)[..., None]
                        return ((cj[0] * z + cj[1]) * z + cj[2]) * z + cj[3]
                    t[layer] += 2.0 * S_FD[order] / dx ** order * deviation(pend)[layer]
                tol[mask] = t
        # a table narrower than the stencil: the far stencil points are beyond the *other*
        # end and follow the other side's mode -- not judged for value
        pr.may_raise = False
        for mask, mode, name, other in ((lo, self.lower, "below", self.upper),
                                        (hi, self.upper, "above", self.lower)):
            if np.any(mask) and mode != "ERROR":
                xm = xa[mask]
                cross = (xm + 2.0 * dx >= self.xmax) if name == "below" else \
                    (xm - 2.0 * dx <= self.xmin)
                t = tol[mask]
                t[cross] = np.inf
                tol[mask] = t
                if np.any(cross) and other == "ERROR":
                    pr.may_raise = True     # the far stencil points are on the ERROR side
        pr.expected, pr.tol = self._squeeze(exp), self._squeeze(tol)
        pr.truth, pr.acc = self._squeeze(truth), self._squeeze(acc)
        pr.kind = kind
        pr.nearbad = nearbad
        return pr

    def _near_bad(self, xa, r):
        """elements whose finite-difference stencil can touch the non-finite region."""
        fn = self.fn
        if fn.nan["kind"] == "none" or not fn.has_bounds:
            return np.zeros(xa.shape, dtype=bool)
        return fn.bad(xa - r) | fn.bad(xa + r) | fn.bad(xa) | \
            (fn.bad(xa - r / 2) | fn.bad(xa + r / 2))

    # -- diagnosis helpers (naming a mechanism; never deciding a verdict) ------------------
    @staticmethod
    def arange_lengths(new_min, new_max, p_min, p_max, old_min, old_max):
        """Lengths of the two blocks numpy.arange would give for the spacing
        (old_min-new_min)/p_min resp. (new_max-old_max)/p_max."""
        n_lo = n_hi = 0
        last_lo = None
        if new_min < old_min and p_min > 0:
            sp = abs(old_min - new_min) / p_min
            a = np.arange(new_min, old_min, sp)
            n_lo = len(a)
            last_lo = float(a[-1]) if len(a) else None
        if new_max > old_max and p_max > 0:
            sp = abs(new_max - old_max) / p_max
            n_hi = len(np.arange(old_max + sp, new_max + sp, sp))
        return n_lo, n_hi, last_lo
