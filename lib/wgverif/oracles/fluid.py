"""Independent self-similar fluid integrator (oracle for C03, used by C05/C15).

Written from the relativistic fluid equations, not from WallGo's code:

    mu(xi, v) = (xi - v)/(1 - xi v)
    dv/dxi   = 2 v / xi / [ gamma^2 (1 - v xi) (mu^2/cs^2(T) - 1) ]
    dT/dxi   = T gamma^2 mu dv/dxi                (from dw/w = (1+1/cs^2) gamma^2 mu dv)
    dI/dxi   = xi^2 v^2 gamma^2 w(T)              (kinetic-energy integral for kappa)

State (v, T, I) as functions of the similarity variable xi, integrated with DOP853 at
rtol 1e-11.  WallGo integrates (xi, T) as functions of v with RK45; the two share no code.
For weak shocks (fluid speed at the wall < V_WEAK) the xi-form needs steps of the order of
the fluid speed near the front, so there the same equations are integrated in u = ln v
(own code as well; cross-checked against the xi-form in the overlap by C03's self-test).
Every integration carries an evaluation cap; exceeding it raises RefCapExceeded
(-> the *case* is inconclusive, never a verdict).
"""
from __future__ import annotations

import math

import numpy as np
from scipy.integrate import solve_ivp
from scipy.optimize import brentq

V_WEAK = 2e-3
NFEV_CAP = 60000
XI_CAP = 6000


class RefCapExceeded(Exception):
    pass


class RefFailed(Exception):
    pass


def _g2(v):
    return 1.0 / ((1.0 - v) * (1.0 + v))


def _mu(xi, v):
    return (xi - v) / (1.0 - xi * v)


class _Counter:
    def __init__(self, cap):
        self.n = 0
        self.cap = cap

    def tick(self):
        self.n += 1
        if self.n > self.cap:
            raise RefCapExceeded()


def shock_profile(eos_ref, vw, vp, Tp, rtol=1e-11, cap=NFEV_CAP, form=None):
    """xi-form first (capped at XI_CAP evaluations); when the front sits too close to the
    sonic line for that form (weak shocks) the ln v form takes over."""
    if form is not None:
        return _shock_profile(eos_ref, vw, vp, Tp, rtol, cap, form)
    v0 = _mu(vw, vp)
    if 0 < v0 < V_WEAK:
        return _shock_profile(eos_ref, vw, vp, Tp, rtol, cap, "lnv")
    try:
        return _shock_profile(eos_ref, vw, vp, Tp, rtol, XI_CAP, "xi")
    except RefCapExceeded:
        out = _shock_profile(eos_ref, vw, vp, Tp, rtol, cap, "lnv")
        out["form"] = "lnv(after xi cap)"
        return out


def _shock_profile(eos_ref, vw, vp, Tp, rtol, cap, form):
    """Integrate the shock wave from the wall to the front.

    eos_ref(phase, T) -> dict(p, e, w, csq) closed forms ("H" phase ahead of the wall).
    Returns dict(xi_sh, v_sh, T_sh, I, form, nfev, at_wall).
    """
    v0 = _mu(vw, vp)          # fluid velocity just ahead of the wall, centre frame
    csq0 = eos_ref("H", Tp)["csq"]
    if v0 <= 0.0:
        # plasma at rest ahead of the wall: no shock wave, front at the sound speed
        return {"xi_sh": math.sqrt(csq0), "v_sh": 0.0, "T_sh": Tp, "I": 0.0,
                "form": "rest", "nfev": 0, "at_wall": False}
    if _mu(vw, v0) * vw >= csq0:
        # the wall itself is already the front (vp*vw >= cs^2)
        return {"xi_sh": vw, "v_sh": v0, "T_sh": Tp, "I": 0.0, "form": "wall-is-front",
                "nfev": 0, "at_wall": True}
    if form is None:
        form = "lnv" if v0 < V_WEAK else "xi"
    cnt = _Counter(cap)
    # I starts at 0: give it an absolute scale (relative control alone is ill-defined)
    atolI = 1e-13 * eos_ref("H", Tp)["w"] * v0 * v0 * vw ** 3
    if form == "xi":
        def rhs(xi, y):
            cnt.tick()
            v, T, _ = y
            r = eos_ref("H", T)
            m = _mu(xi, v)
            den = _g2(v) * (1.0 - v * xi) * (m * m / r["csq"] - 1.0)
            dv = 2.0 * v / xi / den
            return [dv, T * _g2(v) * m * dv, xi * xi * v * v * _g2(v) * r["w"]]

        def front(xi, y):
            v, T, _ = y
            return _mu(xi, v) * xi - eos_ref("H", T)["csq"]

        front.terminal = True
        front.direction = 1
        sol = solve_ivp(rhs, [vw, 1.0 - 1e-12], [v0, Tp, 0.0], method="DOP853",
                        rtol=rtol, atol=[0.0, 0.0, atolI], events=front)
        if sol.status != 1:
            raise RefFailed(f"xi-form: front not reached (status {sol.status})")
        xi_sh = float(sol.t_events[0][0])
        v_sh, T_sh, I = (float(x) for x in sol.y_events[0][0])
    else:
        # u = ln v decreasing from ln v0; state (xi, T, I)
        def rhs(u, y):
            cnt.tick()
            xi, T, _ = y
            v = math.exp(u)
            r = eos_ref("H", T)
            m = _mu(xi, v)
            dxi_dv = _g2(v) * (1.0 - v * xi) * (m * m / r["csq"] - 1.0) * xi / (2.0 * v)
            dxi = dxi_dv * v
            return [dxi, T * _g2(v) * m * v, xi * xi * v * v * _g2(v) * r["w"] * dxi]

        def front(u, y):
            xi, T, _ = y
            return _mu(xi, math.exp(u)) * xi - eos_ref("H", T)["csq"]

        front.terminal = True
        sol = solve_ivp(rhs, [math.log(v0), math.log(v0) - 60.0], [vw, Tp, 0.0],
                        method="DOP853", rtol=rtol, atol=[0.0, 0.0, atolI], events=front)
        if sol.status != 1:
            raise RefFailed(f"lnv-form: front not reached (status {sol.status})")
        v_sh = float(math.exp(sol.t_events[0][0]))
        xi_sh, T_sh, I = (float(x) for x in sol.y_events[0][0])
    return {"xi_sh": xi_sh, "v_sh": v_sh, "T_sh": T_sh, "I": I, "form": form,
            "nfev": cnt.n, "at_wall": False}


def cross_front(eos_ref, prof, Tlo, Thi):
    """Solve energy-flux continuity at the front for the temperature of the plasma at rest
    ahead of it.  Returns (Tn', momentum-flux mismatch relative)."""
    xi, v, T = prof["xi_sh"], prof["v_sh"], prof["T_sh"]
    m = _mu(xi, v)                      # fluid speed behind the front, front frame
    rb = eos_ref("H", T)
    flux_b = rb["w"] * _g2(m) * m

    def f(tn):
        return eos_ref("H", tn)["w"] * _g2(xi) * xi - flux_b

    lo, hi = Tlo, min(Thi, T * (1 + 1e-12))
    flo, fhi = f(lo), f(hi)
    it = 0
    while flo * fhi > 0 and it < 60:
        lo /= 1.5
        flo = f(lo)
        it += 1
    if flo * fhi > 0:
        raise RefFailed("front: cannot bracket T_n'")
    tn = brentq(f, lo, hi, xtol=1e-16 * hi, rtol=1e-15, maxiter=300) if flo * fhi < 0 else (
        lo if flo == 0 else hi)
    rn = eos_ref("H", tn)
    mom_a = rn["w"] * _g2(xi) * xi * xi + rn["p"]
    mom_b = rb["w"] * _g2(m) * m * m + rb["p"]
    return float(tn), float(abs(mom_a - mom_b) / abs(mom_b))


def rarefaction_I(eos_ref, vw, vm, Tm, rtol=1e-11, cap=NFEV_CAP):
    """Kinetic-energy integral of the rarefaction wave behind the wall (hybrids and
    detonations).  v is the independent variable (the xi-form is singular at a sonic
    start); state (xi, T, I) with dI/dv = xi^2 v^2 gamma^2 w dxi/dv.  Returns I>=0."""
    v0 = _mu(vw, vm)
    if v0 <= 0:
        return 0.0
    cnt = _Counter(cap)

    def rhs(u, y):
        cnt.tick()
        xi, T, _ = y
        v = math.exp(u)
        r = eos_ref("L", T)
        m = _mu(xi, v)
        dxi_dv = _g2(v) * (1.0 - v * xi) * (m * m / r["csq"] - 1.0) * xi / (2.0 * v)
        return [dxi_dv * v, T * _g2(v) * m * v,
                xi * xi * v * v * _g2(v) * r["w"] * dxi_dv * v]

    atolI = 1e-13 * eos_ref("L", Tm)["w"] * v0 * v0 * vw ** 3
    sol = solve_ivp(rhs, [math.log(v0), math.log(1e-12)], [vw, Tm, 0.0], method="DOP853",
                    rtol=rtol, atol=[0.0, 0.0, atolI])
    if sol.status != 0:
        raise RefFailed("rarefaction: integration failed")
    # xi decreases along the wave, so dI accumulates negatively; kinetic energy is |I|
    return float(-sol.y[2, -1])
