"""Reference constructions for C13 (independent of WallGo's Polynomial / Grid classes).

Everything here is built from textbook statements only:

* Gauss-Chebyshev-Lobatto abscissae  x_k = -cos(pi k / n), k = 0..n;
* orthogonality  int_{-1}^{1} T_m(x) / sqrt(1-x^2) dx = pi * delta_{m0}, so that for a 2-D
  Chebyshev series Q = sum c_mn T_m(x) T_n(y)
        int int Q / (sqrt(1-x^2) sqrt(1-y^2)) dx dy = pi^2 c_00 ;
* the documented momentum compactification (docstring of WallGo.Grid)
        rho_z = tanh(p_z / 2 T0),   rho_par = 1 - 2 exp(-p_par / T0)
  inverted and differentiated by hand;
* d^3p / ((2 pi)^3 E) = p_par dp_par dp_z / (4 pi^2 E) after the azimuthal integral.

Chebyshev algebra is done with numpy.polynomial.chebyshev only.
"""
from __future__ import annotations

import math

import numpy as np
from numpy.polynomial import chebyshev as C

EPS = np.finfo(float).eps
MOMENTS = ("Delta00", "Delta02", "Delta20", "Delta11")


# ------------------------------------------------------------------ nodes and momenta
def nodes(N):
    """Interior rho_z nodes (beta = 1..N-1) and kept rho_par nodes (gamma = 0..N-2)."""
    rz = -np.cos(np.arange(1, N) * np.pi / N)
    rp = -np.cos(np.arange(0, N - 1) * np.pi / (N - 1))
    return rz, rp


def chi_nodes(M, endpoints=False):
    if endpoints:
        return -np.cos(np.arange(0, M + 1) * np.pi / M)
    return -np.cos(np.arange(1, M) * np.pi / M)


def pz_of(rz, T0):
    return 2.0 * T0 * np.arctanh(rz)


def pp_of(rp, T0):
    # -T0*log((1-rp)/2) written so that it stays accurate near rp = -1
    return -T0 * np.log1p(-(1.0 + rp) / 2.0)


def jac_z(rz, T0):
    return 2.0 * T0 / (1.0 - rz ** 2)


def jac_p(rp, T0):
    return T0 / (1.0 - rp)


def weight(k, pz, pp, energy):
    """W_k of the four moments, in the order of MOMENTS (broadcast against energy)."""
    if k == 0:
        return np.ones_like(energy)
    if k == 1:
        return pz ** 2 + 0.0 * energy
    if k == 2:
        return energy ** 2
    return energy * pz


def _w_scalar(k, pz, en):
    if k == 0:
        return 1.0
    if k == 1:
        return pz * pz
    if k == 2:
        return en * en
    return en * pz


# ----------------------------------------------------------------- exactness family Q
def boundary_factor_p(kpow):
    """Chebyshev coefficients of (1-y)(1+y)^kpow."""
    P = np.polynomial.polynomial
    return C.poly2cheb(P.polymul([1.0, -1.0], P.polypow([1.0, 1.0], kpow)))


BZ = C.poly2cheb([1.0, 0.0, -1.0])          # 1 - x^2


def _mulmat(factor, deg):
    """Matrix of 'multiply a degree<=deg Chebyshev series by factor' (chebmul on a basis)."""
    out = np.zeros((len(factor) + deg, deg + 1))
    for j in range(deg + 1):
        e = np.zeros(deg + 1)
        e[j] = 1.0
        prod = C.chebmul(factor, e)
        out[:len(prod), j] = prod
    return out


def class_degrees(N, kpow):
    """Largest degrees of R such that Q = (1-x^2)(1-y)(1+y)^kpow R stays in the exactness
    class deg_x(Q) <= 2N-1 (Lobatto, N+1 points), deg_y(Q) <= 2N-3 (Lobatto, N points)."""
    return 2 * N - 1 - 2, 2 * N - 3 - 1 - kpow


def build_Q(rng, N, shape, kpow, degmode, dz=None, dp=None):
    """Random Q(rho_z, rho_par) = (1-x^2)(1-y)(1+y)^kpow R(x,y), one per leading index.

    Q vanishes on rho_z = +-1, rho_par = +1 (dropped boundaries: deviation is zero at
    infinite momentum) and on rho_par = -1 (p_par = 0, where the measure p_par dp_par
    vanishes for every finite deviation).

    Returns dict with R coefficients r[..., m, n], full coefficients q, c00, and degrees.
    """
    maxz, maxp = class_degrees(N, kpow)
    if maxp < 0:
        raise ValueError("no room for the boundary factor")
    if dz is None:
        dz = maxz if degmode == "max" else int(rng.integers(0, maxz + 1))
    if dp is None:
        dp = maxp if degmode == "max" else int(rng.integers(0, maxp + 1))
    r = rng.normal(size=tuple(shape) + (dz + 1, dp + 1))
    # leading coefficient kept away from zero so the stated degree is really attained
    lead = r[..., dz, dp]
    r[..., dz, dp] = np.where(np.abs(lead) < 0.3, 0.3 + np.abs(lead), lead)
    mz = _mulmat(BZ, dz)
    mp = _mulmat(boundary_factor_p(kpow), dp)
    q = np.einsum("am,...mn,bn->...ab", mz, r, mp)
    return {"r": r, "q": q, "c00": q[..., 0, 0], "dz": dz, "dp": dp, "kpow": kpow,
            "degQ": (dz + 2, dp + 1 + kpow)}


def eval_Q_nodes(qd, rz, rp):
    """Q at the nodes through the factorised form (no cancellation near the boundaries).
    Also returns an upper bound on |Q| that is insensitive to cancellations inside R."""
    r = qd["r"]
    vx = C.chebvander(rz, r.shape[-2] - 1)
    vy = C.chebvander(rp, r.shape[-1] - 1)
    R = np.einsum("im,...mn,jn->...ij", vx, r, vy)
    fac = (1.0 - rz ** 2)[:, None] * ((1.0 - rp) * (1.0 + rp) ** qd["kpow"])[None, :]
    rabs = np.sum(np.abs(r), axis=(-2, -1))
    return R * fac, rabs[..., None, None] * fac


# ------------------------------------------------------- restricted Chebyshev bases
def tbar_matrix(x, direction):
    """M_ij = Tbar_j(x_i) of the documented restricted bases (square, len(x) functions):
    'z'/'pz': j -> n = 2..len+1, Tbar_n = T_n - (1 if n even else x)  (zero at x=+-1)
    'pp'    : j -> n = 1..len,   Tbar_n = T_n - 1                    (zero at x=+1)."""
    size = len(x)
    if direction in ("z", "pz"):
        n = np.arange(2, size + 2)
        V = C.chebvander(x, size + 1)[:, 2:]
        return V - np.where(n[None, :] % 2 == 0, 1.0, x[:, None])
    V = C.chebvander(x, size)[:, 1:]
    return V - 1.0


def _axes(nd):
    return (nd - 3, nd - 2, nd - 1)


def apply_mats(c, mats, absval=False, dtype=np.longdouble):
    """values[..., i, j, k] = sum M0[i,a] M1[j,b] M2[k,c] c[..., a, b, c]; None = identity.
    absval: use |M| and |c| (bound on the rounding error of any evaluation order)."""
    out = np.array(c, dtype=dtype)
    if absval:
        out = np.abs(out)
    for ax, M in zip(_axes(out.ndim), mats):
        if M is None:
            continue
        Md = (np.abs(M) if absval else M).astype(dtype)
        out = np.moveaxis(np.tensordot(Md, np.moveaxis(out, ax, 0), axes=(1, 0)), 0, ax)
    return out


def solve_mats(values, mats):
    out = np.array(values, dtype=float)
    for ax, M in zip(_axes(out.ndim), mats):
        if M is None:
            continue
        mv = np.moveaxis(out, ax, 0)
        sol = np.linalg.solve(M, mv.reshape(M.shape[0], -1)).reshape(mv.shape)
        out = np.moveaxis(sol, 0, ax)
    return out


def to_coefficients(values, mats):
    """Coefficient array whose expansion in the restricted bases reproduces `values` at the
    nodes (one step of iterative refinement in long double).  Returns (coeff, represented,
    absum): the nodal values the float64 coefficients actually represent (long-double
    evaluation) and sum|M||coeff| per node."""
    coeff = solve_mats(values, mats)
    resid = np.asarray(values, dtype=np.longdouble) - apply_mats(coeff, mats)
    coeff = coeff + solve_mats(np.array(resid, dtype=float), mats)
    represented = np.array(apply_mats(coeff, mats), dtype=float)
    absum = np.array(apply_mats(coeff, mats, absval=True), dtype=float)
    return coeff, represented, absum


# ---------------------------------------------------------- physical-momentum integrals
def dblquad_moment(fn, k, msq, T0, epsrel=1e-9, cut=45.0):
    """int dp_z int dp_par  p_par/(4 pi^2 E) W_k deltaf(p_z,p_par)  by scipy dblquad over
    physical momenta; fn(pz, pp, E) -> deltaf.  The domain is cut at |p_z| <= 2*cut*T0 and
    p_par <= cut*T0 (callers use deviations that decay at least like exp(-p/T0))."""
    from scipy import integrate

    def integrand(pp, pz):
        if pp <= 0.0:
            return 0.0
        en = math.sqrt(msq + pz * pz + pp * pp)
        return pp / (4.0 * math.pi ** 2 * en) * _w_scalar(k, pz, en) * fn(pz, pp, en)

    tot, err = 0.0, 0.0
    # split at p_z = 0 (weights E p_z, p_z^2 and the tanh map change character there)
    for lo, hi in ((-2 * cut * T0, 0.0), (0.0, 2 * cut * T0)):
        val, e = integrate.dblquad(integrand, lo, hi, 0.0, cut * T0, epsabs=0.0, epsrel=epsrel)
        tot += val
        err += e
    return tot, err


def family_function(qrow, k, msq, T0):
    """The exactness-family deviation as a *function of physical momenta* for one
    (particle, z) row: deltaf = Q 4pi^2 E / (J_z J_par p_par W sqrt(1-rz^2) sqrt(1-rp^2))."""
    r = qrow["r"]
    kpow = qrow["kpow"]

    def fn(pz, pp, en):
        x = math.tanh(pz / (2.0 * T0))
        y = 1.0 - 2.0 * math.exp(-pp / T0)
        Rv = float(C.chebval(y, C.chebval(x, r)))
        omx2 = 1.0 / math.cosh(pz / (2.0 * T0)) ** 2          # 1 - x^2 without cancellation
        omy = 2.0 * math.exp(-pp / T0)                         # 1 - y
        opy = -2.0 * math.expm1(-pp / T0)                      # 1 + y
        Q = omx2 * omy * opy ** kpow * Rv
        jz = 2.0 * T0 / omx2
        jp = T0 / omy
        return Q * 4.0 * math.pi ** 2 * en / (jz * jp * pp * _w_scalar(k, pz, en)
                                               * math.sqrt(omx2) * math.sqrt(omy * opy))
    return fn


# --------------------------------------------------------------------- stress tensor
def lorentz_z(v):
    """Takes components in the plasma rest frame to the frame in which the plasma moves
    with velocity +v along z (u = Lambda (1,0,0,0) = gamma (1,0,0,v))."""
    g = 1.0 / math.sqrt((1.0 - v) * (1.0 + v))
    return np.array([[g, 0.0, 0.0, g * v],
                     [0.0, 1.0, 0.0, 0.0],
                     [0.0, 0.0, 1.0, 0.0],
                     [g * v, 0.0, 0.0, g]])


def tmunu_plasma(d00, d02, d20, d11, msq):
    """Plasma-frame T^{mu nu} of one species from the definition
    int d^3p/((2pi)^3 E) p^mu p^nu deltaf with axial symmetry about z:
        T00 = Delta20, T03 = Delta11, T33 = Delta02, T11 = T22 = (Delta20-Delta02-m^2 Delta00)/2"""
    tperp = 0.5 * (d20 - d02 - msq * d00)
    return np.array([[d20, 0.0, 0.0, d11],
                     [0.0, tperp, 0.0, 0.0],
                     [0.0, 0.0, tperp, 0.0],
                     [d11, 0.0, 0.0, d02]])


def tmunu_wall(d00, d02, d20, d11, msq, v):
    lam = lorentz_z(v)
    return lam @ tmunu_plasma(d00, d02, d20, d11, msq) @ lam.T


def tmunu_direct_3d(fn, msq, mu, nu, L, v=0.0, epsrel=1e-6):
    """int d^3p'/((2pi)^3 E') p'^mu p'^nu deltaf(p(p')) in Cartesian components of the frame
    in which the plasma moves with +v (v=0: plasma frame itself); fn(pz, pp, E) takes
    plasma-frame momenta.  Uses the p_x, p_y -> -p_x, -p_y symmetry of the axial deviation."""
    from scipy import integrate
    g = 1.0 / math.sqrt((1.0 - v) * (1.0 + v))

    def f(px, py, pzw):
        enw = math.sqrt(msq + px * px + py * py + pzw * pzw)
        pw = (enw, px, py, pzw)
        # inverse boost: plasma-frame components of the same four-momentum
        en = g * (enw - v * pzw)
        pz = g * (pzw - v * enw)
        return 4.0 * pw[mu] * pw[nu] * fn(pz, math.hypot(px, py), en) / ((2 * math.pi) ** 3 * enw)

    if mu in (1, 2) and nu not in (1, 2) or nu in (1, 2) and mu not in (1, 2):
        raise ValueError("component vanishes by symmetry")
    return integrate.tplquad(f, -L, L, 0.0, L, 0.0, L, epsabs=0.0, epsrel=epsrel)
