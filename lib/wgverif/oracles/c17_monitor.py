"""C17 runtime monitor: class-invariant wrapper on WallGo.Grid / Grid3Scales.

``install()`` wraps (harness side, nothing in /repo is edited)

    Grid.__init__, Grid.changePositionFalloffScale, Grid.changeMomentumFalloffScale,
    Grid3Scales.__init__, Grid3Scales.changePositionFalloffScale

Every *outermost* wrapped call (Grid3Scales.__init__ calls Grid.__init__; only the outer
one counts) does two things after the real method has returned:

1. it updates a **shadow parameter record** kept on the instance, from the *arguments of
   the call* (never from the attributes the code under test wrote).  The shadow is the
   reference model of the call history: "the scales of the grid are those of the last
   calls".  Fresh-construction equivalence, the wall centre and L/r are all judged
   against the shadow, so a rescale that forgets to store an argument cannot hide;
2. it hands the instance to ``STATE.listener`` (if any), which evaluates the invariant.

``evaluate(g, event, level, rng)`` is the invariant: a list of *named condition functions*
run in record mode (each appends violations/residuals and counts its evaluations; none
raises, so one defect does not mask the others).  level="exact" runs only the clauses
decidable without a tolerance (usable as a passive monitor under other workloads),
level="full" adds the mpmath / quadrature oracles.
"""
from __future__ import annotations

import functools
import inspect
import math

import numpy as np

from . import c17_model as model

EPS = model.EPS
SHADOW = "_wgverif_c17_shadow"


class _State:
    listener = None      # callable(obj, event: str, raised: BaseException | None)
    depth = 0
    installed = False
    calls = 0
    snapshot = None      # attributes of the instance before the outermost wrapped call


STATE = _State()

G3_KEYS = ("M", "N", "tailLengthInside", "tailLengthOutside", "wallThickness",
           "momentumFalloffT", "ratioPointsWall", "smoothing", "wallCenter", "spacing")
G1_KEYS = ("M", "N", "positionFalloff", "momentumFalloffT", "spacing")


def _shadow_update(obj, name, bound):
    a = dict(bound.arguments)
    a.pop("self", None)
    clsname = "Grid3Scales" if hasattr(obj, "tailLengthInside") else "Grid"
    if name == "__init__":
        obj.__dict__[SHADOW] = {"cls": clsname, **a}
        return
    sh = obj.__dict__.get(SHADOW)
    if sh is None:       # object built before install(): adopt its attributes once
        keys = G3_KEYS if clsname == "Grid3Scales" else G1_KEYS
        sh = {"cls": clsname, **{k: getattr(obj, k) for k in keys}, "adopted": True}
        obj.__dict__[SHADOW] = sh
    if name == "changeMomentumFalloffScale":
        sh["momentumFalloffT"] = a["newScale"]
    elif name == "changePositionFalloffScale" and sh["cls"] == "Grid3Scales":
        for k in ("tailLengthInside", "tailLengthOutside", "wallThickness", "wallCenter"):
            sh[k] = a[k]
    elif name == "changePositionFalloffScale":
        sh["positionFalloff"] = a["newScale"]


def _wrap(cls, name):
    orig = cls.__dict__[name]
    if getattr(orig, "_wgverif_c17", False):
        return orig
    sig = inspect.signature(orig)

    @functools.wraps(orig)
    def wrapper(self, *args, **kwargs):
        STATE.depth += 1
        if STATE.depth == 1 and STATE.listener is not None and name != "__init__":
            STATE.snapshot = {k: (v.copy() if isinstance(v, np.ndarray) else v)
                              for k, v in vars(self).items() if k != SHADOW}
        try:
            res = orig(self, *args, **kwargs)
        except BaseException as exc:
            STATE.depth -= 1
            if STATE.depth == 0 and STATE.listener is not None and \
                    not isinstance(exc, (KeyboardInterrupt, SystemExit)) and \
                    type(exc).__name__ != "CaseTimeout":
                STATE.calls += 1
                STATE.listener(self, f"{cls.__name__}.{name}", exc)
            raise
        STATE.depth -= 1
        if STATE.depth == 0:
            STATE.calls += 1
            try:
                bound = sig.bind(self, *args, **kwargs)
                bound.apply_defaults()
                _shadow_update(self, name, bound)
            except TypeError:
                pass
            if STATE.listener is not None:
                STATE.listener(self, f"{cls.__name__}.{name}", None)
        return res

    wrapper._wgverif_c17 = True
    wrapper._wgverif_orig = orig
    return wrapper


def install():
    """idempotent; returns the two classes."""
    from WallGo.grid import Grid
    from WallGo.grid3Scales import Grid3Scales
    if not STATE.installed:
        for cls, names in ((Grid, ("__init__", "changePositionFalloffScale",
                                   "changeMomentumFalloffScale")),
                           (Grid3Scales, ("__init__", "changePositionFalloffScale"))):
            for n in names:
                if n in cls.__dict__:
                    setattr(cls, n, _wrap(cls, n))
        STATE.installed = True
    return Grid, Grid3Scales


class suspended:
    """context manager: no listener while the oracle itself builds reference grids."""

    def __enter__(self):
        self.saved = STATE.listener
        STATE.listener = None

    def __exit__(self, *exc):
        STATE.listener = self.saved
        return False


# ======================================================================= invariant
class Ctx:
    def __init__(self, g, event, raised, rng):
        self.g = g
        self.event = event
        self.raised = raised
        self.rng = rng
        self.sh = g.__dict__.get(SHADOW)
        self.is3 = self.sh is not None and self.sh["cls"] == "Grid3Scales"
        self.viol = []
        self.mon = {}
        self.ratio = {}        # oracle name -> worst observed residual / tolerance
        self.obs = {}
        self._pm = None
        self._mm = None
        self._probes = None

    def count(self, name, n=1):
        self.mon[name] = self.mon.get(name, 0) + n

    def worst(self, name, r):
        r = float(r)
        if not (r == r):
            r = math.inf
        if r > self.ratio.get(name, 0.0):
            self.ratio[name] = r

    def fail(self, mech, msg, **data):
        for v in self.viol:
            if v["mech"] == mech:
                v["data"]["more"] = v["data"].get("more", 0) + 1
                return
        data["event"] = self.event
        data["params"] = {k: v for k, v in (self.sh or {}).items()}
        self.viol.append({"mech": mech, "msg": msg, "data": data})

    # reference models built from the shadow (the object's aIn/aOut are taken as given:
    # whether *they* are right is the centre-slope clause)
    @property
    def pm(self):
        if self._pm is None:
            s = self.sh
            if self.is3:
                self._pm = model.ThreeScaleModel(
                    s["wallThickness"], s["ratioPointsWall"], s["smoothing"],
                    s["tailLengthInside"], s["tailLengthOutside"], s["wallCenter"],
                    aIn=float(self.g.aIn), aOut=float(self.g.aOut))
            else:
                self._pm = model.SimpleModel(s["positionFalloff"])
        return self._pm

    @property
    def mm(self):
        if self._mm is None:
            self._mm = model.MomentumModel(self.sh["momentumFalloffT"])
        return self._mm

    def probes(self):
        """evaluation points: (sub-sampled) grid points + random points of the open
        intervals, incl. the neighbourhoods of 0, of +-r and of the ends."""
        if self._probes is not None:
            return self._probes
        g, rng = self.g, self.rng

        def sub(a, n):
            a = np.asarray(a, dtype=float)
            if a.size <= n:
                return a
            idx = np.unique(np.concatenate([np.arange(3), a.size - 1 - np.arange(3),
                                            rng.choice(a.size, n - 6, replace=False)]))
            return a[idx]

        chi = [sub(g.chiValues, 24), rng.uniform(-1, 1, 6),
               np.array([0.0]), rng.choice([-1, 1], 2) * 10 ** rng.uniform(-9, -3, 2),
               rng.choice([-1, 1], 4) * (1 - 10 ** rng.uniform(-5, -1, 4))]
        if self.is3:
            r = float(self.sh["ratioPointsWall"])
            w = np.array([float(g.aIn), float(g.aOut), float(g.aIn), float(g.aOut)])
            chi.append(np.array([-r, r, -r, r]) + np.minimum(w, 0.3) * rng.normal(0, 1.5, 4))
        chi = np.unique(np.concatenate(chi))
        chi = chi[(chi > -1) & (chi < 1)]
        rz = np.unique(np.concatenate([sub(g.rzValues, 10), rng.uniform(-1, 1, 4), [0.0],
                                       rng.choice([-1, 1], 2) * (1 - 10 ** rng.uniform(-5, -1, 2))]))
        rz = rz[(rz > -1) & (rz < 1)]
        rp = np.unique(np.concatenate([sub(g.rpValues, 10), rng.uniform(-1, 1, 4), [-1.0],
                                       1 - 10 ** rng.uniform(-5, -1, 2)]))
        rp = rp[(rp >= -1) & (rp < 1)]
        self._probes = (chi, rz, rp)
        return self._probes


def _bits_equal(a, b):
    a, b = np.asarray(a), np.asarray(b)
    if a.shape != b.shape:
        return False
    if a.dtype.kind in "fc" and b.dtype.kind in "fc":
        return bool(np.array_equal(a, b, equal_nan=True))
    return bool(np.array_equal(a, b))


# ------------------------------------------------------------------ exact conditions
def cond_strictly_increasing(c):
    """xi, p_z, p_par cached arrays strictly increasing; cached Jacobians finite, > 0."""
    g = c.g
    for name, arr, jac in (("xi", g.xiValues, g.dxidchi), ("pz", g.pzValues, g.dpzdrz),
                           ("pp", g.ppValues, g.dppdrp)):
        arr, jac = np.asarray(arr, dtype=float), np.asarray(jac, dtype=float)
        c.count("monotone_arrays")
        if not np.all(np.isfinite(arr)) or (arr.size > 1 and not np.all(np.diff(arr) > 0)):
            k = int(np.argmin(np.diff(arr))) if arr.size > 1 else 0
            c.fail(f"not-strictly-increasing:{name}",
                   f"{c.event}: cached {name} values are not strictly increasing/finite "
                   f"(index {k}: {arr[k:k + 2].tolist()})", index=k)
        if not np.all(np.isfinite(jac)) or not np.all(jac > 0):
            c.fail(f"jacobian-not-positive:{name}",
                   f"{c.event}: cached d{name}/d(compact) has a non-positive or non-finite "
                   f"entry (min {float(np.nanmin(jac))!r})")


def cond_origin_to_centre(c):
    """decompactify(0) == wall centre (Grid: 0), p_z(0) == 0, p_par(-1) == 0.

    The 0-d call is exact by construction (map(0) - map(0) + centre evaluated through the
    same scalar code path), so equality is demanded.  Inside an array numpy may take a
    SIMD path that differs from the scalar one in the last bit of each arctanh (observed:
    1.1e-12 on a centre of -73 with tails of 1e3), so there the forward rounding bound
    at chi = 0 applies (full level only)."""
    g = c.g
    want = float(c.sh["wallCenter"]) if c.is3 else 0.0
    z0, pz0, pp0 = g.decompactify(np.array(0.0), np.array(0.0), np.array(-1.0))
    c.count("origin_checks")
    c.obs["origin"] = [float(z0), want]
    if not float(z0) == want:
        c.fail("origin-not-mapped-to-centre",
               f"{c.event}: decompactify(chi=0) = {float(z0)!r}, wall centre given to the "
               f"grid = {want!r}", got=float(z0), want=want)
    if c.level == "full":
        za = float(g.decompactify(np.array([-0.37, 0.0, 0.59]), np.array([0.0]),
                                  np.array([-1.0]))[0][1])
        tol = model.K_MAP * c.pm.z_bound(0.0)
        c.worst("origin_in_array", abs(za - want) / tol)
        if not abs(za - want) <= tol:
            c.fail("origin-not-mapped-to-centre",
                   f"{c.event}: decompactify([.., 0, ..])[1] = {za!r}, wall centre given to "
                   f"the grid = {want!r} (rounding bound {tol:.3e})", got=za, want=want)
    if c.level == "full":     # recorded, not judged: the map at the points at infinity
        ze = g.decompactify(np.array([-1.0, 1.0]), np.array([-1.0, 1.0]), np.array([1.0]))
        c.obs["endpoints"] = [repr(float(v)) for v in (*ze[0], *ze[1], *ze[2])]
    if not (float(pz0) == 0.0 and float(pp0) == 0.0):
        c.fail("momentum-origin-not-zero",
               f"{c.event}: p_z(rho_z=0) = {float(pz0)!r}, p_par(rho_par=-1) = {float(pp0)!r}")


def cond_cache_matches_methods(c):
    """cached coordinates / Jacobians are what the map methods return *now* (bit-equal),
    and the getters hand out exactly the cache."""
    g = c.g
    xi, pz, pp = g.decompactify(g.chiValues, g.rzValues, g.rpValues)
    dx, dz, dp = g.compactificationDerivatives(g.chiValues, g.rzValues, g.rpValues)
    c.count("cache_checks")
    for name, cached, fresh in (("xiValues", g.xiValues, xi), ("pzValues", g.pzValues, pz),
                                ("ppValues", g.ppValues, pp), ("dxidchi", g.dxidchi, dx),
                                ("dpzdrz", g.dpzdrz, dz), ("dppdrp", g.dppdrp, dp)):
        if not _bits_equal(cached, fresh):
            d = np.max(np.abs(np.asarray(cached, float) - np.asarray(fresh, float))) \
                if np.shape(cached) == np.shape(fresh) else math.inf
            c.fail(f"cache-stale:{name}",
                   f"{c.event}: cached {name} differs from the map evaluated with the current "
                   f"parameters (max |diff| {float(d):.3e})", maxdiff=float(d))
    got = g.getCoordinates()
    gj = g.getCompactificationDerivatives()
    ge = g.getCoordinates(endpoints=True)
    gje = g.getCompactificationDerivatives(endpoints=True)
    ok = all(_bits_equal(a, b) for a, b in zip(got, (g.xiValues, g.pzValues, g.ppValues))) \
        and all(_bits_equal(a, b) for a, b in zip(gj, (g.dxidchi, g.dpzdrz, g.dppdrp))) \
        and _bits_equal(ge[0][1:-1], g.xiValues) and _bits_equal(ge[1][1:-1], g.pzValues) \
        and _bits_equal(ge[2][:-1], g.ppValues) and _bits_equal(gje[0][1:-1], g.dxidchi) \
        and _bits_equal(gje[1][1:-1], g.dpzdrz) and _bits_equal(gje[2][:-1], g.dppdrp)
    if not ok:
        c.fail("getter-inconsistent-with-cache",
               f"{c.event}: getCoordinates/getCompactificationDerivatives do not return the cache")


def _build_fresh(c):
    from WallGo.grid import Grid
    from WallGo.grid3Scales import Grid3Scales
    s = c.sh
    with suspended():
        if c.is3:
            return Grid3Scales(*[s[k] for k in G3_KEYS])
        return Grid(*[s[k] for k in G1_KEYS])


def cond_equivalent_to_fresh(c):
    """state and behaviour equal those of a grid freshly constructed from the shadow
    parameters (bit-equal: same code, same inputs)."""
    g = c.g
    try:
        f = _build_fresh(c)
    except AssertionError as exc:
        c.obs["fresh_rejected"] = repr(exc)[:80]
        c.count("fresh_rejected")
        if c.raised is None:
            c.fail("rescale-accepted-what-constructor-rejects",
                   f"{c.event}: the call was accepted but constructing a grid with the same "
                   f"parameters raises {exc!r}")
        return
    c.count("fresh_equivalence")
    for name in ("chiValues", "rzValues", "rpValues", "xiValues", "pzValues", "ppValues",
                 "dxidchi", "dpzdrz", "dppdrp"):
        if not _bits_equal(getattr(g, name), getattr(f, name)):
            a, b = np.asarray(getattr(g, name), float), np.asarray(getattr(f, name), float)
            d = float(np.max(np.abs(a - b))) if a.shape == b.shape else math.inf
            c.fail(f"rescale-not-equivalent-to-fresh:{name}",
                   f"{c.event}: {name} differs from a freshly constructed grid with the same "
                   f"parameters (max |diff| {d:.3e})", maxdiff=d)
    chi, rz, rp = c.probes()
    beh = {}
    for meth in ("decompactify", "compactificationDerivatives"):
        a, b = getattr(g, meth)(chi, rz, rp), getattr(f, meth)(chi, rz, rp)
        for k, nm in enumerate(("z", "pz", "pp")):
            if not _bits_equal(a[k], b[k]):
                beh[f"{meth}.{nm}"] = float(np.nanmax(np.abs(np.asarray(a[k]) - np.asarray(b[k]))))
    zz = g.decompactify(chi, rz, rp)
    a, b = g.compactify(*zz), f.compactify(*zz)
    cdiff = {}
    for k, nm in enumerate(("z", "pz", "pp")):
        if not _bits_equal(a[k], b[k]):
            cdiff[nm] = float(np.nanmax(np.abs(np.asarray(a[k]) - np.asarray(b[k]))))
    stale = []
    fv, gv = vars(f), vars(g)
    for k, v in fv.items():
        if k == SHADOW or isinstance(v, np.ndarray):
            continue
        if k not in gv or not (gv[k] == v or (v != v and gv[k] != gv[k])):
            stale.append(k)
    for k in stale:
        c.fail(f"rescale-stale-attribute:{k}",
               f"{c.event}: attribute {k} = {gv.get(k)!r} but a grid constructed with the "
               f"current scales has {fv[k]!r}"
               + (f"; observable: compactify() differs by up to {max(cdiff.values()):.3e}"
                  if cdiff and k == "positionFalloff" else ""),
               attribute=k, got=gv.get(k), fresh=fv[k], compactify_diff=cdiff)
    if cdiff and "positionFalloff" not in stale:
        beh.update({f"compactify.{k}": v for k, v in cdiff.items()})
    for k, d in beh.items():
        c.fail(f"rescale-not-equivalent-to-fresh:{k}",
               f"{c.event}: {k}() on probe points differs from a freshly constructed grid "
               f"(max |diff| {d:.3e})", maxdiff=d)


def cond_rejected_call_left_state(c):
    """after a call that raised, every attribute of the grid is bit-identical to what it
    was before the call (snapshot taken by the wrapper), and the cache is still what the
    map methods return."""
    c.count("rejected_calls")
    c.obs["rejected"] = repr(c.raised)[:80]
    snap = STATE.snapshot or {}
    now = {k: v for k, v in vars(c.g).items() if k != SHADOW}
    changed = sorted(k for k in set(snap) | set(now)
                     if k not in snap or k not in now or not _bits_equal(snap[k], now[k]))
    if changed:
        c.fail("rejected-rescale-mutated-state",
               f"{c.event}: the call raised {c.raised!r} but changed attribute(s) {changed}",
               changed=changed)
    n0 = len(c.viol)
    cond_cache_matches_methods(c)
    for v in c.viol[n0:]:
        v["mech"] = "rejected-rescale-mutated-state:" + v["mech"]


# --------------------------------------------------------------- tolerance conditions
def cond_centre_slope(c):
    """three-scale map: reported Jacobian at chi=0 and slope of the map at 0 equal L/r."""
    if not c.is3:
        return
    g, pm = c.g, c.pm
    want = pm.L / pm.r
    tol = pm.centre_slope_tol()
    j0 = float(g.compactificationDerivatives(np.array(0.0), np.array(0.0), np.array(0.0))[0])
    res = abs(float(model.MPF(j0) - want))
    c.count("centre_slope")
    c.worst("centre_slope", res / tol)
    c.obs["centre_slope_rel"] = res / float(want)
    if not res <= tol:
        c.fail("centre-slope-not-L-over-r",
               f"{c.event}: reported dz/dchi at chi=0 is {j0!r}, L/r = {float(want)!r} "
               f"(|diff| {res:.3e} > propagated rounding {tol:.3e}); aIn={float(g.aIn)!r} "
               f"(origin condition gives {float(pm.aInExact)!r}), aOut={float(g.aOut)!r} "
               f"({float(pm.aOutExact)!r})", got=j0, want=float(want), tol=tol)


def _position_values(c):
    """real map / Jacobian at the chi probes with reference values and bounds; cached."""
    if hasattr(c, "_pv"):
        return c._pv
    g, pm = c.g, c.pm
    chi, rz, rp = c.probes()
    z = np.asarray(g.decompactify(chi, np.array([0.0]), np.array([0.0]))[0], dtype=float)
    j = np.asarray(g.compactificationDerivatives(chi, np.array([0.0]), np.array([0.0]))[0],
                   dtype=float)
    zref = [pm.z(x) for x in chi]
    zb = np.array([pm.z_bound(x) for x in chi])
    jref = [pm.jac_doc(x) for x in chi]
    jb = np.array([pm.jac_bound(x) for x in chi])
    c._pv = (chi, z, j, zref, zb, jref, jb)
    return c._pv


def cond_jacobian_is_derivative_mp(c):
    """reported Jacobian == derivative of the 40-digit reference map, the reference map
    having first been validated against the real map at the same points."""
    g, pm, mm = c.g, c.pm, c.mm
    chi, z, j, zref, zb, jref, jb = _position_values(c)
    rng = c.rng
    # oracle self-check on this case's parameters
    pick = chi[rng.choice(chi.size, min(3, chi.size), replace=False)]
    sc = pm.selfcheck(pick)
    c.count("oracle_selfcheck")
    if not sc < 1e-25:
        raise RuntimeError(f"C17 oracle self-check failed ({sc:.2e}): closed-form map and its "
                           "documented derivative disagree in mpmath")
    zerr = np.array([abs(float(model.MPF(a) - b)) for a, b in zip(z, zref)])
    ratio = zerr / (model.K_MAP * zb)
    c.worst("map_vs_model", np.max(ratio))
    scale = np.maximum(np.abs(np.array([float(v) for v in zref]) - float(pm.c)), float(getattr(pm, "L")))
    c.obs["map_rel_err"] = float(np.max(zerr / scale))
    ongrid = np.isin(chi, np.asarray(g.chiValues))
    if np.any(ongrid):
        c.obs["map_rel_err_grid"] = float(np.max((zerr / scale)[ongrid]))
    if not np.all(ratio <= 1):
        # the real map is not the modelled closed form: the mp derivative says nothing about
        # "that map".  Not a violation by itself (the quadrature oracle decides).
        k = int(np.argmax(ratio))
        c.count("mp_model_mismatch")
        c.obs["model_mismatch"] = {"chi": float(chi[k]), "real": float(z[k]),
                                   "model": float(zref[k]), "bound": float(zb[k])}
    else:
        jerr = np.array([abs(float(model.MPF(a) - b)) for a, b in zip(j, jref)])
        rj = jerr / (model.K_JAC * jb)
        c.count("jacobian_mp_points", int(chi.size))
        c.worst("jacobian_vs_model", np.max(rj))
        c.obs["jac_rel_err"] = float(np.max(jerr / np.abs(np.array([float(v) for v in jref]))))
        # numerical derivative of the five-term closed form at a few points
        for x in pick:
            d = pm.jac(x)
            jr = float(g.compactificationDerivatives(np.array(x), np.array(0.0), np.array(0.0))[0])
            r_ = abs(float(model.MPF(jr) - d)) / (model.K_JAC * pm.jac_bound(x))
            c.count("jacobian_mpdiff_points")
            rj = np.append(rj, r_)
        if not np.all(rj <= 1):
            k = int(np.argmax(rj[:chi.size]))
            c.fail("jacobian-not-derivative-of-map:xi",
                   f"{c.event}: reported dxi/dchi at chi={float(chi[k])!r} is {float(j[k])!r}, "
                   f"derivative of the map (40-digit reference, validated against the real map "
                   f"at the same points) is {float(jref[k])!r}; |diff| {float(jerr[k]):.3e} > "
                   f"rounding bound {model.K_JAC * float(jb[k]):.3e}", oracle="mpmath",
                   chi=float(chi[k]), got=float(j[k]), want=float(jref[k]))
    # ---- momentum directions
    _, rz, rp = c.probes()
    sc = mm.selfcheck(rz[:2], rp[:2])
    if not sc < 1e-30:
        raise RuntimeError(f"C17 momentum oracle self-check failed ({sc:.2e})")
    zero = np.array([0.0])
    pz = np.asarray(g.decompactify(zero, rz, zero)[1], dtype=float)
    pp = np.asarray(g.decompactify(zero, zero, rp)[2], dtype=float)
    jz = np.asarray(g.compactificationDerivatives(zero, rz, zero)[1], dtype=float)
    jp = np.asarray(g.compactificationDerivatives(zero, zero, rp)[2], dtype=float)
    for name, xs, val, jac, fv, fb, fj, fjb in (
            ("pz", rz, pz, jz, mm.pz, mm.pz_bound, mm.jac_pz, mm.jac_pz_bound),
            ("pp", rp, pp, jp, mm.pp, mm.pp_bound, mm.jac_pp, mm.jac_pp_bound)):
        verr = np.array([abs(float(model.MPF(a) - fv(x))) / (model.K_MAP * fb(x))
                         for a, x in zip(val, xs)])
        c.worst(f"{name}_vs_model", np.max(verr))
        if not np.all(verr <= 1):
            c.count("mp_model_mismatch")
            c.obs[f"model_mismatch_{name}"] = float(np.max(verr))
            continue
        jerr = np.array([abs(float(model.MPF(a) - fj(x))) / (model.K_JAC * fjb(x))
                         for a, x in zip(jac, xs)])
        c.count("jacobian_mp_points", int(xs.size))
        c.worst(f"jacobian_{name}_vs_model", np.max(jerr))
        if not np.all(jerr <= 1):
            k = int(np.argmax(jerr))
            c.fail(f"jacobian-not-derivative-of-map:{name}",
                   f"{c.event}: reported d{name}/drho at rho={float(xs[k])!r} is "
                   f"{float(jac[k])!r}; 1/(d rho/d p) of the documented compact map there is "
                   f"{float(fj(xs[k]))!r}", oracle="mpmath", rho=float(xs[k]))


def cond_jacobian_is_derivative_ftc(c):
    """model-free: map(b) - map(a) == integral of the *reported* Jacobian over [a, b] for
    consecutive probe points, all three directions; also monotone between probes."""
    import warnings
    from scipy.integrate import quad, IntegrationWarning
    warnings.simplefilter("ignore", IntegrationWarning)   # qerr is used instead
    g, pm, mm = c.g, c.pm, c.mm
    chi, z, j, zref, zb, jref, jb = _position_values(c)
    _, rz, rp = c.probes()
    zero = np.float64(0.0)
    pz = np.asarray(g.decompactify(zero, rz, zero)[1], dtype=float)
    pp = np.asarray(g.decompactify(zero, zero, rp)[2], dtype=float)
    brk = [-float(c.sh["ratioPointsWall"]), float(c.sh["ratioPointsWall"])] if c.is3 else []
    dirs = (
        ("xi", chi, z, model.K_MAP * zb, model.K_JAC * jb,
         lambda x: float(g.compactificationDerivatives(np.float64(x), zero, zero)[0]), brk),
        ("pz", rz, pz, np.array([model.K_MAP * mm.pz_bound(x) for x in rz]),
         np.array([model.K_JAC * mm.jac_pz_bound(x) for x in rz]),
         lambda x: float(g.compactificationDerivatives(zero, np.float64(x), zero)[1][()]), []),
        ("pp", rp, pp, np.array([model.K_MAP * mm.pp_bound(x) for x in rp]),
         np.array([model.K_JAC * mm.jac_pp_bound(x) for x in rp]),
         lambda x: float(g.compactificationDerivatives(zero, zero, np.float64(x))[2][()]), []),
    )
    ongrid = np.isin(chi, np.asarray(g.chiValues))
    for name, xs, vals, bnd, jbnd, fun, breaks in dirs:
        worst, worst_k, skipped = 0.0, None, 0
        for k in range(xs.size - 1):
            a, b = float(xs[k]), float(xs[k + 1])
            pts = [p for p in breaks if a < p < b]
            q, qerr = quad(fun, a, b, points=pts or None, epsabs=0.0, epsrel=1e-13, limit=200)
            # rounding of the two map values + rounding of the integrand (its bound is
            # convex in the compact variable, so the larger end value dominates it on
            # [a,b]) + the quadrature's own error estimate
            tol = bnd[k] + bnd[k + 1] + (b - a) * max(jbnd[k], jbnd[k + 1]) \
                + 10 * qerr + 64 * EPS * abs(q)
            if not (qerr <= 1e-9 * abs(q)):
                skipped += 1
                continue
            dz = float(vals[k + 1] - vals[k])
            r_ = abs(dz - q) / tol
            c.count("ftc_intervals")
            if name == "xi" and q > 0 and ongrid[k] and ongrid[k + 1]:
                # evidence only: mismatch between neighbouring *grid* points
                c.obs["ftc_rel_mismatch"] = max(c.obs.get("ftc_rel_mismatch", 0.0),
                                                abs(dz - q) / q)
            if not r_ <= worst:
                worst, worst_k = r_, (k, a, b, dz, q, tol)
            if not dz > 0 and q > tol:
                c.fail(f"not-strictly-increasing:{name}",
                       f"{c.event}: map {name} not increasing between compact {a!r} and {b!r} "
                       f"(difference {dz!r})", a=a, b=b, dz=dz)
        c.worst(f"ftc_{name}", worst)
        if skipped:
            c.count("ftc_skipped", skipped)
        if not worst <= 1:
            k, a, b, dz, q, tol = worst_k
            c.fail(f"jacobian-not-derivative-of-map:{name}",
                   f"{c.event}: {name}(b)-{name}(a) = {dz!r} for compact a={a!r}, b={b!r}, but "
                   f"the reported Jacobian integrates to {q!r} over [a,b] "
                   f"(|diff| {abs(dz - q):.3e} > rounding+quadrature bound {tol:.3e})",
                   oracle="quadrature", a=a, b=b, dz=dz, integral=q, tol=tol)


def cond_round_trip(c):
    """compactify(decompactify(x)) == x and decompactify(compactify(X)) == X in all three
    directions, within the propagated rounding of the two evaluations."""
    from WallGo.grid import Grid
    g, pm, mm = c.g, c.pm, c.mm
    chi, z, j, zref, zb, jref, jb = _position_values(c)
    _, rz, rp = c.probes()
    inherited = c.is3 and type(g).compactify is Grid.compactify
    zero = np.array([0.0])
    pz = np.asarray(g.decompactify(zero, rz, zero)[1], dtype=float)
    pp = np.asarray(g.decompactify(zero, zero, rp)[2], dtype=float)
    chi2 = np.asarray(g.compactify(z, zero, zero)[0], dtype=float)
    rz2 = np.asarray(g.compactify(zero, pz, zero)[1], dtype=float)
    rp2 = np.asarray(g.compactify(zero, zero, pp)[2], dtype=float)
    jz = np.array([float(mm.jac_pz(x)) for x in rz])
    jp = np.array([float(mm.jac_pp(x)) for x in rp])
    K = model.K_MAP
    tols = {
        "z": K * (zb / np.array([float(v) for v in jref]) + 4 * EPS),
        "pz": K * (np.array([mm.pz_bound(x) for x in rz]) / jz + 4 * EPS),
        "pp": K * (np.array([mm.pp_bound(x) for x in rp]) / jp + 4 * EPS),
    }
    for name, x0, x1 in (("z", chi, chi2), ("pz", rz, rz2), ("pp", rp, rp2)):
        err = np.abs(x1 - x0)
        ratio = np.where(np.isfinite(err), err, np.inf) / tols[name]
        c.count("round_trip_points", int(x0.size))
        c.worst(f"round_trip_{name}", np.max(ratio))
        if not np.all(ratio <= 1):
            k = int(np.argmax(ratio))
            mech = "grid3scales-inherited-compactify" if (name == "z" and inherited) \
                else f"compactify-not-inverse:{name}"
            c.fail(mech,
                   f"{c.event}: compactify(decompactify(x)) != x in direction {name}: x = "
                   f"{float(x0[k])!r} comes back as {float(x1[k])!r} (|diff| {float(err[k]):.3e}, "
                   f"propagated rounding {float(tols[name][k]):.3e})"
                   + ("; Grid3Scales does not override compactify: the inverse offered is that "
                      "of the simple map of Grid" if mech.startswith("grid3scales") else ""),
                   direction=name, x=float(x0[k]), back=float(x1[k]),
                   max_abs_err=float(np.nanmax(err)) if np.any(np.isfinite(err)) else "nan")
    # physical -> compact -> physical, on points that are not images of the probes
    fac = 1 + c.rng.uniform(-1e-3, 1e-3, z.size)
    ctr = float(pm.c)
    zq = ctr + (z - ctr) * fac
    cq = np.asarray(g.compactify(zq, zero, zero)[0], dtype=float)
    ok = np.isfinite(cq) & (np.abs(cq) < 1)
    zb2 = np.array([pm.z_bound(x) if o else np.nan for x, o in zip(cq, ok)])
    jj = np.array([float(pm.jac_doc(x)) if o else np.nan for x, o in zip(cq, ok)])
    with np.errstate(all="ignore"):
        zq2 = np.asarray(g.decompactify(np.where(ok, cq, 0.0), zero, zero)[0], dtype=float)
    tol = K * (2 * zb2 + 4 * EPS * jj * np.maximum(np.abs(cq), EPS) + 4 * EPS * np.abs(zq))
    err = np.abs(zq2 - zq)
    ratio = np.where(ok, err / tol, np.inf)
    c.count("round_trip_points", int(zq.size))
    c.worst("round_trip_z_physical", np.max(ratio))
    if not np.all(ratio <= 1):
        k = int(np.argmax(ratio))
        mech = "grid3scales-inherited-compactify" if inherited else "compactify-not-inverse:z"
        c.fail(mech,
               f"{c.event}: decompactify(compactify(z)) != z: z = {float(zq[k])!r} -> chi = "
               f"{float(cq[k])!r} -> {float(zq2[k])!r}", direction="z", z=float(zq[k]),
               chi=float(cq[k]), back=float(zq2[k]))


EXACT = (cond_strictly_increasing, cond_origin_to_centre, cond_cache_matches_methods,
         cond_equivalent_to_fresh)
FULL = EXACT + (cond_centre_slope, cond_jacobian_is_derivative_mp,
                cond_jacobian_is_derivative_ftc, cond_round_trip)


def evaluate(g, event, raised=None, level="full", rng=None):
    """run the invariant on ``g`` (record mode); returns the Ctx."""
    rng = rng if rng is not None else np.random.default_rng(0)
    c = Ctx(g, event, raised, rng)
    c.level = level
    c.count("invariant_evaluations")
    if raised is not None and "__init__" in event:
        c.count("rejected_constructions")
        c.obs["rejected"] = repr(raised)[:80]
        return c
    if c.sh is None:
        c.obs["no_shadow"] = True
        return c
    with suspended(), np.errstate(all="ignore"):
        if raised is not None:
            cond_rejected_call_left_state(c)
            return c
        for cond in (FULL if level == "full" else EXACT):
            try:
                cond(c)
            except Exception as exc:   # the code under test raised on an admissible input?
                import traceback
                tb = traceback.extract_tb(exc.__traceback__)
                if tb and "/WallGo/" in tb[-1].filename.replace("\\", "/"):
                    c.count("grid_method_raised")
                    c.fail("grid-method-raises",
                           f"{event}: {tb[-1].name}() raised {exc!r} at "
                           f"{tb[-1].filename.split('/')[-1]}:{tb[-1].lineno} while "
                           f"{cond.__name__} evaluated it on points of the open intervals",
                           condition=cond.__name__)
                else:
                    raise
    return c


def make_passive_listener(sink, level="exact"):
    """listener for use under *other* workloads (EOM runs etc.): evaluates the clauses
    that need no tolerance after every rescale and appends a small record to ``sink``."""
    def listener(obj, event, raised):
        c = evaluate(obj, event, raised, level=level)
        sink.append({"event": event, "viol": c.viol, "mon": c.mon,
                     "params": dict(c.sh or {})})
    return listener
