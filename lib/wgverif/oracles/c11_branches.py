"""Closed-form branch geometry for the C11 oracle (harness side, physical fields).

Nothing here looks at WallGo's tracer: it only evaluates the closed forms of the model zoo
(wgverif.models.potentials) -- the location of a phase continued ("clamped") past the end
of its existence interval, every real critical point of the polynomial at a temperature
with its analytic type, and the type of each end of an existence interval.
"""
from __future__ import annotations

import math

import numpy as np


# ------------------------------------------------------------------ branch locations
def branch(pot, phase, T):
    """Location (physical fields, shape (..., n)) of the closed-form branch at T.

    Outside the existence interval the closed form is *continued*: a fold keeps the
    inflection point (poly1 broken phase, disc -> 0); a branch whose vev goes to zero
    continuously is continued by the symmetric point (a minimum there); the symmetric
    phase of poly1 is continued below T0 by phi_-(T) < 0, the minimum it exchanges
    stability with (transcritical point); a branch that loses stability in a transverse
    direction with nothing continuous taking over (sub-critical) keeps its closed form
    (a saddle there).  For the two *hard* end types (fold, sub-critical) the continued
    values are used only inside the slack zone beyond the spinodal."""
    T = np.asarray(T, dtype=float)
    fam = type(pot).__name__
    if fam == "Poly1":
        if phase == "high":
            # transcritical exchange at T0: below it the minimum continues as phi_-(T) < 0
            disc = 9 * pot.E ** 2 * T ** 2 - 8 * pot.lam * pot.D * (T ** 2 - pot.T0 ** 2)
            pm = (3 * pot.E * T - np.sqrt(np.maximum(disc, 0.0))) / (2 * pot.lam)
            return np.where(T < pot.T0, pm, 0.0)[..., None]
        return np.asarray(pot.phi_broken(T))[..., None]
    if fam == "Poly2":
        if phase == "low":
            h = np.sqrt(np.maximum(pot.h2(T), 0.0))
            return np.stack([h, np.zeros_like(h)], axis=-1)
        S = np.sqrt(np.maximum(pot.S2(T), 0.0))
        return np.stack([np.zeros_like(S), S], axis=-1)
    if fam == "Poly2F":
        # poly1 at lamEff on the valley u^2 = v^2 - 2 kap p^2/l1: the low phase keeps the
        # inflection point past the fold (disc clamped at 0); the high phase (v,0) is
        # continued below T0 by the valley point at p_-(T) < 0 (transcritical exchange)
        if phase == "high":
            pm = np.where(T < pot.T0, pot.phi_minus(T), 0.0)
            return np.stack([pot.u_valley(pm), pm], axis=-1)
        return np.asarray(pot.low_point(T))
    raise ValueError(fam)


def branch_V(pot, phase, T):
    """V on the (clamped) branch."""
    T = np.asarray(T, dtype=float)
    return pot.V_phys(branch(pot, phase, T), T)


def branch_dVdT(pot, phase, T):
    """d/dT of the free energy of the phase = partial_T V at the minimum."""
    T = np.asarray(T, dtype=float)
    return pot.dVdT_phys(branch(pot, phase, T), T)


# ------------------------------------------------------------------ critical points
def _kind(pot, phi, T):
    ev = np.linalg.eigvalsh(np.asarray(pot.hess_phys(np.asarray(phi, dtype=float), float(T))))
    if ev[0] > 0:
        return "min"
    if ev[-1] < 0:
        return "max"
    return "saddle"


def critical_points(pot, T):
    """All real critical points of V(., T): list of (phi (n,), kind, label)."""
    T = float(T)
    fam = type(pot).__name__
    pts = []
    if fam == "Poly1":
        pts.append((np.array([0.0]), "sym"))
        disc = 9 * pot.E ** 2 * T ** 2 - 8 * pot.lam * pot.D * (T ** 2 - pot.T0 ** 2)
        if disc > 0:
            r = math.sqrt(disc)
            pts.append((np.array([(3 * pot.E * T + r) / (2 * pot.lam)]), "broken+"))
            pts.append((np.array([(3 * pot.E * T - r) / (2 * pot.lam)]), "broken-"))
    elif fam == "Poly2":
        A = pot.muh2 - pot.ch * T * T
        B = pot.mus2 - pot.cs * T * T
        pts.append((np.array([0.0, 0.0]), "sym"))
        if A > 0:
            h = math.sqrt(A / pot.lh)
            pts += [(np.array([h, 0.0]), "h+"), (np.array([-h, 0.0]), "h-")]
        if B > 0:
            S = math.sqrt(B / pot.ls)
            pts += [(np.array([0.0, S]), "S+"), (np.array([0.0, -S]), "S-")]
        det = pot.lh * pot.ls - 0.25 * pot.lhs ** 2
        if det != 0:
            h2 = (pot.ls * A - 0.5 * pot.lhs * B) / det
            S2 = (pot.lh * B - 0.5 * pot.lhs * A) / det
            if h2 > 0 and S2 > 0:
                for sh in (1, -1):
                    for ss in (1, -1):
                        pts.append((np.array([sh * math.sqrt(h2), ss * math.sqrt(S2)]),
                                    f"mixed{'+' if sh > 0 else '-'}{'+' if ss > 0 else '-'}"))
    elif fam == "Poly2F":
        # dV/du = u [l1 (u^2-v^2) + 2 kap p^2] = 0: valley or the axis u = 0;
        # dV/dp = p [2 kap (u^2-v^2) + 2 D (T^2-T0^2) - 3 E T p + lam p^2] = 0
        for su, tag in ((1.0, ""), (-1.0, "m:")):           # u -> -u mirror images
            pts.append((np.array([su * pot.v, 0.0]), tag + "sym"))
        disc = float(pot._disc(T))
        if disc > 0:
            r = math.sqrt(disc)
            for q, lab in (((3 * pot.E * T + r) / (2 * pot.lamEff), "broken+"),
                           ((3 * pot.E * T - r) / (2 * pot.lamEff), "broken-")):
                u2 = pot.v ** 2 - 2 * pot.kap * q * q / pot.l1
                if u2 > 0:
                    for su, tag in ((1.0, ""), (-1.0, "m:")):
                        pts.append((np.array([su * math.sqrt(u2), q]), tag + lab))
        pts.append((np.array([0.0, 0.0]), "axis:0"))
        c0 = 2 * pot.D * (T * T - pot.T0 ** 2) - 2 * pot.kap * pot.v ** 2
        d0 = 9 * pot.E ** 2 * T * T - 4 * pot.lam * c0
        if d0 > 0:
            for sg, lab in ((1.0, "axis:+"), (-1.0, "axis:-")):
                pts.append((np.array([0.0, (3 * pot.E * T + sg * math.sqrt(d0)) / (2 * pot.lam)]), lab))
    else:
        raise ValueError(fam)
    return [(p, _kind(pot, p, T), lab) for p, lab in pts]


OWN_LABEL = {("Poly1", "high"): "sym", ("Poly1", "low"): "broken+",
             ("Poly2", "low"): "h+", ("Poly2", "high"): "S+",
             ("Poly2F", "high"): "sym", ("Poly2F", "low"): "broken+"}


def own_labels(pot, phase, T):
    """Labels of the critical points that make up the *continuous* branch at T."""
    fam = type(pot).__name__
    own = {OWN_LABEL[(fam, phase)]}
    if fam in ("Poly1", "Poly2F") and phase == "high" and T <= pot.T0:
        own.add("broken-")
    if fam == "Poly2":
        hi, kind = end_types(pot, phase)["hi"]
        if kind == "merge" and T >= hi:
            own.add("sym")
    return own


def other_minima(pot, phase, T):
    """Minima of V(., T) that are not on the traced continuous branch: [(phi, label)]."""
    own = own_labels(pot, phase, float(T))
    return [(p, lab) for p, k, lab in critical_points(pot, T) if k == "min" and lab not in own]


# ------------------------------------------------------------------ interval ends
def end_types(pot, phase):
    """{"lo": (T, type), "hi": (T, type)} with type in
    none        no spinodal at this end (T -> 0 or infinity)
    -- hard ends: the continuous family of minima stops
    fold        minimum and maximum annihilate (poly1 broken phase at T1; poly2f low phase,
                minimum and saddle on the valley)
    unstable    a transverse mass goes through zero sub-critically (lh*ls < lhs^2/4: the
                mixed critical point is a saddle); the closed-form point survives as a saddle
    -- soft ends: a minimum continues continuously on another closed form
    merge       the vev goes to zero continuously and the branch joins the symmetric point
    exchange    transcritical / super-critical exchange of stability (poly1 symmetric phase
                at T0 -> phi_-; poly2 transverse instability with lh*ls > lhs^2/4 -> mixed)
    """
    lo, hi = pot.exists(phase)
    fam = type(pot).__name__
    out = {"lo": (lo, "none" if lo <= 0 else "unstable"),
           "hi": (hi, "none" if not math.isfinite(hi) else "unstable")}
    if fam in ("Poly1", "Poly2F"):
        if phase == "low":
            out["hi"] = (hi, "fold" if math.isfinite(hi) else "none")
        else:
            out["lo"] = (lo, "exchange")
    elif fam == "Poly2":
        t2 = (pot.muh2 / pot.ch) if phase == "low" else (pot.mus2 / pot.cs)
        if math.isfinite(hi) and abs(hi * hi - t2) <= 1e-12 * t2:
            out["hi"] = (hi, "merge")
        if pot.lh * pot.ls - 0.25 * pot.lhs ** 2 >= 0:
            for side in ("lo", "hi"):
                if out[side][1] == "unstable":
                    out[side] = (out[side][0], "exchange")
    return out


def fold_geometry(pot):
    """Closed-form local geometry of the fold at T1 (Poly1 / Poly2F low phase), used to
    *propagate* a residual gradient g (what the tracer controls: |grad V| <= rTol*T0^3) into
    a temperature and a curvature tolerance.  With x the coordinate along the null vector n
    of the Hessian at the fold point,  n.grad V = V3 x^2/2 + A (T - T1) + ...:
        A   = |n . d(grad V)/dT|   a gradient g moves the end of the branch by g/A,
        V3  = |V_nnn|              a point with |n.grad V| <= g within g/A of T1 has a
                                   curvature >= -sqrt(4 V3 g) along n,
        noise = (largest intermediate magnitude in the evaluation of V)/(a T1^4): the factor
                by which the rounding noise of V -- hence of scipy's forward-difference
                gradient inside findLocalMinimum -- exceeds that of the one-field model the
                floor R_FLOOR of the check was observed on.
    Poly2F: T enters through p only and n is the tangent of the valley
    u^2 = v^2 - 2 kap p^2/l1, (du/dp, 1)/norm with du/dp = -2 kap p/(l1 u)."""
    fam = type(pot).__name__
    T1 = pot.T1()
    lam = pot.lamEff if fam == "Poly2F" else pot.lam
    pf = 3 * pot.E * T1 / (2 * lam)
    A = abs(4 * pot.D * T1 * pf - 3 * pot.E * pf * pf)
    V3 = 3 * pot.E * T1                     # -6 E T + 6 lam p at p = 3 E T/(2 lam)
    noise = 1.0
    if fam == "Poly2F":
        uf = float(pot.u_valley(pf))
        npz = 1.0 / math.sqrt(1.0 + (2 * pot.kap * pf / (pot.l1 * uf)) ** 2)
        A, V3 = A * npz, V3 * npz ** 3
        # u^2 - v^2 is formed from two numbers of size v^2: its rounding error eps*v^2 enters
        # V through (l1 w/2 + kap p^2) = 2 kap p^2 on the valley
        noise = 1.0 + 2 * abs(pot.kap) * pf * pf * pot.v ** 2 / (pot.a * T1 ** 4)
    return {"A": A, "V3": V3, "noise": noise, "p_fold": pf}


def hard(kind):
    return kind in ("fold", "unstable")


def soft(kind):
    return kind in ("merge", "exchange")
