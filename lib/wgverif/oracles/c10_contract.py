"""Contract variant of C10: a postcondition on the real Thermodynamics.setExtrapolate.

install() wraps the class attribute (harness side, /repo untouched) with an icontract
``ensure`` whose named condition function recomputes, every time setExtrapolate returns,

  * the range attributes TMin/TMax{HighT,LowT} against the FreeEnergy objects' own
    min/maxPossibleTemperature[0];
  * continuity of p, dp, ddp, cs^2 across each of the four range ends: the value reported
    at T_b (tabulated branch) against the value reported at T_b(1 -+ 4 eps) on the
    extrapolated side; allowed jump  slope*8 eps*T_b + 1e-12 |f|  (DESIGN C10: observed
    continuous to rounding, a wrong coefficient gives O(1e-3..1) jumps).

Record mode (default): the condition appends one event per call to EVENTS and returns
True, so one defect does not mask the rest; raise mode (install(record=False)) makes the
contract raise icontract.ViolationError for --replay debugging.  Any check that drives a
WallGoManager can call install() to keep the postcondition on in its own workload and
drain() the events at the end of a case.
"""
from __future__ import annotations

import math

import numpy as np

EPS = float(np.finfo(float).eps)
EVENTS: list[dict] = []
_STATE = {"installed": False, "record": True, "calls": 0}

ENDS = (("high", "TMin", "HighT"), ("high", "TMax", "HighT"),
        ("low", "TMin", "LowT"), ("low", "TMax", "LowT"))


def continuity_residuals(th, names=("p", "dp", "ddp", "csq")):
    """List of dicts, one per (phase, end, function): value reported at T_b (tabulated
    branch), value at T_b(1 -+ 4 eps) on the extrapolated side, jump and allowed jump.
    The slope entering the allowance is measured on both sides by one-sided differences
    over 1e-6 T_b (the spline's ddp is piecewise linear, so this is its slope there)."""
    rows = []
    for phase, end, sfx in ENDS:
        Tb = float(getattr(th, end + sfx))
        if not (math.isfinite(Tb) and Tb > 0):
            rows.append({"phase": phase, "end": end, "f": "range", "Tb": Tb, "ok": None,
                         "note": "range end not finite / not positive"})
            continue
        sgn = -1.0 if end == "TMin" else 1.0          # direction of the extrapolated side
        Tout = Tb * (1 + sgn * 4 * EPS)
        Tin = Tb * (1 - sgn * 1e-6)
        Tfar = Tb * (1 + sgn * 1e-6)
        other = float(getattr(th, ("TMax" if end == "TMin" else "TMin") + sfx))
        if not min(Tb, other) <= Tin <= max(Tb, other):
            Tin = 0.5 * (Tb + other)
        fn = {k: getattr(th, k + sfx) for k in names}
        try:
            vb = {k: float(f(Tb)) for k, f in fn.items()}
            vout = {k: float(f(Tout)) for k, f in fn.items()}
            vin = {k: float(f(Tin)) for k, f in fn.items()}
            vfar = {k: float(f(Tfar)) for k, f in fn.items()}
        except Exception as exc:      # noqa: BLE001 - a raising EOS is what we report
            rows.append({"phase": phase, "end": end, "f": "raises", "Tb": Tb, "ok": False,
                         "note": repr(exc)[:200]})
            continue
        for k in names:
            # slopes on either side by one-sided differences over 1e-6 T_b (third derivatives
            # are not continuous, so ddp has different slopes inside and outside)
            slope = abs(vin[k] - vb[k]) / abs(Tin - Tb) if Tin != Tb else 0.0
            s_out = abs(vfar[k] - vout[k]) / abs(Tfar - Tout)
            if math.isfinite(s_out):
                slope = max(slope, s_out)
            # e = T dp - p can cancel almost completely: its rounding is that of its operands
            scale = abs(vb[k])
            if k == "e" and "p" in vb and "w" in vb:
                scale += abs(vb["p"]) + abs(vb["w"])
            jump = abs(vout[k] - vb[k])
            allowed = slope * 8 * EPS * Tb + 1e-12 * scale
            ok = bool(math.isfinite(vout[k]) and math.isfinite(vb[k]) and jump <= allowed)
            rows.append({"phase": phase, "end": end, "f": k, "Tb": Tb, "inside": vb[k],
                         "outside": vout[k], "jump": jump, "allowed": allowed, "ok": ok})
    return rows


def range_attribute_residuals(th):
    bad = []
    for sfx, fe in (("HighT", th.freeEnergyHigh), ("LowT", th.freeEnergyLow)):
        for end, src in (("TMin", fe.minPossibleTemperature[0]),
                         ("TMax", fe.maxPossibleTemperature[0])):
            if getattr(th, end + sfx) != src:
                bad.append({"attr": end + sfx, "value": float(getattr(th, end + sfx)),
                            "free_energy": float(src)})
    return bad


def extrapolation_continuous_at_range_ends(self) -> bool:
    """Named postcondition of Thermodynamics.setExtrapolate."""
    _STATE["calls"] += 1
    rows = continuity_residuals(self)
    stale = range_attribute_residuals(self)
    ok = all(r["ok"] is not False for r in rows) and not stale
    EVENTS.append({"thermo": id(self), "rows": rows, "stale": stale, "ok": ok})
    return True if _STATE["record"] else ok


def _error(self):
    import icontract
    bad = [r for r in continuity_residuals(self) if r["ok"] is False]
    return icontract.ViolationError(
        "Thermodynamics.setExtrapolate left a discontinuous equation of state: " + repr(bad[:3]))


def install(record=True):
    """Idempotent.  Returns the Thermodynamics class."""
    import icontract
    from WallGo.thermodynamics import Thermodynamics
    _STATE["record"] = bool(record)
    if not _STATE["installed"]:
        orig = Thermodynamics.setExtrapolate
        wrapped = icontract.ensure(extrapolation_continuous_at_range_ends, error=_error)(orig)
        Thermodynamics.setExtrapolate = wrapped
        Thermodynamics._wgverif_c10_orig_setExtrapolate = orig
        _STATE["installed"] = True
    return Thermodynamics


def drain():
    ev = list(EVENTS)
    EVENTS.clear()
    return ev
