"""pytest plugin: the repository's own test-suite run under the harness's passive monitors.

    tools/passive_suite.py            (runs pytest on <REPO>/tests with -p wgverif.passive_plugin)

Purpose (guidance: "run the repository's own tests with the contracts on: one that fires
there is either too strict or a defect the tests do not assert"): a foreign workload for the
monitors that need no closed-form model of the input -

  * C17  grid class invariant (exact clauses) after every Grid/Grid3Scales construction
         and in-place rescale
  * C10  icontract postcondition on Thermodynamics.setExtrapolate (continuity at the range ends)
  * C18  table well-formedness after every InterpolatableFunction method
  * C02  flux conservation of every Hydrodynamics.findMatching result, fluxes formed from
         p, p', p'' of the object's own Thermodynamics (tolerance 1e-4; the known slow-wall
         mechanism is named, not hidden)
  * C14  operand preservation of CollisionArray.interpolateCollisionArray's source

Nothing here changes a test outcome: monitors record, the summary is written at session end
to the file named by WGVERIF_PASSIVE_OUT.
"""
from __future__ import annotations

import json
import math
import os

import numpy as np

SINK = {"c17": [], "c02": [], "c14": [], "c18_before": 0}
COUNT = {"c17_events": 0, "c10_events": 0, "c18_post_states": 0, "c02_matchings": 0,
         "c14_interpolations": 0}
VIOL = []


def _install():
    from wgverif import env
    env.ensure_deps()
    env.import_wallgo()
    # ---- C17
    from wgverif.oracles import c17_monitor as M17
    M17.install()
    M17.STATE.listener = M17.make_passive_listener(SINK["c17"], level="exact")
    # ---- C10
    from wgverif.oracles import c10_contract as M10
    M10.install(record=True)
    # ---- C18
    # (own thin wrapper: C18.install_monitors also poisons np.empty inside the module, which is
    # meant for C18's own driver, not for foreign workloads)
    import functools
    from wgverif.checks import C18
    import WallGo.interpolatableFunction as IFmod
    cls18 = IFmod.InterpolatableFunction

    def mk18(orig, name):
        @functools.wraps(orig)
        def wrapper(self, *a, **k):
            try:
                return orig(self, *a, **k)
            finally:
                try:
                    COUNT["c18_post_states"] += 1
                    for mech, msg in C18.state_problems(self):
                        VIOL.append({"monitor": "C18", "mech": mech,
                                     "msg": f"after {name}: {msg}"[:200],
                                     "class": type(self).__name__})
                except Exception:
                    pass
        return wrapper
    for name in C18.WRAPPED:
        if name in ("__init__",):
            continue
        setattr(cls18, name, mk18(getattr(cls18, name), name))
    # ---- C02: flux postcondition
    from WallGo.hydrodynamics import Hydrodynamics
    from wgverif.checks._hydro import ThermoRef, g2
    orig_fm = Hydrodynamics.findMatching
    depth = [0]

    def findMatching(self, vwTry):
        depth[0] += 1
        try:
            out = orig_fm(self, vwTry)
        finally:
            depth[0] -= 1
        if depth[0] == 0 and out is not None and out[0] is not None:
            try:
                vp, vm, Tp, Tm = (float(x) for x in out)
                if all(np.isfinite([vp, vm, Tp, Tm])) and 0 < vp < 1 and 0 < vm < 1:
                    ref = ThermoRef(self.thermodynamics)
                    H, L = ref.ref("H", Tp), ref.ref("L", Tm)
                    f1p, f1m = H["w"] * g2(vp) * vp, L["w"] * g2(vm) * vm
                    f2p, f2m = H["w"] * g2(vp) * vp ** 2 + H["p"], L["w"] * g2(vm) * vm ** 2 + L["p"]
                    r1, r2 = (f1p - f1m) / f1p, (f2p - f2m) / abs(f2p)
                    COUNT["c02_matchings"] += 1
                    rec = {"vw": float(vwTry), "R1": r1, "R2": r2, "success": bool(self.success)}
                    SINK["c02"].append(rec)
                    if max(abs(r1), abs(r2)) > 1e-4:
                        mech = ("matching-accepted-on-absolute-residual(known, slow wall)"
                                if float(vwTry) < 0.05 else "flux-mismatch")
                        VIOL.append({"monitor": "C02", "mech": mech, **rec})
            except Exception as exc:      # monitors never change a test outcome
                SINK["c02"].append({"vw": float(vwTry), "monitor_error": repr(exc)[:120]})
        return out

    Hydrodynamics.findMatching = findMatching
    # ---- C14: source preserved by interpolation
    from WallGo.collisionArray import CollisionArray
    orig_ic = CollisionArray.interpolateCollisionArray

    def interp(srcCollision, targetGrid):
        before = (np.array(srcCollision.polynomialData.coefficients, copy=True),
                  srcCollision.getBasisType(), tuple(srcCollision.polynomialData.basis))
        out = orig_ic(srcCollision, targetGrid)
        COUNT["c14_interpolations"] += 1
        after = (srcCollision.polynomialData.coefficients, srcCollision.getBasisType(),
                 tuple(srcCollision.polynomialData.basis))
        if not (np.array_equal(before[0], after[0]) and before[1:] == after[1:]):
            VIOL.append({"monitor": "C14", "mech": "interpolation-disturbs-its-source-array"})
        return out

    try:
        CollisionArray.interpolateCollisionArray = staticmethod(interp)
    except Exception:
        pass


def pytest_configure(config):
    _install()


def pytest_sessionfinish(session, exitstatus):
    from wgverif.oracles import c10_contract as M10
    ev10 = M10.drain()
    COUNT["c10_events"] = len(ev10)
    for e in ev10:
        if isinstance(e, dict) and e.get("ok") is False:
            bad = [r for r in e.get("rows", []) if r.get("ok") is False]
            VIOL.append({"monitor": "C10", "mech": "setExtrapolate-discontinuous",
                         "detail": bad[:2], "stale": e.get("stale")})
    COUNT["c17_events"] = len(SINK["c17"])
    for r in SINK["c17"]:
        for v in r["viol"]:
            VIOL.append({"monitor": "C17", "mech": v.get("mech"), "event": r["event"],
                         "msg": str(v.get("msg"))[:200]})
    out = {"exitstatus": int(exitstatus), "counts": COUNT, "violations": VIOL[:50],
           "n_violations": len(VIOL),
           "c02_worst": max([max(abs(r.get("R1", 0)), abs(r.get("R2", 0))) for r in SINK["c02"]
                             if "R1" in r] or [0.0])}
    path = os.environ.get("WGVERIF_PASSIVE_OUT")
    if path:
        with open(path, "w") as fh:
            json.dump(out, fh, indent=1, default=str)
