"""Process environment for every check: thread pinning, import paths, quiet logging.

Import this module *before* numpy / WallGo.

WGVERIF_REPO (default /repo) selects the WallGo source tree that is imported.  The /venv
install of WallGo is editable and points at /repo, so the default needs nothing; a
scratch copy (mutant testing) is selected by putting <copy>/src at the front of sys.path.
"""
import os
import sys

for _v in ("OMP_NUM_THREADS", "OPENBLAS_NUM_THREADS", "MKL_NUM_THREADS",
           "NUMEXPR_NUM_THREADS", "VECLIB_MAXIMUM_THREADS"):
    os.environ[_v] = "1"
os.environ.setdefault("PYTHONHASHSEED", "0")
# guard recorded in MANIFEST.hooks.guard: harness-side monitors are installed only
# by the check processes, which set it themselves
os.environ["WALLGO_VERIF"] = "1"

VERIF_ROOT = os.path.dirname(os.path.dirname(os.path.dirname(os.path.abspath(__file__))))
DEPS = os.path.join(VERIF_ROOT, ".deps")
REPO = os.environ.get("WGVERIF_REPO", "/repo")

if os.path.isdir(DEPS) and DEPS not in sys.path:
    sys.path.append(DEPS)
_src = os.path.join(REPO, "src")
if _src not in sys.path:
    sys.path.insert(0, _src)
_lib = os.path.join(VERIF_ROOT, "lib")
if _lib not in sys.path:
    sys.path.insert(0, _lib)

import warnings  # noqa: E402

warnings.filterwarnings("ignore", message="Error loading WallGoCollision")
import logging  # noqa: E402

logging.disable(logging.CRITICAL)


def ensure_deps():
    """Install icontract + deal from the offline wheelhouse into /verif/.deps if absent."""
    try:
        import icontract  # noqa: F401
        return True
    except Exception:
        pass
    import subprocess
    os.makedirs(DEPS, exist_ok=True)
    subprocess.run(
        [sys.executable, "-m", "pip", "install", "--quiet", "--no-index", "--find-links",
         "/opt/veriftools/wheels", "--target", DEPS, "icontract", "deal"],
        check=False, stdout=subprocess.DEVNULL, stderr=subprocess.DEVNULL,
    )
    if DEPS not in sys.path:
        sys.path.append(DEPS)
    import importlib
    importlib.invalidate_caches()
    try:
        import icontract  # noqa: F401
        return True
    except Exception:
        return False


def import_wallgo():
    import WallGo
    got = os.path.realpath(os.path.dirname(os.path.dirname(WallGo.__file__)))
    want = os.path.realpath(_src)
    if got != want:
        raise RuntimeError(f"WallGo imported from {got}, expected {want}")
    return WallGo
