"""Workload runner, verdict discipline and evidence writer shared by every check.

A check module (wgverif.checks.Cxx) provides

    PROPERTY   = "Cxx"
    RULE       = str   how cases are generated; what makes one non-trivial / distinct
    generate(tier, seed) -> list[dict]          JSON-serialisable, self-contained cases
    run_case(case) -> dict                      drives the real code under its monitors
    FLOORS     = {"quick": {...}, "thorough": {...}}   (see _check_floors)
    finalize(results, tier, seed) -> dict | None   optional cross-case oracle
                                                (metamorphic pairs); may return
                                                {"viol": [...], "extra": {...}}
    CASE_TIMEOUT = seconds (watchdog only -> inconclusive case)
    CHUNK      = cases per pool task

run_case returns

    {"key": str,             canonical identity of the case (distinctness)
     "cls": str | [str],     workload class / branch labels (coverage accounting)
     "nontrivial": bool,
     "obs": {...},           what the monitors saw (small)
     "viol": [{"mech": str, "msg": str, "data": {...}}],
     "inconclusive": None | str,
     "mon": {name: count}}   monitor evaluation counters

Verdicts are three-valued: violated (exit 1, VIOLATION line, replay file), held (exit 0,
one KNOWN-FINDING line per listed mechanism re-observed), inconclusive (exit 2).
A violation is matched against known_findings.json by its *mechanism* string only.
"""
from __future__ import annotations

import collections
import importlib
import json
import os
import signal
import sys
import time
import traceback

from . import env

KNOWN_FILE = os.path.join(env.VERIF_ROOT, "known_findings.json")
EVIDENCE_DIR = os.environ.get("WGVERIF_EVIDENCE_DIR") or os.path.join(env.VERIF_ROOT, "evidence")
REPLAY_DIR = (os.path.join(os.environ["WGVERIF_EVIDENCE_DIR"], "replay")
              if os.environ.get("WGVERIF_EVIDENCE_DIR") else os.path.join(env.VERIF_ROOT, "out", "replay"))


class CaseTimeout(BaseException):
    """Watchdog.  Derives from BaseException so that `except Exception` clauses in the
    code under test (or in a check) cannot swallow it; the timer re-fires every few
    seconds in case a bare `except:` does."""


_HANG_SITE = [None]


def _alarm(signum, frame):
    # remember where the case was when the watchdog fired: innermost frame inside the
    # repository's sources (site) -- lets a triage tell a hang in the code under test
    # from a slow oracle
    site, inner, f = None, None, frame
    while f is not None:
        fn = f.f_code.co_filename
        here = f"{os.path.basename(fn)}:{f.f_code.co_name}"
        if inner is None:
            inner = here
        if site is None and "/WallGo/" in fn:
            site = here
        f = f.f_back
    if _HANG_SITE[0] is None:
        _HANG_SITE[0] = f"in {site or '-'} (innermost {inner})"
    raise CaseTimeout()


def jsonable(o):
    """Best-effort conversion of numpy things for JSON output."""
    import numpy as np
    if isinstance(o, dict):
        return {str(k): jsonable(v) for k, v in o.items()}
    if isinstance(o, (list, tuple, set)):
        return [jsonable(v) for v in o]
    if isinstance(o, np.ndarray):
        if o.size > 64:
            return {"shape": list(o.shape), "head": jsonable(o.ravel()[:8].tolist())}
        return jsonable(o.tolist())
    if isinstance(o, (np.floating,)):
        o = float(o)
    if isinstance(o, (np.integer,)):
        return int(o)
    if isinstance(o, (np.bool_,)):
        return bool(o)
    if isinstance(o, complex):
        return {"re": o.real, "im": o.imag}
    if isinstance(o, float):
        if o != o:
            return "nan"
        if o in (float("inf"), float("-inf")):
            return "inf" if o > 0 else "-inf"
        return o
    if isinstance(o, (int, str, bool)) or o is None:
        return o
    return repr(o)


_MODULE = None


def _worker_init(modname):
    global _MODULE
    env.ensure_deps()
    _MODULE = importlib.import_module(modname)
    if hasattr(_MODULE, "worker_init"):
        _MODULE.worker_init()


def _run_one(mod, case, timeout):
    t0 = time.time()
    signal.signal(signal.SIGALRM, _alarm)
    _HANG_SITE[0] = None
    signal.setitimer(signal.ITIMER_REAL, float(timeout), 5.0)
    try:
        res = mod.run_case(case)
    except CaseTimeout:
        res = {"key": case.get("key", json.dumps(jsonable(case), sort_keys=True)[:200]),
               "cls": "timeout", "nontrivial": False, "obs": {}, "viol": [],
               "inconclusive": f"watchdog {timeout}s {_HANG_SITE[0]}", "mon": {}}
    except Exception as exc:  # harness failure, not a verdict on the code
        res = {"key": case.get("key", json.dumps(jsonable(case), sort_keys=True)[:200]),
               "cls": "harness-error", "nontrivial": False, "obs": {}, "viol": [],
               "inconclusive": "harness exception: " + repr(exc)[:300],
               "trace": traceback.format_exc()[-1500:], "mon": {}}
    finally:
        signal.setitimer(signal.ITIMER_REAL, 0.0)
    res.setdefault("viol", [])
    res.setdefault("mon", {})
    res.setdefault("obs", {})
    res.setdefault("inconclusive", None)
    res.setdefault("nontrivial", True)
    res.setdefault("cls", "default")
    res["wall"] = round(time.time() - t0, 3)
    res["case"] = case
    return jsonable(res)


def _run_chunk(chunk, timeout):
    return [_run_one(_MODULE, c, timeout) for c in chunk]


def load_known(pid):
    with open(KNOWN_FILE) as fh:
        data = json.load(fh)
    known = {}
    for e in data.get("findings", []):
        if e.get("property") == pid and e.get("status") == "known":
            known[e["key"]] = e
    return known


def run_cases(mod, cases, jobs, timeout, chunk):
    """Run all cases; ProcessPoolExecutor (not multiprocessing.Pool: a dying child
    raises BrokenProcessPool instead of hanging)."""
    from concurrent.futures import ProcessPoolExecutor, as_completed
    from concurrent.futures.process import BrokenProcessPool
    results = []
    if jobs <= 1 or len(cases) <= 1:
        _worker_init(mod.__name__)
        for c in cases:
            results.append(_run_one(_MODULE, c, timeout))
        return results, 0
    chunks = [cases[i:i + chunk] for i in range(0, len(cases), chunk)]
    lost = 0
    import multiprocessing as mp
    ctx = mp.get_context("spawn")
    with ProcessPoolExecutor(max_workers=min(jobs, len(chunks)), mp_context=ctx,
                             initializer=_worker_init, initargs=(mod.__name__,)) as ex:
        futs = {ex.submit(_run_chunk, ch, timeout): ch for ch in chunks}
        try:
            for f in as_completed(futs):
                try:
                    results.extend(f.result())
                except BrokenProcessPool:
                    lost += len(futs[f])
                except Exception:
                    lost += len(futs[f])
        except BrokenProcessPool:
            lost += sum(len(ch) for f, ch in futs.items() if not f.done())
    return results, lost


def _check_floors(floors, evidence_cov):
    """floors: {"distinct_nontrivial": n, "mon": {name: n}, "cls": {name: n},
    "cls_frac": {name: fraction of decided}}.  Returns list of unmet reasons."""
    unmet = []
    if not floors:
        return unmet
    if evidence_cov["distinct_nontrivial"] < floors.get("distinct_nontrivial", 2):
        unmet.append(f"distinct_nontrivial={evidence_cov['distinct_nontrivial']}"
                     f"<{floors.get('distinct_nontrivial', 2)}")
    for name, n in floors.get("mon", {}).items():
        if evidence_cov["monitor_evaluations"].get(name, 0) < n:
            unmet.append(f"monitor {name}={evidence_cov['monitor_evaluations'].get(name, 0)}<{n}")
    for name, n in floors.get("cls", {}).items():
        if evidence_cov["classes"].get(name, 0) < n:
            unmet.append(f"class {name}={evidence_cov['classes'].get(name, 0)}<{n}")
    return unmet


def main_check(pid, tier, seed, jobs=None, replay=None, limit=None):
    t0 = time.time()
    env.ensure_deps()
    mod = importlib.import_module(f"wgverif.checks.{pid}")
    timeout = float(os.environ.get("WGVERIF_CASE_TIMEOUT") or getattr(mod, "CASE_TIMEOUT", 120))
    chunk = getattr(mod, "CHUNK", 1)
    if jobs is None:
        jobs = int(os.environ.get("VERIF_JOBS", os.cpu_count() or 4))

    if replay:
        with open(replay) as fh:
            rp = json.load(fh)
        _worker_init(mod.__name__)
        res = _run_one(_MODULE, rp["case"], timeout * 10)
        print(json.dumps({k: res[k] for k in ("key", "cls", "obs", "viol", "inconclusive")},
                         indent=1)[:6000])
        known = load_known(pid)
        bad = [v for v in res["viol"] if v["mech"] not in known]
        print("mechanisms:", sorted({v["mech"] for v in res["viol"]}),
              "| not listed as known:", sorted({v["mech"] for v in bad}))
        for v in bad[:5]:
            print("  ", v["mech"], "::", str(v.get("msg"))[:700])
        if bad:
            print(f"VIOLATION property={pid} replay={replay}")
            return 1
        return 0

    cases = mod.generate(tier, seed)
    if limit:
        cases = cases[:limit]
    # pinned witnesses of repaired / recorded defects are re-run on every invocation
    regdir = os.path.join(env.VERIF_ROOT, "regression", pid)
    if os.path.isdir(regdir):
        for fn in sorted(os.listdir(regdir)):
            if fn.endswith(".json"):
                with open(os.path.join(regdir, fn)) as fh:
                    c = json.load(fh)["case"]
                c["regression"] = fn
                cases.append(c)
    results, lost = run_cases(mod, cases, jobs, timeout, chunk)

    fin = None
    if hasattr(mod, "finalize"):
        fin = mod.finalize(results, tier, seed)

    known = load_known(pid)
    mon = collections.Counter()
    classes = collections.Counter()
    inconc = collections.Counter()
    keys = set()
    viols = []
    for r in results:
        for k, v in r["mon"].items():
            mon[k] += v
        cl = r["cls"] if isinstance(r["cls"], list) else [r["cls"]]
        if r["inconclusive"]:
            inconc[str(r["inconclusive"])[:120]] += 1
        else:
            for c in cl:
                classes[c] += 1
            if r.get("keys") is not None:
                keys.update(r["keys"])      # several judged observations in one case
            elif r["nontrivial"]:
                keys.add(r["key"])
        for v in r["viol"]:
            viols.append((r, v))
    if fin:
        for v in fin.get("viol", []):
            viols.append(({"case": v.get("case"), "key": v.get("key", "finalize")}, v))
        for k, v in fin.get("mon", {}).items():
            mon[k] += v
        for k in fin.get("keys", []):
            keys.add(k)
        for k, v in fin.get("cls", {}).items():
            classes[k] += v

    known_hits = collections.Counter()
    known_examples = {}
    unknown = []
    for r, v in viols:
        if v["mech"] in known:
            known_hits[v["mech"]] += 1
            known_examples.setdefault(v["mech"], {"msg": v.get("msg"), "key": r.get("key")})
        else:
            unknown.append((r, v))

    os.makedirs(EVIDENCE_DIR, exist_ok=True)
    samples = []
    seen_cls = set()
    for r in results:
        if r["inconclusive"] or not r["nontrivial"]:
            continue
        c = json.dumps(r["cls"])
        if c in seen_cls and len(samples) >= 3:
            continue
        seen_cls.add(c)
        samples.append({"case": r["case"], "cls": r["cls"], "obs": r["obs"]})
        if len(samples) >= 8:
            break
    if not samples and results:
        samples.append({"case": results[0]["case"], "obs": results[0]["obs"],
                        "inconclusive": results[0]["inconclusive"]})
    # keep the inputs of watchdog cases: a hang inside the code under test is triaged from these
    hung = [r for r in results if str(r["inconclusive"] or "").startswith("watchdog")]
    if hung:
        os.makedirs(REPLAY_DIR, exist_ok=True)
        with open(os.path.join(REPLAY_DIR, f"{pid}_{tier}_s{seed}_watchdog-cases.json"), "w") as fh:
            json.dump({"property": pid, "tier": tier, "seed": seed,
                       "cases": [{"case": r["case"], "reason": r["inconclusive"]}
                                 for r in hung[:50]]}, fh, indent=1)
    cov = {
        "evaluations": len(results),
        "distinct_nontrivial": len(keys),
        "rule": getattr(mod, "RULE", ""),
        "samples": samples,
        "monitor_evaluations": dict(mon),
        "classes": dict(classes),
        "inconclusive_cases": dict(inconc),
        "lost_to_worker_crash": lost,
        "known_finding_hits": dict(known_hits),
        "exhaustive": bool(getattr(mod, "EXHAUSTIVE", {}).get(tier, False)),
    }
    if fin and fin.get("extra"):
        cov.update(fin["extra"])
    if hasattr(mod, "summarize"):
        try:
            cov.update(jsonable(mod.summarize(results, tier)))
        except Exception as exc:
            cov["summarize_error"] = repr(exc)

    unmet = _check_floors(getattr(mod, "FLOORS", {}).get(tier, {}), cov)
    n_inconc = sum(inconc.values()) + lost
    if results and n_inconc > max(3, 0.2 * len(results)):
        unmet.append(f"inconclusive cases {n_inconc}/{len(results)}")
    cov["floors_unmet"] = unmet

    ev = {
        "property_id": pid, "tier": tier, "seed": int(seed), "level": "exploration",
        "coverage": jsonable(cov),
        "assumptions": list(getattr(mod, "ASSUMPTIONS", [])),
        "wall_s": round(time.time() - t0, 2),
        "violations": len(unknown),
    }
    with open(os.path.join(EVIDENCE_DIR, f"{pid}.json"), "w") as fh:
        json.dump(ev, fh, indent=1, sort_keys=True)

    print(f"[{pid}] tier={tier} seed={seed} cases={len(results)} "
          f"distinct_nontrivial={len(keys)} inconclusive={n_inconc} "
          f"violating_observations={len(viols)} wall={ev['wall_s']}s")
    print(f"[{pid}] monitors: " + ", ".join(f"{k}={v}" for k, v in sorted(mon.items())))
    print(f"[{pid}] classes: " + ", ".join(f"{k}={v}" for k, v in sorted(classes.items())))
    for k, n in inconc.items():
        print(f"[{pid}] inconclusive x{n}: {k}")

    for mech, n in sorted(known_hits.items()):
        e = known[mech]
        print(f"KNOWN-FINDING: property={pid} {mech}: {e['what_fails']} "
              f"(observed {n}x this run; e.g. {known_examples[mech]['msg']})")

    if unknown:
        os.makedirs(REPLAY_DIR, exist_ok=True)
        by_mech = collections.OrderedDict()
        for r, v in unknown:
            by_mech.setdefault(v["mech"], []).append((r, v))
        for mech, lst in by_mech.items():
            r, v = lst[0]
            path = os.path.join(REPLAY_DIR, f"{pid}_{tier}_s{seed}_{_slug(mech)}.json")
            with open(path, "w") as fh:
                json.dump(jsonable({"property": pid, "tier": tier, "seed": seed,
                                    "mechanism": mech, "count": len(lst),
                                    "case": r.get("case"), "violation": v}), fh, indent=1)
            print(f"[{pid}] {mech} x{len(lst)}: {str(v.get('msg'))[:400]}")
            print(f"VIOLATION property={pid} replay={path}")
        return 1
    if unmet:
        print(f"INCONCLUSIVE property={pid} reason=" + "; ".join(unmet))
        return 2
    print(f"[{pid}] HELD on what was observed")
    return 0


def _slug(s):
    return "".join(ch if ch.isalnum() else "-" for ch in s)[:60]
