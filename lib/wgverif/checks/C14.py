"""C14 -- collision data act identically after loading, basis change and interpolation.

Workload: the driver writes synthetic collision directories with h5py (one file per
ordered particle pair, metadata attributes "Basis Size"/"Basis Type", dataset "a, b" of
shape (N-1,)*4) into a temporary directory and drives the *real*
``BoltzmannSolver.loadCollisions`` on them.  Entries are either unique integer tags
encoding (directory, a, b, alpha, beta, j, k) -- a misplaced number names its origin --
or random tensors with a different magnitude per pair.

Monitors (all harness side, nothing in /repo is touched):

* recording wrappers on the class attributes ``CollisionArray.changeBasis``,
  ``CollisionArray.interpolateCollisionArray`` and ``CollisionArray.newFromDirectory``.
  Every basis change and every interpolation the code performs (also the nested ones)
  is snapshotted before/after and judged *at the hook* by the reference in
  ``wgverif.oracles.c14_ref`` (numpy.polynomial Chebyshev transform, scipy
  BarycentricInterpolator Lagrange weights on the full source node set).  Judging at the
  hook is what attributes a wrong end result to its mechanism;
* the array left in ``solver.collisionArray`` after each load: bit-exact against the
  stored numbers when size and basis agree, otherwise through its action on every
  low-order distribution (the (N_t-1)^2 basis distributions; the claim is linear, so
  this is all distributions), per ordered pair;
* the same pair's block across loads with different other particles present / different
  particle order;
* fault sequences ok(A) -> faulty(B) -> ok(C) on ONE solver: exception type, identity
  and bit-contents of the previously installed array after the failed load;
* operand preservation, at the same hooks (so also for every nested call made by a load):
  the array handed to ``interpolateCollisionArray`` and the target grid, the grid /
  particle list / files handed to ``newFromDirectory``, the polynomial handed to
  ``newFromPolynomial`` must be observably unchanged after the call -- (a) bit-identical
  numbers, (b) same declared basis (``basisType``, ``getBasisType()``, polynomial axes) and
  size, (c) same action on the low-order distributions computed from what the array says
  about itself through ``__getitem__`` + ``getBasisType()``; ``changeBasis`` is documented
  to work in place on its own object, so there the check is on every *other* array the
  driver holds (watch list).  kind=operand cases keep ONE source array alive and go on
  using it after reads, repeated interpolation from both bases, basis changes of a deep
  copy, a there-and-back basis change of the source itself, newFromPolynomial on its
  polynomial, installation in a solver and further loads.
"""
from __future__ import annotations

import collections
import copy
import itertools
import math
import os
import pathlib
import shutil
import tempfile

import numpy as np

from wgverif import env  # noqa: F401
from wgverif.oracles import c14_ref as ref

PROPERTY = "C14"
RULE = ("load cases: enumerated over universe size 1-3 x stored N in {5,7,9,11} x stored "
        "basis x data kind {tags, random per-pair magnitudes, mixed with zero blocks}; each "
        "case loads its directory for both requested bases x every odd target N <= stored "
        "x singles/ordered pairs/ordered triples of the universe (grid class Grid or "
        "Grid3Scales, Spectral or Uniform spacing -- on Uniform grids only equal-size loads "
        "are judged --, random M and fall-offs, str/bytes metadata).  fault cases: one BoltzmannSolver, alternating ok and faulty "
        "directories: every (quick: all for <=2 particles, sampled for 3) subset of "
        "missing pair files, missing directory, target N above every/some stored size, "
        "size or basis differing in one file (every position), dataset absent/misnamed, "
        "metadata group or attribute absent; not-HDF5 / dataset-shape / unknown-basis "
        "files are run and recorded but not judged.  operand cases: universe size 1-3 x source "
        "N in {5,7,9,11} x source basis x construction {newFromDirectory same/other file "
        "basis, newFromPolynomial, constructor}; one source array used across reads, two "
        "interpolations per target size (up to two sizes) from its own and from the other "
        "basis, deep-copy basis changes, in-place there-and-back, solver installation and "
        "reloads.  A case is non-trivial when at least "
        "one load was judged; distinct by its enumerated coordinates and data seed.")
ASSUMPTIONS = [
    "restricted Chebyshev families (T_n-1 | T_n-x on pz, T_n-1 on pp) define the "
    "'Chebyshev' representation; 'Cardinal' coefficients are node values",
    "momentum nodes are read from the Grid object (grid maps are C17's subject)",
    "a low-order distribution for target size N_t is any combination of the first N_t-1 "
    "restricted Chebyshev functions per momentum direction",
    "malformed files outside the stated fault patterns (not HDF5, dataset shape "
    "contradicting its own metadata, unknown basis name) are recorded, not judged",
    "the stored numbers of size N_s live on the Gauss-Lobatto nodes of size N_s; for a "
    "Uniform-spaced target grid the files do not say which nodes are meant, so "
    "size-changing loads on Uniform grids are run and counted but not judged",
    "'act identically after ... interpolation' covers the array handed to an operation as "
    "well as the one returned: interpolateCollisionArray, newFromDirectory, "
    "newFromPolynomial and the read accessors leave every array, grid, particle list and "
    "file they are given observably unchanged (interpolateCollisionArray says so in its "
    "source: 'to avoid modifying the input'); changeBasis is documented to work in place on "
    "its own object and must leave every other array alone",
    "newFromPolynomial shares the polynomial it is given with the new array (by design): "
    "the monitor only requires that the call itself leaves the polynomial unchanged",
]
CASE_TIMEOUT = 600
CHUNK = 1
EXHAUSTIVE = {"quick": False, "thorough": False}
FLOORS = {
    "quick": {"distinct_nontrivial": 60,
              "mon": {"newFromDirectory_calls": 2000, "changeBasis_judged": 1500,
                      "interpolate_calls": 800, "exact_loads": 150,
                      "action_pairs": 4000, "independence_pairs": 500,
                      "fault_loads": 800, "snapshot_compares": 800,
                      # operand preservation (observed seeds 0-4: interpolate 2528-2681 of
                      # which Cardinal source 1123-1222, newFromDirectory 4750-4972,
                      # newFromPolynomial 6048-6400, changeBasis 9100-9587, source checks
                      # 848-979, watch compares 768-888, 64-74 operand cases)
                      "operand_checks_interpolate": 1600,
                      "operand_checks_interpolate_src_Cardinal": 700,
                      "operand_checks_interpolate_src_Chebyshev": 800,
                      "operand_checks_newFromDirectory": 3000,
                      "operand_checks_newFromPolynomial": 3900,
                      "operand_checks_changeBasis": 5900, "operand_checks_reads": 40,
                      "operand_source_checks": 550, "operand_watch_compares": 500,
                      "operand_repeat_interpolations": 70,
                      "operand_cross_basis_interpolations": 70,
                      "operand_round_trips": 40, "operand_loads_over_installed": 80},
              "cls": {"operand": 40, "operand:src=Cardinal": 20, "operand:src=Chebyshev": 20,
                      "operand:P1": 13, "operand:P2": 13, "operand:P3": 13,
                      "operand:how=dir": 15, "operand:how=dir-other": 15,
                      "operand:how=poly": 5, "operand:how=ctor": 4,
                      "P1": 10, "P2": 10, "P3": 10,
                      "fault:missing-file": 8, "fault:oversized-target": 8,
                      "fault:file-mismatch": 6, "fault:missing-content": 6,
                      "fault:all-511-subsets": 1,
                      "interp:P1": 10, "interp:P2": 10, "interp:P3": 10}},
    "thorough": {"distinct_nontrivial": 600,
                 "mon": {"newFromDirectory_calls": 30000, "changeBasis_judged": 20000,
                         "interpolate_calls": 10000, "exact_loads": 2000,
                         "action_pairs": 60000, "independence_pairs": 10000,
                         "fault_loads": 8000, "snapshot_compares": 8000,
                         # observed thorough seed 0: 39919 / 19635 / 20284 / 71828 / 94482 /
                         # 141361 / 960 / 12720 / 11520 / 1680 / 1680 / 960 / 1920
                         "operand_checks_interpolate": 20000,
                         "operand_checks_interpolate_src_Cardinal": 9000,
                         "operand_checks_interpolate_src_Chebyshev": 9000,
                         "operand_checks_newFromDirectory": 35000,
                         "operand_checks_newFromPolynomial": 45000,
                         "operand_checks_changeBasis": 70000, "operand_checks_reads": 600,
                         "operand_source_checks": 7500, "operand_watch_compares": 7000,
                         "operand_repeat_interpolations": 1000,
                         "operand_cross_basis_interpolations": 1000,
                         "operand_round_trips": 600, "operand_loads_over_installed": 1200},
                 "cls": {"operand": 600, "operand:src=Cardinal": 300,
                         "operand:src=Chebyshev": 300, "operand:P1": 200, "operand:P2": 200,
                         "operand:P3": 200, "operand:how=dir": 150, "operand:how=dir-other": 150,
                         "operand:how=poly": 150, "operand:how=ctor": 150,
                         "P1": 100, "P2": 100, "P3": 100,
                         "fault:missing-file": 80, "fault:oversized-target": 80,
                         "fault:file-mismatch": 60, "fault:missing-content": 60,
                         "fault:all-511-subsets": 4}},
}

NAMES = ["top", "gluon", "W", "Z", "higgs", "bottom"]
BASES = ("Cardinal", "Chebyshev")
STORED_N = (5, 7, 9, 11)
LFS_STUB = ("version https://git-lfs.github.com/spec/v1\n"
            "oid sha256:0000000000000000000000000000000000000000000000000000000000000000\n"
            "size 12345\n")


def worker_init():
    env.import_wallgo()
    HOOKS.install()


def _not_watchdog(exc):
    """The runner's SIGALRM watchdog must never be mistaken for the code's own failure."""
    if isinstance(exc, (KeyboardInterrupt, SystemExit)) or type(exc).__name__ == "CaseTimeout":
        raise exc


# ---------------------------------------------------------------------------- tags
def tag_block(dir_id, ua, ub, S):
    al, be, j, k = np.indices((S, S, S, S))
    return (dir_id * 100000 + ((((ua * 3 + ub) * 10 + al) * 10 + be) * 10 + j) * 10 + k
            ).astype(float)


def decode_tag(v):
    """Origin of a tagged number, or None if it is not a tag."""
    if not np.isfinite(v) or v != np.floor(v) or v < 100000 or v >= 10 ** 7:
        return None
    v = int(v)
    dir_id, r = divmod(v, 100000)
    r, k = divmod(r, 10)
    r, j = divmod(r, 10)
    r, be = divmod(r, 10)
    r, al = divmod(r, 10)
    ua, ub = divmod(r, 3)
    return {"dir": dir_id, "a": ua, "b": ub, "alpha": al, "beta": be, "j": j, "k": k}


# ------------------------------------------------------------------- directory writer
class DirSpec:
    """What the harness wrote: the oracle's only knowledge of the stored numbers."""

    def __init__(self, path, dir_id, names, N, basis, data):
        self.path = path
        self.dir_id = dir_id
        self.names = list(names)        # universe, position = tag particle index
        self.N = N
        self.basis = basis
        self.data = data                # {(ua, ub): ndarray (S,S,S,S)}

    def source_array(self, sel):
        S = self.N - 1
        C = np.zeros((len(sel), S, S, len(sel), S, S))
        for ia, ua in enumerate(sel):
            for ib, ub in enumerate(sel):
                C[ia, :, :, ib, :, :] = self.data[(ua, ub)]
        return C


def write_pair(dirpath, a, b, N, basis, block, *, dataset=True, dsname=None, meta=True,
               attrs=("Basis Size", "Basis Type"), enc="str"):
    import h5py
    fn = os.path.join(dirpath, f"collisions_{a}_{b}.hdf5")
    with h5py.File(fn, "w") as fh:
        if meta:
            m = fh.create_group("metadata")
            if "Basis Size" in attrs:
                m.attrs["Basis Size"] = np.int32(N) if enc == "bytes" else int(N)
            if "Basis Type" in attrs:
                m.attrs["Basis Type"] = np.bytes_(basis) if enc == "bytes" else basis
        if dataset:
            fh.create_dataset(dsname or f"{a}, {b}", data=block)
    return fn


def make_data(kind, dir_id, U, S, rng):
    data = {}
    for ua in range(U):
        for ub in range(U):
            if kind == "tag":
                blk = tag_block(dir_id, ua, ub, S)
            elif kind == "random":
                blk = 10 ** rng.uniform(-3, 3) * rng.standard_normal((S, S, S, S))
            else:  # mixed: tags, zero blocks, wide dynamic range inside a block
                r = rng.random()
                if r < 0.25:
                    blk = tag_block(dir_id, ua, ub, S)
                elif r < 0.45 and U > 1:
                    blk = np.zeros((S, S, S, S))
                else:
                    blk = rng.standard_normal((S, S, S, S)) * \
                        10 ** rng.uniform(-4, 4, size=(S, S, 1, 1))
            data[(ua, ub)] = np.ascontiguousarray(blk)
    return data


def build_dir(root, sub, dir_id, names, N, basis, kind, rng, enc="str"):
    path = os.path.join(root, sub)
    os.makedirs(path)
    data = make_data(kind, dir_id, len(names), N - 1, rng)
    for ua, a in enumerate(names):
        for ub, b in enumerate(names):
            write_pair(path, a, b, N, basis, data[(ua, ub)], enc=enc)
    return DirSpec(path, dir_id, names, N, basis, data)


def make_particles(names, sel):
    from WallGo import Particle
    return [Particle(names[u], u, lambda f: 0.0, lambda f: 0.0,
                     "Fermion" if u % 2 == 0 else "Boson", 12) for u in sel]


def make_grid(g, N):
    """g: {"cls","M","L","T0","spacing", ...}"""
    if g["cls"] == "Grid3Scales":
        from WallGo.grid3Scales import Grid3Scales
        return Grid3Scales(g["M"], N, g["tail"], g["tail"], g["L"], g["T0"],
                           spacing=g["spacing"])
    from WallGo.grid import Grid
    return Grid(g["M"], N, g["L"], g["T0"], g["spacing"])


def gridref(grid):
    return ref.GridRef(grid.rzValues, grid.rpValues)


# ------------------------------------------------------------- operand preservation
OPERAND_MECHS = ("interpolation-disturbs-its-source-array", "interpolation-disturbs-target-grid",
                 "operation-disturbs-another-collision-array", "load-disturbs-its-inputs",
                 "newFromPolynomial-disturbs-input-polynomial")


def accessor_action(arr):
    """Action of the array on every low-order distribution of its own grid, computed from
    what the array *says about itself* through its public accessors (numbers via
    __getitem__, which is what BoltzmannSolver reads; basis via getBasisType())."""
    C = np.array(arr[slice(None)], dtype=float)
    g = gridref(arr.grid)
    A, scale = ref.actual_action(C, g, arr.getBasisType())
    return A, scale, g


def array_state(arr):
    """Everything a user of the array can observe: (a) numbers, (b) basis/size/labels,
    (c) action on test vectors."""
    pd = arr.polynomialData
    A, scale, _ = accessor_action(arr)
    return {"coef": np.array(pd.coefficients, dtype=float, copy=True),
            "basisType": arr.basisType, "getBasisType": arr.getBasisType(),
            "pbasis": tuple(pd.basis), "size": arr.size, "getBasisSize": arr.getBasisSize(),
            "particles": list(arr.particles), "grid": arr.grid, "gridN": int(arr.grid.N),
            "gridstate": grid_state(arr.grid), "action": A, "scale": scale}


def state_diff(arr, snap):
    """None if the array is observably what it was when snapshotted, else what changed."""
    why = []
    c = np.asarray(arr.polynomialData.coefficients)
    if c.shape != snap["coef"].shape:
        why.append(f"shape {snap['coef'].shape} -> {c.shape}")
    elif not np.array_equal(c, snap["coef"]):
        nbad = int(np.sum(c != snap["coef"]))
        why.append(f"{nbad} of {c.size} stored numbers changed (largest change "
                   f"{float(np.nanmax(np.abs(c - snap['coef']))):.3e}, magnitude "
                   f"{float(np.max(np.abs(snap['coef']))):.3e})")
    lab = (arr.basisType, arr.getBasisType(), tuple(arr.polynomialData.basis))
    lab0 = (snap["basisType"], snap["getBasisType"], snap["pbasis"])
    if lab != lab0:
        why.append(f"declared basis (basisType, getBasisType(), polynomial axes) {lab0} -> {lab}")
    elif c.shape == snap["coef"].shape and not np.array_equal(c, snap["coef"]):
        why[-1] += f" while it still declares basis {arr.basisType}"
    if arr.size != snap["size"] or arr.getBasisSize() != snap["getBasisSize"]:
        why.append(f"size {snap['size']} -> {arr.size}")
    if arr.grid is not snap["grid"]:
        why.append("grid object replaced")
    elif grid_diff(arr.grid, snap["gridstate"]):
        why.append(grid_diff(arr.grid, snap["gridstate"]))
    if len(arr.particles) != len(snap["particles"]) or any(
            q is not q0 for q, q0 in zip(arr.particles, snap["particles"])):
        why.append("particle list changed")
    try:
        A, _, _ = accessor_action(arr)
        if A.shape != snap["action"].shape or not np.array_equal(A, snap["action"]):
            r = float(np.max(np.abs(A - snap["action"]))) if A.shape == snap["action"].shape \
                else math.inf
            why.append(f"its action on the low-order distributions changed by {r:.3e} "
                       f"(magnitude {float(np.max(snap['scale'])):.3e})")
    except Exception as e:  # noqa: BLE001 - an array that cannot be read any more
        _not_watchdog(e)
        why.append(f"its action can no longer be evaluated ({e!r})"[:200])
    return "; ".join(why) if why else None


_GRID_ARRAYS = ("chiValues", "rzValues", "rpValues", "xiValues", "pzValues", "ppValues")


def grid_state(grid):
    st = {"N": grid.N, "M": grid.M, "T": grid.momentumFalloffT, "L": grid.positionFalloff}
    for nm in _GRID_ARRAYS:
        st[nm] = np.array(getattr(grid, nm), copy=True)
    return st


def grid_diff(grid, st):
    for nm in ("N", "M"):
        if getattr(grid, nm) != st[nm]:
            return f"grid.{nm} {st[nm]} -> {getattr(grid, nm)}"
    if grid.momentumFalloffT != st["T"] or grid.positionFalloff != st["L"]:
        return "grid fall-off scales changed"
    for nm in _GRID_ARRAYS:
        v = np.asarray(getattr(grid, nm))
        if v.shape != st[nm].shape or not np.array_equal(v, st[nm]):
            return f"grid.{nm} changed"
    return None


def dir_state(path):
    try:
        out = []
        for fn in sorted(os.listdir(path)):
            stt = os.stat(os.path.join(path, fn))
            out.append((fn, stt.st_size, stt.st_mtime_ns))
        return out
    except OSError:
        return None


# ------------------------------------------------------------------------ hook monitors
class _Hooks:
    """Recording wrappers around the three CollisionArray entry points.  Judgement
    happens here, on the very arrays the code produced, and is stored as records that
    the driver drains after each load."""

    def __init__(self):
        self.installed = False
        self.active = False
        self.judge = True
        self.stack = []
        self.records = []
        self.mon = collections.Counter()
        self.ratios = []
        self.watched = []       # [(name, array, snapshot)]: arrays the caller keeps using

    # -- operand preservation: arrays the driver holds must survive every operation that
    #    is not documented to work in place on that very object
    def watch(self, name, arr):
        self.watched = [w for w in self.watched if w[1] is not arr]
        self.watched.append((name, arr, array_state(arr)))

    def unwatch_all(self):
        self.watched = []

    def check_watched(self, op, in_place=None, judged=None):
        for name, arr, snap in self.watched:
            if arr is in_place or arr is judged or any(arr is s_ for s_ in self.stack):
                continue        # in place by contract / judged by this or the enclosing hook
            self.mon["operand_watch_compares"] += 1
            why = state_diff(arr, snap)
            if why:
                self.records.append({
                    "mech": "operation-disturbs-another-collision-array",
                    "msg": f"{op} changed the {name} array it was not applied to: {why}",
                    "data": {"op": op, "why": why}})

    def begin(self, judge=True):
        """judge=False: calls are counted and run, nothing is decided (used where the
        property does not say what the stored nodes are: Uniform-spaced target grids)."""
        self.active = True
        self.judge = judge
        self.stack = []
        self.records = []

    def end(self):
        self.active = False
        r, self.records = self.records, []
        return r

    def drain_mon(self):
        m, self.mon = dict(self.mon), collections.Counter()
        r, self.ratios = self.ratios, []
        return m, r

    def install(self):
        if self.installed:
            return
        from WallGo import CollisionArray
        H = self
        orig_cb = CollisionArray.changeBasis
        orig_ip = CollisionArray.interpolateCollisionArray
        orig_nd = CollisionArray.newFromDirectory
        orig_np = CollisionArray.newFromPolynomial

        def changeBasis(self_, newBasisType):
            if not H.active:
                return orig_cb(self_, newBasisType)
            pre_basis = self_.basisType
            pre = np.array(self_.polynomialData.coefficients, dtype=float, copy=True)
            fixed = (self_.grid, self_.size, list(self_.particles))
            out = orig_cb(self_, newBasisType)
            H.judge_change_basis(self_, pre, pre_basis, newBasisType,
                                 "nested" if H.stack else "top")
            # documented to work in place on self: numbers and labels may change, nothing else
            H.mon["operand_checks_changeBasis"] += 1
            if out is not self_ or self_.grid is not fixed[0] or self_.size != fixed[1] or \
                    len(self_.particles) != len(fixed[2]) or \
                    any(q is not q0 for q, q0 in zip(self_.particles, fixed[2])):
                H.records.append({"mech": "basis-change-alters-more-than-basis",
                                  "msg": f"changeBasis({newBasisType!r}) changed grid, size or "
                                         f"particles of the array or did not return it",
                                  "data": {}})
            H.check_watched(f"changeBasis({pre_basis}->{newBasisType})", in_place=self_)
            return out

        def interpolateCollisionArray(srcCollision, targetGrid):
            if not H.active:
                return orig_ip(srcCollision, targetGrid)
            pre_basis = srcCollision.basisType
            pre = np.array(srcCollision.polynomialData.coefficients, dtype=float, copy=True)
            src_snap = array_state(srcCollision)
            grid_snap = grid_state(targetGrid)
            H.stack.append(srcCollision)
            n0 = len(H.records)
            try:
                out = orig_ip(srcCollision, targetGrid)
            finally:
                H.stack.pop()
                H.judge_operands_interpolate(srcCollision, src_snap, targetGrid, grid_snap)
            nested = sorted({r["mech"] for r in H.records[n0:]
                             if r["mech"] not in OPERAND_MECHS})
            H.judge_interpolate(srcCollision, pre, pre_basis, targetGrid, out, nested)
            H.check_watched(f"interpolateCollisionArray(N {srcCollision.grid.N}->{targetGrid.N})",
                            judged=srcCollision)
            return out

        def newFromDirectory(directoryPath, grid, basisType, particles, bInterpolate=True):
            if not H.active:
                return orig_nd(directoryPath, grid, basisType, particles, bInterpolate)
            H.mon["newFromDirectory_calls"] += 1
            gsnap = grid_state(grid)
            psnap = [(q, q.name, q.index) for q in particles]
            fsnap = dir_state(directoryPath)
            try:
                return orig_nd(directoryPath, grid, basisType, particles, bInterpolate)
            finally:
                H.mon["operand_checks_newFromDirectory"] += 1
                why = grid_diff(grid, gsnap)
                if why is None and (len(particles) != len(psnap) or any(
                        q is not q0 or q.name != n0_ or q.index != i0
                        for q, (q0, n0_, i0) in zip(particles, psnap))):
                    why = "the particle list handed in was changed"
                if why is None and dir_state(directoryPath) != fsnap:
                    why = "the files of the directory were changed"
                if why:
                    H.records.append({"mech": "load-disturbs-its-inputs",
                                      "msg": f"newFromDirectory(N={grid.N}, {basisType}): {why}",
                                      "data": {"why": why}})
                H.check_watched(f"newFromDirectory(N={grid.N}, {basisType})")

        def newFromPolynomial(inputPolynomial, particles):
            if not H.active:
                return orig_np(inputPolynomial, particles)
            pre = np.array(inputPolynomial.coefficients, dtype=float, copy=True)
            pre_basis = tuple(inputPolynomial.basis)
            try:
                return orig_np(inputPolynomial, particles)
            finally:
                H.mon["operand_checks_newFromPolynomial"] += 1
                post = np.asarray(inputPolynomial.coefficients)
                if post.shape != pre.shape or not np.array_equal(post, pre) \
                        or tuple(inputPolynomial.basis) != pre_basis:
                    H.records.append({"mech": "newFromPolynomial-disturbs-input-polynomial",
                                      "msg": f"newFromPolynomial changed the polynomial it was "
                                             f"given (declared basis {pre_basis} -> "
                                             f"{tuple(inputPolynomial.basis)})", "data": {}})

        changeBasis.__wrapped__ = orig_cb
        CollisionArray.changeBasis = changeBasis
        CollisionArray.interpolateCollisionArray = staticmethod(interpolateCollisionArray)
        CollisionArray.newFromDirectory = staticmethod(newFromDirectory)
        CollisionArray.newFromPolynomial = staticmethod(newFromPolynomial)
        self.installed = True

    # -- oracle at interpolateCollisionArray, operand side
    def judge_operands_interpolate(self, src, src_snap, target_grid, grid_snap):
        self.mon["operand_checks_interpolate"] += 1
        self.mon["operand_checks_interpolate_src_" + src_snap["basisType"]] += 1
        why = state_diff(src, src_snap)
        if why:
            self.records.append({
                "mech": "interpolation-disturbs-its-source-array",
                "msg": f"interpolateCollisionArray N {src_snap['gridN']}->{target_grid.N}, "
                       f"{src_snap['coef'].shape[0]} particles, source in "
                       f"{src_snap['basisType']} basis: the source array handed in is no "
                       f"longer what it was: {why}",
                "data": {"why": why, "src_basis": src_snap["basisType"],
                         "Ns": src_snap["gridN"], "Nt": int(target_grid.N)}})
        why = grid_diff(target_grid, grid_snap)
        if why:
            self.records.append({"mech": "interpolation-disturbs-target-grid",
                                 "msg": f"interpolateCollisionArray: {why}", "data": {}})

    # -- oracle at changeBasis
    def judge_change_basis(self, arr, pre, pre_basis, new_basis, ctx):
        self.mon["changeBasis_calls"] += 1
        if not self.judge:
            self.mon["changeBasis_unjudged"] += 1
            return
        post = np.asarray(arr.polynomialData.coefficients)
        if pre_basis == new_basis:
            self.mon["changeBasis_same_basis"] += 1
        else:
            self.mon["changeBasis_judged"] += 1
        labels = (arr.basisType, tuple(arr.polynomialData.basis))
        want = (new_basis, ("Array", "Cardinal", "Cardinal", "Array", new_basis, new_basis))
        if labels != want:
            self.records.append({"mech": "basis-change-label-wrong",
                                 "msg": f"after changeBasis({new_basis!r}) the array declares "
                                 f"{labels}", "data": {}})
            return
        if post.shape != pre.shape:
            self.records.append({"mech": "basis-change-alters-shape",
                                 "msg": f"{pre.shape} -> {post.shape}", "data": {}})
            return
        if pre_basis == new_basis and np.array_equal(post, pre):
            return          # same basis, same numbers: trivially the same operator
        g = gridref(arr.grid)
        E, scale = ref.expected_action(pre, g, pre_basis, g)
        A, _ = ref.actual_action(post, g, new_basis)
        res = ref.pair_residuals(E, A)
        tol = ref.action_tolerance(scale, g.kappa, 0.0)
        self._ratio("basis", res, tol)
        bad = np.argwhere(~(res <= tol))
        if len(bad):
            a, b = (int(v) for v in bad[0])
            self.records.append({
                "mech": "basis-change-alters-operator-action",
                "msg": f"changeBasis {pre_basis}->{new_basis} (N={g.N}, "
                       f"{pre.shape[0]} particles, {ctx}): action on the basis distributions "
                       f"changed, pair ({a},{b}) residual {res[a, b]:.3e} > tol "
                       f"{tol[a, b]:.3e} (scale {scale[a, b]:.3e})",
                "data": {"N": g.N, "P": int(pre.shape[0]), "from": pre_basis,
                         "to": new_basis, "resid": float(res[a, b]),
                         "tol": float(tol[a, b]), "ctx": ctx}})

    # -- oracle at interpolateCollisionArray
    def judge_interpolate(self, src, pre, pre_basis, target_grid, out, nested=()):
        if not self.judge:
            self.mon["interpolate_unjudged"] += 1
            return
        self.mon["interpolate_calls"] += 1
        gs, gt = gridref(src.grid), gridref(target_grid)
        P, T = pre.shape[0], gt.N - 1
        C = np.asarray(out.polynomialData.coefficients)
        info = {"Ns": gs.N, "Nt": gt.N, "P": int(P), "src_basis": pre_basis,
                "out_basis": out.basisType}
        if C.shape != (P, T, T, P, T, T):
            self.records.append({"mech": "interp-wrong-shape", "msg": f"interpolated array "
                                 f"has shape {C.shape}, expected {(P, T, T, P, T, T)}",
                                 "data": info})
            return
        if out.basisType not in BASES or tuple(out.polynomialData.basis) != (
                "Array", "Cardinal", "Cardinal", "Array", out.basisType, out.basisType):
            self.records.append({"mech": "interp-basis-label-wrong",
                                 "msg": f"interpolated array declares {out.basisType} / "
                                 f"{out.polynomialData.basis}", "data": info})
            return
        E, scale = ref.expected_action(pre, gs, pre_basis, gt)
        A, _ = ref.actual_action(C, gt, out.basisType)
        res = ref.pair_residuals(E, A)
        tol = ref.action_tolerance(scale, gs.kappa, gt.kappa)
        self._ratio("interp", res, tol)
        bad = np.argwhere(~(res <= tol))
        if not len(bad):
            return
        if nested:
            # a basis change inside this very call was already found at fault
            self.mon["interp_mismatch_attributed_to_nested_basis_change"] += 1
            return
        a, b = (int(v) for v in bad[0])
        info.update(resid=float(res[a, b]), tol=float(tol[a, b]), pair=[a, b],
                    rel=float(res[a, b] / max(scale[a, b], 1e-300)))
        # mechanism hypothesis: memory order (alpha,beta,a,b,j,k) reinterpreted as
        # (a,alpha,beta,b,j,k) without transposing the particle axes
        mech = "interp-action-mismatch"
        if P > 1:
            un = C.reshape(T, T, P, P, T, T).transpose(2, 0, 1, 3, 4, 5)
            A2, _ = ref.actual_action(np.ascontiguousarray(un), gt, out.basisType)
            if np.all(ref.pair_residuals(E, A2) <= tol):
                mech = "interp-particle-axes-not-transposed"
        self.records.append({
            "mech": mech,
            "msg": f"interpolateCollisionArray N {gs.N}->{gt.N}, {P} particles, basis "
                   f"{pre_basis}: pair ({a},{b}) differs from Lagrange interpolation of the "
                   f"source operator's action by {res[a, b]:.3e} (tol {tol[a, b]:.3e}, "
                   f"relative to magnitude {info['rel']:.2e})"
                   + ("; the result equals the reference once its memory is re-read as "
                      "(alpha,beta,a,b,j,k)" if mech.endswith("transposed") else ""),
            "data": info})

    def _ratio(self, what, res, tol):
        r = float(np.max(res / tol))
        self.ratios.append((what, r))


HOOKS = _Hooks()


# ----------------------------------------------------------------- end-to-end oracle
def verify_loaded(arr, spec: DirSpec, sel, grid, req, hook_records, mon, ratios,
                  judge_action=True):
    """Judge the array a successful load installed.  Returns (viol, summary)."""
    viol = []
    P, T = len(sel), grid.N - 1
    what = (f"dir N={spec.N} {spec.basis} -> grid N={grid.N} {req}, particles "
            f"{[spec.names[u] for u in sel]}")
    if arr is None:
        return [{"mech": "load-installs-nothing", "msg": f"{what}: loadCollisions returned "
                 "without installing an array", "data": {}}], {}
    C = np.asarray(arr.polynomialData.coefficients)
    if C.shape != (P, T, T, P, T, T):
        return [{"mech": "load-array-wrong-shape", "msg": f"{what}: installed array has "
                 f"shape {C.shape}", "data": {}}], {}
    if arr.basisType != req or tuple(arr.polynomialData.basis) != (
            "Array", "Cardinal", "Cardinal", "Array", req, req):
        viol.append({"mech": "load-basis-label-wrong", "msg": f"{what}: installed array "
                     f"declares basis {arr.basisType} / {arr.polynomialData.basis}",
                     "data": {}})
        return viol, {}
    Cs = spec.source_array(sel)
    # (1) exact numbers
    if grid.N == spec.N and req == spec.basis:
        mon["exact_loads"] += 1
        mon["exact_entries"] += C.size
        if not np.array_equal(C, Cs):
            bad = np.argwhere(C != Cs)
            i = tuple(int(v) for v in bad[0])
            got, want = float(C[i]), float(Cs[i])
            swapped = P > 1 and np.array_equal(C.transpose(3, 1, 2, 0, 4, 5), Cs)
            mech = "load-pair-blocks-transposed" if swapped else "load-values-not-as-stored"
            viol.append({"mech": mech, "msg": f"{what}: {len(bad)} of {C.size} entries "
                         f"differ from the stored numbers; first at [a,alpha,beta,b,j,k]={i}:"
                         f" got {got!r} (origin {decode_tag(got)}), stored {want!r}",
                         "data": {"index": list(i), "got": got, "want": want,
                                  "origin": decode_tag(got)}})
    # (2) operator action on all low-order distributions, per ordered pair
    if not judge_action:
        mon["loads_action_unjudged"] += 1
        return viol, {"unjudged": True}
    gs = ref.GridRef(*_nodes_for(grid, spec.N))
    gt = gridref(grid)
    E, scale = ref.expected_action(Cs, gs, spec.basis, gt)
    A, _ = ref.actual_action(C, gt, req)
    res = ref.pair_residuals(E, A)
    tol = ref.action_tolerance(scale, gs.kappa, gt.kappa)
    mon["action_pairs"] += P * P
    mon["action_distributions"] += P * P * T * T
    ratios.append(("load", float(np.max(res / tol))))
    bad = np.argwhere(~(res <= tol))
    summary = {"max_ratio": float(np.max(res / tol)), "kappa": gs.kappa + gt.kappa}
    if len(bad):
        a, b = (int(v) for v in bad[0])
        hook_mechs = sorted({r["mech"] for r in hook_records if r["mech"] not in OPERAND_MECHS})
        summary["end_to_end_mismatch"] = True
        if hook_mechs:
            # already located at a hook; do not report the same defect under a second name
            summary["attributed_to"] = hook_mechs
        elif not viol:
            mech = "load-action-mismatch"
            if P > 1:
                A2, _ = ref.actual_action(np.ascontiguousarray(C.transpose(3, 1, 2, 0, 4, 5)),
                                          gt, req)
                if np.all(ref.pair_residuals(E, A2) <= tol):
                    mech = "load-pair-blocks-transposed"
            viol.append({"mech": mech,
                         "msg": f"{what}: installed operator acts differently from the "
                         f"stored one on low-order distributions, pair ({a},{b}) residual "
                         f"{res[a, b]:.3e} > tol {tol[a, b]:.3e}; no basis change or "
                         f"interpolation call was at fault", "data":
                         {"pair": [a, b], "resid": float(res[a, b]), "tol": float(tol[a, b])}})
    return viol, summary


_NODE_CACHE = {}


def _nodes_for(grid, N):
    """Momentum nodes of the grid the stored data live on: same class/spacing as the
    target grid, size N (this is what 'stored grid size' means)."""
    if N == grid.N:
        return grid.rzValues, grid.rpValues
    key = (grid.spacing, N)
    if key not in _NODE_CACHE:
        if grid.spacing == "Spectral":
            rz = -np.cos(np.arange(1, N) * np.pi / N)
            rp = -np.cos(np.arange(0, N - 1) * np.pi / (N - 1))
        else:
            rz = np.linspace(-1.0 + 2 / N, 1.0, num=N - 1, endpoint=False)
            rp = np.linspace(-1, 1, num=N - 1, endpoint=False)
        _NODE_CACHE[key] = (rz, rp)
    return _NODE_CACHE[key]


# ------------------------------------------------------------------------- generators
def _grid_cfg(rng, plain=False):
    cls = "Grid" if plain or rng.random() < 0.7 else "Grid3Scales"
    L = float(10 ** rng.uniform(-2, 1))
    return {"cls": cls, "M": int(rng.integers(3, 9)), "L": L,
            "tail": float(L * rng.uniform(3, 10)), "T0": float(10 ** rng.uniform(-1, 2.5)),
            "spacing": "Spectral" if plain or rng.random() < 0.8 else "Uniform"}


def generate(tier, seed):
    rng = np.random.default_rng(14000 + seed)
    cases = []
    # every one of the 511 subsets of missing files for three particles (longest cases,
    # scheduled first)
    for i in range(1 if tier == "quick" else 6):
        cases.append({"kind": "fault", "P": 3, "N": 5, "req": BASES[(i + seed) % 2], "NsA": 5,
                      "NsC": 7 if i % 3 == 0 else 5, "NsB": 5, "basisA": BASES[i % 2],
                      "basisB": BASES[(i // 2 + seed) % 2], "basisC": BASES[(i + 1) % 2],
                      "grid": _grid_cfg(rng, plain=True), "missing": "all",
                      "allpos": False, "s": int(rng.integers(1 << 30))})
    reps = 1 if tier == "quick" else 12
    for rep in range(reps):
        for U, Ns, stored in itertools.product((1, 2, 3), STORED_N, BASES):
            for kind in ("tag", "random", "mixed"):
                if kind == "mixed" and tier == "quick" and rng.random() < 0.5:
                    continue
                cases.append({"kind": "load", "U": U, "Ns": Ns, "stored": stored,
                              "data": kind, "grid": _grid_cfg(rng, plain=(rep == 0 and
                                                                         kind == "tag")),
                              "enc": "str" if rng.random() < 0.5 else "bytes",
                              "full": bool(tier == "thorough" and rng.random() < 0.3),
                              "s": int(rng.integers(1 << 30))})
    nf = 1 if tier == "quick" else 14
    for rep in range(nf):
        for P, N in itertools.product((1, 2, 3), (5, 7, 9)):
            for req in BASES:
                cases.append({"kind": "fault", "P": P, "N": N, "req": req,
                              "NsA": int(rng.choice([n for n in STORED_N if n >= N])),
                              "NsC": int(rng.choice([n for n in STORED_N if n >= N])),
                              "NsB": int(rng.choice([n for n in STORED_N if n >= N])),
                              "basisA": str(rng.choice(BASES)),
                              "basisB": str(rng.choice(BASES)),
                              "basisC": str(rng.choice(BASES)),
                              "grid": _grid_cfg(rng, plain=True),
                              "missing": "sample", "allpos": tier == "thorough",
                              "s": int(rng.integers(1 << 30))})
    # operand cases: own random stream (the older kinds keep their draws)
    orng = np.random.default_rng(14100 + seed)
    for rep in range(1 if tier == "quick" else 10):
        for U, Ns, basis in itertools.product((1, 2, 3), (5, 7, 9, 11), BASES):
            for how in ("dir", "dir-other", "poly", "ctor"):
                if tier == "quick" and how in ("poly", "ctor") and orng.random() < 0.5:
                    continue
                cases.append({"kind": "operand", "U": U, "Ns": Ns, "basis": basis, "how": how,
                              "data": str(orng.choice(["tag", "random", "mixed"])),
                              "grid": _grid_cfg(orng), "s": int(orng.integers(1 << 30))})
                cases[-1]["grid"]["spacing"] = "Spectral"
    for i, c in enumerate(cases):
        c["i"] = i
    return cases


def _selections(U, rng, full):
    sels = [(u,) for u in range(U)]
    pairs = list(itertools.permutations(range(U), 2))
    triples = list(itertools.permutations(range(U), 3))
    if full or U <= 2:
        return sels + pairs + triples
    # U == 3, reduced: every unordered pair once in random order + one reversed, two triples
    chosen = []
    for a, b in itertools.combinations(range(3), 2):
        chosen.append((a, b) if rng.random() < 0.5 else (b, a))
    chosen.append(chosen[int(rng.integers(3))][::-1])
    t = [triples[0], triples[int(rng.integers(1, 6))]]
    return sels + chosen + t


# ------------------------------------------------------------------------- load case
def _case_load(case):
    from WallGo import BoltzmannSolver
    rng = np.random.default_rng(case["s"])
    U, Ns, stored = case["U"], case["Ns"], case["stored"]
    names = [NAMES[i] for i in rng.permutation(len(NAMES))[:U]]
    mon = collections.Counter()
    ratios = []
    viol = []
    cls = set()
    obs = {"names": names, "loads": 0, "mismatch_loads": 0, "attributed": {}}
    wd = tempfile.mkdtemp(prefix="wgC14_")
    try:
        spec = build_dir(wd, "D", int(rng.integers(1, 90)), names, Ns, stored, case["data"],
                         rng, enc=case["enc"])
        mon["directories_written"] += 1
        sels = _selections(U, rng, case.get("full", False))
        blocks = collections.defaultdict(list)      # (Nt, req, ua, ub) -> [(sel, block, flagged)]
        seen_mech = set()
        for req in BASES:
            for Nt in range(3, Ns + 1, 2):
                grid = make_grid(case["grid"], Nt)
                for sel in sels:
                    solver = BoltzmannSolver(grid, BASES[int(rng.integers(2))], req)
                    solver.updateParticleList(make_particles(names, sel))
                    # which nodes the stored numbers live on is only defined by the
                    # property for the collocation grid; on a Uniform target grid a
                    # size-changing load is run and counted, not judged
                    judged = not (Nt < Ns and case["grid"]["spacing"] == "Uniform")
                    HOOKS.begin(judge=judged)
                    exc = None
                    try:
                        solver.loadCollisions(pathlib.Path(spec.path))
                    except Exception as e:  # noqa: BLE001 - the code's failure is the datum
                        _not_watchdog(e)
                        exc = e
                    recs = HOOKS.end()
                    obs["loads"] += 1
                    P = len(sel)
                    cls.add(f"P{P}")
                    if Nt < Ns and judged:
                        cls.add(f"interp:P{P}")
                    if exc is not None:
                        viol.append({"mech": f"load-valid-directory-raises-{type(exc).__name__}",
                                     "msg": f"complete directory (N={Ns}, {stored}) -> grid "
                                     f"N={Nt} {req}, {P} particles raised {exc!r}"[:400],
                                     "data": {}})
                        continue
                    v, summ = verify_loaded(solver.collisionArray, spec, sel, grid, req,
                                            recs, mon, ratios, judge_action=judged)
                    flagged = bool(v or recs or summ.get("end_to_end_mismatch"))
                    if summ.get("end_to_end_mismatch"):
                        obs["mismatch_loads"] += 1
                        for m in summ.get("attributed_to", []):
                            obs["attributed"][m] = obs["attributed"].get(m, 0) + 1
                    for r in list(recs) + v:
                        # one witness per mechanism and case is enough in the report
                        if r["mech"] not in seen_mech:
                            seen_mech.add(r["mech"])
                            r = dict(r)
                            r["data"] = dict(r.get("data", {}), sel=list(sel), Nt=Nt, req=req)
                            viol.append(r)
                        obs.setdefault("viol_counts", {})
                        obs["viol_counts"][r["mech"]] = obs["viol_counts"].get(r["mech"], 0) + 1
                    C = solver.collisionArray.polynomialData.coefficients
                    if judged and C.shape == (P, Nt - 1, Nt - 1, P, Nt - 1, Nt - 1):
                        for ia, ua in enumerate(sel):
                            for ib, ub in enumerate(sel):
                                blocks[(Nt, req, ua, ub)].append(
                                    (sel, np.array(C[ia, :, :, ib, :, :]), flagged,
                                     summ.get("kappa", 2.0)))
        # (3) a pair's block does not depend on which other particles are present
        worst = 0.0
        for (Nt, req, ua, ub), lst in blocks.items():
            clean = [x for x in lst if not x[2]]
            if len(lst) != len(clean):
                mon["independence_skipped_(load_already_flagged)"] += len(lst) - len(clean)
            if len(clean) < 2:
                continue
            sel0, b0, _, kap = clean[0]
            sc = float(np.max(np.abs(b0)))
            for sel1, b1, _, _ in clean[1:]:
                mon["independence_pairs"] += 1
                d = float(np.max(np.abs(b1 - b0)))
                tol = IND_K * ref.EPS * kap * sc + 1e-300
                worst = max(worst, d / tol)
                if not d <= tol:
                    m = "pair-block-depends-on-other-particles"
                    if m not in seen_mech:
                        seen_mech.add(m)
                        viol.append({"mech": m, "msg": f"block of pair ({names[ua]},"
                                     f"{names[ub]}) at N {Ns}->{Nt}, {stored}->{req} differs "
                                     f"by {d:.3e} (magnitude {sc:.3e}) between particle lists "
                                     f"{[names[u] for u in sel0]} and "
                                     f"{[names[u] for u in sel1]}",
                                     "data": {"Nt": Nt, "req": req, "diff": d, "scale": sc}})
        obs["independence_worst_ratio"] = worst
        # (4) explicit round trips through changeBasis on a loaded array (hook judges)
        grid = make_grid(case["grid"], Ns)
        solver = BoltzmannSolver(grid, "Cardinal", stored)
        solver.updateParticleList(make_particles(names, tuple(range(U))))
        HOOKS.begin()
        arr = None
        try:
            solver.loadCollisions(pathlib.Path(spec.path))
            arr = copy.deepcopy(solver.collisionArray)
        except Exception as e:  # noqa: BLE001 - same load as above, already reported there
            _not_watchdog(e)
        try:
            other = BASES[1 - BASES.index(stored)]
            for b in (other, other, stored, other, stored) if arr is not None else ():
                arr.changeBasis(b)
        except Exception as e:  # noqa: BLE001
            _not_watchdog(e)
            viol.append({"mech": f"basis-change-raises-{type(e).__name__}",
                         "msg": f"changeBasis round trip raised {e!r}"[:300], "data": {}})
        for r in HOOKS.end():
            if r["mech"] not in seen_mech:
                seen_mech.add(r["mech"])
                viol.append(r)
    finally:
        shutil.rmtree(wd, ignore_errors=True)
    hm, hr = HOOKS.drain_mon()
    mon.update(hm)
    ratios += hr
    obs["ratio_max"] = _ratio_summary(ratios)
    obs["ratio_hist"] = _ratio_hist(ratios)
    key = (f"load:{U}:{Ns}:{stored}:{case['data']}:{case['grid']['cls']}:"
           f"{case['grid']['spacing']}:{case['enc']}:{case['s'] % 9973}")
    return {"key": key, "cls": sorted(cls) + [f"data:{case['data']}",
                                              f"spacing:{case['grid']['spacing']}",
                                              f"gridcls:{case['grid']['cls']}"],
            "nontrivial": obs["loads"] > 0, "obs": obs, "viol": viol, "mon": dict(mon)}


# Independence tolerance: IND_K * eps * (kappa_s + kappa_t) * max|block|, i.e. the same
# propagated form as the action tolerance, in coefficient space.  Observed on the tree
# with the axis-order repair (seeds 0-4 quick, 0-1 thorough, >2e5 comparisons): the
# blocks were bit-identical every time, so this only has to leave room for an
# implementation whose reductions depend on the array shape; a block that picks up
# anything from another pair differs by O(max|block|), >= 1e11 tolerances.
IND_K = 64.0


def _ratio_summary(ratios):
    out = {}
    for w, r in ratios:
        out[w] = max(out.get(w, 0.0), r)
    return out


def _ratio_hist(ratios):
    """log10(residual/tolerance) histogram, per comparison family."""
    h = {}
    for w, r in ratios:
        b = "exact0" if r == 0 else str(int(math.floor(math.log10(r)))) if np.isfinite(r) \
            else "nonfinite"
        h.setdefault(w, {})
        h[w][b] = h[w].get(b, 0) + 1
    return h


# ------------------------------------------------------------------------ fault case
EXPECTED = "CollisionLoadError"


def _snapshot(arr):
    if arr is None:
        return None
    return {"obj": arr, "poly": arr.polynomialData,
            "coef_obj": arr.polynomialData.coefficients,
            "coef": np.array(arr.polynomialData.coefficients, copy=True),
            "basisType": arr.basisType, "pbasis": tuple(arr.polynomialData.basis),
            "particles": list(arr.particles), "size": arr.size}


def _same_state(solver, snap):
    """None if the installed array is the snapshotted object with unchanged contents."""
    cur = solver.collisionArray
    if snap is None:
        return None if cur is None else "an array was installed where none had been"
    if cur is not snap["obj"]:
        return ("solver.collisionArray is now " +
                ("None" if cur is None else "a different object"))
    if cur.polynomialData is not snap["poly"]:
        return "polynomialData object replaced"
    c = np.asarray(cur.polynomialData.coefficients)
    if c.shape != snap["coef"].shape or not np.array_equal(c, snap["coef"]):
        return "coefficients changed"
    if cur.basisType != snap["basisType"] or tuple(cur.polynomialData.basis) != snap["pbasis"]:
        return "declared basis changed"
    if list(cur.particles) != snap["particles"] or cur.size != snap["size"]:
        return "particle list / size changed"
    return None


def _link_dir(root, sub, src: DirSpec, skip=()):
    path = os.path.join(root, sub)
    os.makedirs(path)
    for a in src.names:
        for b in src.names:
            if (a, b) in skip:
                continue
            fn = f"collisions_{a}_{b}.hdf5"
            os.symlink(os.path.join(src.path, fn), os.path.join(path, fn))
    return path


def _fault_list(case, rng, names):
    P, N, NsB = case["P"], case["N"], case["NsB"]
    pairs = [(a, b) for a in names for b in names]
    nfile = len(pairs)
    faults = []
    masks = list(range(1, 2 ** nfile))
    if case["missing"] != "all" and nfile > 4:
        keep = {1 << i for i in range(nfile)} | {2 ** nfile - 1}
        keep |= {int(m) for m in rng.choice(masks, size=30, replace=False)}
        masks = sorted(keep)
    for m in masks:
        faults.append({"kind": "missing-file", "sub": "subset", "mask": int(m)})
    faults.append({"kind": "missing-file", "sub": "directory-absent"})
    small = [n for n in (3, 5, 7) if n < N]
    faults.append({"kind": "oversized-target", "sub": "all-files",
                   "Nsmall": int(rng.choice(small))})
    if case["allpos"] or nfile <= 4:
        positions = list(range(nfile))
    else:
        positions = sorted({0, nfile - 1, int(rng.integers(1, nfile - 1))})
    other_sizes = [n for n in STORED_N + (13,) if n >= N and n != NsB]
    for p in positions:
        if nfile > 1:
            faults.append({"kind": "oversized-target", "sub": "one-file", "pos": p,
                           "Nsmall": int(rng.choice(small))})
            faults.append({"kind": "file-mismatch", "sub": "size", "pos": p,
                           "Nother": int(rng.choice(other_sizes))})
            faults.append({"kind": "file-mismatch", "sub": "basis", "pos": p})
        faults.append({"kind": "missing-content", "sub": "dataset-absent", "pos": p})
        if nfile > 1:
            faults.append({"kind": "missing-content", "sub": "dataset-misnamed", "pos": p})
        faults.append({"kind": "missing-content", "sub": "metadata-group-absent", "pos": p})
        faults.append({"kind": "missing-content", "sub": "attr-Basis Size-absent", "pos": p})
        faults.append({"kind": "missing-content", "sub": "attr-Basis Type-absent", "pos": p})
    p = positions[int(rng.integers(len(positions)))]
    faults.append({"kind": "unjudged", "sub": "not-hdf5", "pos": p})
    faults.append({"kind": "unjudged", "sub": "dataset-shape-contradicts-metadata", "pos": p})
    faults.append({"kind": "unjudged", "sub": "unknown-basis-name", "pos": p})
    order = rng.permutation(len(faults))
    return [faults[i] for i in order], pairs


def _materialise_fault(wd, idx, f, B: DirSpec, pairs, rng):
    """Directory realising fault f, derived from the complete directory B."""
    sub = f"F{idx}"
    if f["sub"] == "directory-absent":
        return os.path.join(wd, sub, "does-not-exist")
    if f["sub"] == "subset":
        skip = [pairs[i] for i in range(len(pairs)) if f["mask"] >> i & 1]
        return _link_dir(wd, sub, B, skip=skip)
    S_B = B.N - 1
    if f["sub"] == "all-files":
        path = os.path.join(wd, sub)
        os.makedirs(path)
        S = f["Nsmall"] - 1
        for a, b in pairs:
            write_pair(path, a, b, f["Nsmall"], B.basis, rng.standard_normal((S,) * 4))
        return path
    a, b = pairs[f["pos"]]
    path = _link_dir(wd, sub, B, skip=[(a, b)])
    ua, ub = B.names.index(a), B.names.index(b)
    blk = B.data[(ua, ub)]
    if f["sub"] == "one-file":
        S = f["Nsmall"] - 1
        write_pair(path, a, b, f["Nsmall"], B.basis, rng.standard_normal((S,) * 4))
    elif f["sub"] == "size":
        S = f["Nother"] - 1
        write_pair(path, a, b, f["Nother"], B.basis, rng.standard_normal((S,) * 4))
    elif f["sub"] == "basis":
        write_pair(path, a, b, B.N, BASES[1 - BASES.index(B.basis)], blk)
    elif f["sub"] == "dataset-absent":
        write_pair(path, a, b, B.N, B.basis, blk, dataset=False)
    elif f["sub"] == "dataset-misnamed":
        write_pair(path, a, b, B.N, B.basis, blk, dsname=f"{b}, {a}" if a != b else f"{a},{b}")
    elif f["sub"] == "metadata-group-absent":
        write_pair(path, a, b, B.N, B.basis, blk, meta=False)
    elif f["sub"].startswith("attr-"):
        missing = f["sub"][5:-7]
        write_pair(path, a, b, B.N, B.basis, blk,
                   attrs=tuple(x for x in ("Basis Size", "Basis Type") if x != missing))
    elif f["sub"] == "not-hdf5":
        with open(os.path.join(path, f"collisions_{a}_{b}.hdf5"), "w") as fh:
            fh.write(LFS_STUB)
    elif f["sub"] == "dataset-shape-contradicts-metadata":
        S = S_B + 2
        write_pair(path, a, b, B.N, B.basis, rng.standard_normal((S,) * 4))
    elif f["sub"] == "unknown-basis-name":
        write_pair(path, a, b, B.N, "Legendre", blk)
    else:
        raise ValueError(f["sub"])
    return path


def _case_fault(case):
    from WallGo import BoltzmannSolver
    rng = np.random.default_rng(case["s"])
    P, N, req = case["P"], case["N"], case["req"]
    names = [NAMES[i] for i in rng.permutation(len(NAMES))[:P]]
    sel = tuple(range(P))
    mon = collections.Counter()
    ratios = []
    viol = []
    seen = set()
    cls = {f"P{P}"}
    obs = {"names": names, "faults": 0, "exceptions": {}, "unjudged": {}, "ok_loads": 0}

    def add(v):
        obs.setdefault("viol_counts", {})
        obs["viol_counts"][v["mech"]] = obs["viol_counts"].get(v["mech"], 0) + 1
        if v["mech"] not in seen:
            seen.add(v["mech"])
            viol.append(v)

    wd = tempfile.mkdtemp(prefix="wgC14_")
    try:
        A = build_dir(wd, "A", 1, names, case["NsA"], case["basisA"], "tag", rng)
        Cd = build_dir(wd, "C", 2, names, case["NsC"], case["basisC"], "tag", rng,
                       enc="bytes")
        B = build_dir(wd, "B", 3, names, case["NsB"], case["basisB"], "tag", rng)
        mon["directories_written"] += 3
        grid = make_grid(case["grid"], N)
        solver = BoltzmannSolver(grid, "Cardinal", req)
        solver.updateParticleList(make_particles(names, sel))
        faults, pairs = _fault_list(case, rng, names)
        if case["missing"] == "all":
            cls.add("fault:all-511-subsets")
        verified = {}            # dir_id -> coefficients verified by the oracle

        def ok_load(spec):
            HOOKS.begin()
            exc = None
            try:
                solver.loadCollisions(pathlib.Path(spec.path))
            except Exception as e:  # noqa: BLE001
                _not_watchdog(e)
                exc = e
            recs = HOOKS.end()
            obs["ok_loads"] += 1
            mon["ok_loads_in_sequences"] += 1
            if exc is not None:
                add({"mech": f"load-valid-directory-raises-{type(exc).__name__}",
                     "msg": f"valid directory after a failed load raised {exc!r}"[:300],
                     "data": {}})
                return
            arr = solver.collisionArray
            C = None if arr is None else np.asarray(arr.polynomialData.coefficients)
            if spec.dir_id in verified and C is not None and \
                    C.shape == verified[spec.dir_id].shape and \
                    np.array_equal(C, verified[spec.dir_id]) and arr.basisType == req:
                mon["ok_loads_bit_identical_to_verified"] += 1
                return
            v, summ = verify_loaded(arr, spec, sel, grid, req, recs, mon, ratios)
            for r in list(recs) + v:
                add(r)
            if not v and not recs and not summ.get("end_to_end_mismatch"):
                verified[spec.dir_id] = np.array(C, copy=True)

        oks = [A, Cd]
        turn = 0
        virgin = bool(rng.random() < 0.5)
        if not virgin:
            ok_load(oks[turn % 2])
            turn += 1
        for idx, f in enumerate(faults):
            path = _materialise_fault(wd, idx, f, B, pairs, rng)
            mon["directories_written"] += 1
            snap = _snapshot(solver.collisionArray)
            HOOKS.begin()
            exc = None
            try:
                solver.loadCollisions(pathlib.Path(path))
            except BaseException as e:  # noqa: BLE001
                _not_watchdog(e)
                exc = e
            HOOKS.end()
            ename = "none" if exc is None else type(exc).__name__
            label = f"{f['kind']}/{f['sub']}"
            obs["exceptions"].setdefault(label, {})
            obs["exceptions"][label][ename] = obs["exceptions"][label].get(ename, 0) + 1
            desc = {k: v for k, v in f.items()}
            if f.get("pos") is not None:
                desc["file"] = "collisions_%s_%s.hdf5" % pairs[f["pos"]]
            if f["kind"] == "unjudged":
                mon["unjudged_fault_loads"] += 1
                cls.add("fault:unjudged")
            else:
                obs["faults"] += 1
                mon["fault_loads"] += 1
                cls.add(f"fault:{f['kind']}")
                if exc is None:
                    add({"mech": f"load-{f['kind']}-not-rejected",
                         "msg": f"{P} particles, grid N={N}: faulty directory ({desc}) was "
                         f"loaded without error", "data": {"fault": desc}})
                elif ename != EXPECTED:
                    add({"mech": f"load-{f['kind']}-raises-{ename}",
                         "msg": f"{P} particles, grid N={N}, directory B N={B.N} {B.basis}: "
                         f"fault {desc} raised {ename} ({str(exc)[:120]!r}) instead of "
                         f"CollisionLoadError", "data": {"fault": desc, "exception": ename}})
                # state clause: whatever was raised, the previous array stays
                mon["snapshot_compares"] += 1
                if exc is not None:
                    why = _same_state(solver, snap)
                    if why:
                        add({"mech": "failed-load-disturbs-installed-array",
                             "msg": f"after the failed load ({desc}, raised {ename}) {why}; "
                             f"previously installed: "
                             f"{'nothing' if snap is None else 'array of directory loaded before'}",
                             "data": {"fault": desc, "why": why}})
            if f["kind"] == "unjudged":
                obs["unjudged"][f["sub"]] = ename
            # ok(C): a complete, correct array is installed afterwards
            ok_load(oks[turn % 2])
            turn += 1
        # documented: size mismatch with interpolation disabled -> CollisionLoadError
        from WallGo import CollisionArray
        bigger = [s for s in (A, Cd, B) if s.N > N]
        if bigger:
            HOOKS.begin()
            exc = None
            try:
                CollisionArray.newFromDirectory(pathlib.Path(bigger[0].path), grid, req,
                                                make_particles(names, sel), bInterpolate=False)
            except Exception as e:  # noqa: BLE001
                _not_watchdog(e)
                exc = e
            HOOKS.end()
            mon["fault_loads"] += 1
            cls.add("fault:no-interpolation-size-mismatch")
            ename = "none" if exc is None else type(exc).__name__
            if ename != EXPECTED:
                add({"mech": "load-nointerp-mismatch-" + ("not-rejected" if exc is None
                                                          else f"raises-{ename}"),
                     "msg": f"newFromDirectory(bInterpolate=False) stored N={bigger[0].N}, "
                     f"grid N={N}: {ename}", "data": {}})
    finally:
        shutil.rmtree(wd, ignore_errors=True)
    hm, hr = HOOKS.drain_mon()
    mon.update(hm)
    ratios += hr
    obs["ratio_max"] = _ratio_summary(ratios)
    obs["ratio_hist"] = _ratio_hist(ratios)
    key = (f"fault:{P}:{N}:{req}:{case['NsA']}:{case['NsB']}:{case['NsC']}:{case['basisA']}:"
           f"{case['basisB']}:{case['basisC']}:{case['missing']}:{case['s'] % 9973}")
    return {"key": key, "cls": sorted(cls), "nontrivial": obs["faults"] > 0, "obs": obs,
            "viol": viol, "mon": dict(mon)}


# ---------------------------------------------------------------------- operand case
class _SourceLost(Exception):
    """The caller's source array was found disturbed: the case ends there."""


def _case_operand(case):
    """A caller builds ONE source array, keeps it, and goes on using it after every
    operation the class offers: read accessors, interpolation (twice, to several sizes, in
    both bases), basis change of a copy, basis change of the array itself there and back,
    newFromPolynomial on its polynomial, installation in a BoltzmannSolver followed by a
    further load.  The hooks judge every call (result and operands); the driver judges
    the source against its first snapshot where nothing is documented to work in place,
    and through its action where it was taken to the other basis and back."""
    from WallGo import BoltzmannSolver, CollisionArray
    from WallGo.polynomial import Polynomial
    rng = np.random.default_rng(case["s"])
    U, Ns, basis, how = case["U"], case["Ns"], case["basis"], case["how"]
    other = BASES[1 - BASES.index(basis)]
    names = [NAMES[i] for i in rng.permutation(len(NAMES))[:U]]
    sel = tuple(range(U))
    mon = collections.Counter()
    ratios = []
    viol = []
    seen = set()
    obs = {"names": names, "steps": [], "viol_counts": {}}
    cls = {"operand", f"operand:P{U}", f"operand:src={basis}", f"operand:how={how}",
           f"operand:N={Ns}"}

    def add(v):
        obs["viol_counts"][v["mech"]] = obs["viol_counts"].get(v["mech"], 0) + 1
        if v["mech"] not in seen:
            seen.add(v["mech"])
            viol.append(v)

    def drain(step):
        for r in HOOKS.end():
            r = dict(r)
            r["msg"] = f"[{step}] " + r["msg"]
            add(r)
        HOOKS.begin()

    def source_intact(step, snap):
        """Driver-side judgement: the array the caller holds is what it was."""
        mon["operand_source_checks"] += 1
        why = state_diff(src, snap)
        obs["steps"].append(step)
        located = [r for r in HOOKS.records if r["mech"] in OPERAND_MECHS]
        if located and not why:
            # an operand other than the caller's source (its copy, a grid) was disturbed and
            # the hook has named it: what follows would be computed from corrupted objects
            drain(step)
            raise _SourceLost(step)
        if why:
            drain(step)
            if located:
                # the hook of the very call at fault has named it; no second name
                obs["source_lost_located_at_hook"] = sorted({r["mech"] for r in located})
            else:
                add({"mech": "source-array-not-preserved-by-" + step.split(":")[0],
                     "msg": f"after {step} the caller's source array (N={Ns}, {U} particles, "
                            f"{snap['basisType']}) is no longer what it was: {why}",
                     "data": {"step": step, "why": why}})
            # everything further in this case would be computed from a corrupted source
            raise _SourceLost(step)
        return True

    wd = tempfile.mkdtemp(prefix="wgC14_")
    try:
        file_basis = basis if how != "dir-other" else other
        spec = build_dir(wd, "D", int(rng.integers(1, 90)), names, Ns, file_basis,
                         case["data"], rng)
        mon["directories_written"] += 1
        gridS = make_grid(case["grid"], Ns)
        parts = make_particles(names, sel)
        HOOKS.unwatch_all()
        HOOKS.begin()
        # ---- the source array
        try:
            if how.startswith("dir"):
                src = CollisionArray.newFromDirectory(pathlib.Path(spec.path), gridS, basis, parts)
            else:
                poly = Polynomial(np.array(spec.source_array(sel)), gridS,
                                  ("Array", "Cardinal", "Cardinal", "Array", basis, basis),
                                  CollisionArray.AXIS_TYPES, endpoints=False)
                if how == "poly":
                    src = CollisionArray.newFromPolynomial(poly, parts)
                else:
                    src = CollisionArray(gridS, basis, parts)
                    src.polynomialData.coefficients = np.array(spec.source_array(sel))
        except _SourceLost:
            raise
        except Exception as e:  # noqa: BLE001
            _not_watchdog(e)
            HOOKS.end()
            return {"key": f"operand:{case['i']}", "cls": sorted(cls), "nontrivial": False,
                    "obs": obs, "mon": dict(mon),
                    "viol": [{"mech": f"source-construction-raises-{type(e).__name__}",
                              "msg": f"building the source array ({how}, N={Ns}, {basis}) "
                                     f"raised {e!r}"[:300], "data": {}}]}
        drain("construction")
        if src.getBasisType() != basis or src.getBasisSize() != Ns - 1:
            add({"mech": "source-construction-label-wrong",
                 "msg": f"source built as ({how}, N={Ns}, {basis}) declares "
                        f"{src.getBasisType()} / size {src.getBasisSize()}", "data": {}})
        S0 = array_state(src)
        HOOKS.watch("caller's source", src)

        # ---- 1. read accessors
        _ = (src.getBasisSize(), src.getBasisType(), src[0], src[slice(None)],
             src[0, 0, 0, 0, 0, 0])
        mon["operand_checks_reads"] += 1
        source_intact("read-accessors", S0)

        # ---- 2. interpolation, twice per target size, source in its own basis
        targets = [int(n) for n in range(3, Ns, 2)]
        if len(targets) > 2:
            targets = sorted(int(n) for n in rng.choice(targets, size=2, replace=False))
        first = {}
        for Nt in targets:
            gT = make_grid(case["grid"], Nt)
            try:
                o1 = CollisionArray.interpolateCollisionArray(src, gT)
                ok = source_intact(f"interpolation:{Ns}->{Nt}:{basis}", S0)
                o2 = CollisionArray.interpolateCollisionArray(src, gT)
                ok = source_intact(f"interpolation:{Ns}->{Nt}:{basis}:second", S0) and ok
            except _SourceLost:
                raise
            except Exception as e:  # noqa: BLE001
                _not_watchdog(e)
                add({"mech": f"interpolation-raises-{type(e).__name__}",
                     "msg": f"interpolateCollisionArray N {Ns}->{Nt} ({basis}) raised {e!r}"[:300],
                     "data": {}})
                continue
            drain(f"interpolation {Ns}->{Nt} from {basis}")
            first[Nt] = (o1, gT)
            mon["operand_repeat_interpolations"] += 1
            c1 = np.asarray(o1.polynomialData.coefficients)
            c2 = np.asarray(o2.polynomialData.coefficients)
            if ok and (c1.shape != c2.shape or not np.array_equal(c1, c2)
                       or o1.getBasisType() != o2.getBasisType()):
                add({"mech": "interpolation-not-repeatable",
                     "msg": f"two interpolations N {Ns}->{Nt} of the same unchanged source "
                            f"({basis}) gave different arrays", "data": {}})

        # ---- 3. basis change (and interpolation) of a deep copy: the original stays
        cp = copy.deepcopy(src)
        try:
            cp.changeBasis(other)
            source_intact(f"basis-change-of-a-copy:{basis}->{other}", S0)
            for Nt in targets[:1]:
                CollisionArray.interpolateCollisionArray(cp, first[Nt][1] if Nt in first
                                                         else make_grid(case["grid"], Nt))
                source_intact(f"interpolation-of-a-copy:{Ns}->{Nt}:{other}", S0)
            cp.changeBasis(basis)
            source_intact(f"basis-change-of-a-copy:{other}->{basis}", S0)
        except _SourceLost:
            raise
        except Exception as e:  # noqa: BLE001
            _not_watchdog(e)
            add({"mech": f"basis-change-raises-{type(e).__name__}",
                 "msg": f"operations on a deep copy raised {e!r}"[:300], "data": {}})
        drain("operations on a deep copy")

        # ---- 4. newFromPolynomial on the source's own polynomial (aliases it by design)
        try:
            alias = CollisionArray.newFromPolynomial(src.polynomialData, parts)
            source_intact("newFromPolynomial", S0)
            if alias.getBasisType() != basis or not np.array_equal(
                    np.asarray(alias.polynomialData.coefficients), S0["coef"]):
                add({"mech": "newFromPolynomial-result-differs-from-input",
                     "msg": f"array made from the source's polynomial declares "
                            f"{alias.getBasisType()} / holds other numbers", "data": {}})
            del alias
        except _SourceLost:
            raise
        except Exception as e:  # noqa: BLE001
            _not_watchdog(e)
            add({"mech": f"newFromPolynomial-raises-{type(e).__name__}",
                 "msg": f"newFromPolynomial(src.polynomialData) raised {e!r}"[:300], "data": {}})
        drain("newFromPolynomial")

        # ---- 5. the source itself to the other basis (in place by contract), used there,
        #         and back: judged through its action
        g = gridref(gridS)
        tol_rt = 2.0 * ref.action_tolerance(S0["scale"], g.kappa, g.kappa)
        try:
            ret = src.changeBasis(other)
            if ret is not src or src.getBasisType() != other:
                add({"mech": "basis-change-label-wrong",
                     "msg": f"src.changeBasis({other!r}) returned another object or declares "
                            f"{src.getBasisType()}", "data": {}})
            S1 = array_state(src)
            HOOKS.watch("caller's source", src)
            for Nt in targets:
                gT = first[Nt][1] if Nt in first else make_grid(case["grid"], Nt)
                o3 = CollisionArray.interpolateCollisionArray(src, gT)
                source_intact(f"interpolation:{Ns}->{Nt}:{other}", S1)
                # the same operator was interpolated before from the other representation
                if Nt in first and not seen:
                    gt = gridref(gT)
                    A1, sc1 = ref.actual_action(np.asarray(first[Nt][0].polynomialData.coefficients),
                                                gt, first[Nt][0].getBasisType())
                    A3, _ = ref.actual_action(np.asarray(o3.polynomialData.coefficients), gt,
                                              o3.getBasisType())
                    Eo, sco = ref.expected_action(S0["coef"], g, basis, gt)
                    tl = 3.0 * ref.action_tolerance(sco, g.kappa, gt.kappa)
                    res = ref.pair_residuals(A1, A3)
                    mon["operand_cross_basis_interpolations"] += 1
                    ratios.append(("interp-cross-basis", float(np.max(res / tl))))
                    if not np.all(res <= tl):
                        add({"mech": "interpolation-depends-on-source-basis",
                             "msg": f"N {Ns}->{Nt}: interpolating the source from {basis} and, "
                                    f"after src.changeBasis, from {other} gives operators whose "
                                    f"actions differ by {float(np.max(res)):.3e} (tolerance "
                                    f"{float(np.min(tl)):.3e})", "data": {}})
            src.changeBasis(basis)
            drain(f"source to {other}, interpolated there, and back")
            mon["operand_round_trips"] += 1
            A2, _, _ = accessor_action(src)
            res = ref.pair_residuals(S0["action"], A2)
            ratios.append(("round-trip", float(np.max(res / tol_rt))))
            lab = (src.basisType, src.getBasisType(), tuple(src.polynomialData.basis))
            if lab != (S0["basisType"], S0["getBasisType"], S0["pbasis"]) or \
                    not np.all(res <= tol_rt):
                add({"mech": "basis-round-trip-alters-operator-action",
                     "msg": f"source N={Ns} {basis} -> {other} -> {basis} (interpolated in "
                            f"between): declares {lab}, action moved by "
                            f"{float(np.max(res)):.3e} (tolerance {float(np.min(tol_rt)):.3e})",
                     "data": {}})
        except _SourceLost:
            raise
        except Exception as e:  # noqa: BLE001
            _not_watchdog(e)
            add({"mech": f"basis-change-raises-{type(e).__name__}",
                 "msg": f"source there-and-back raised {e!r}"[:300], "data": {}})
        drain("source there and back")

        # ---- 6. installed in a solver; a further successful load replaces it there and
        #         leaves the caller's array alone
        S2 = array_state(src)
        HOOKS.watch("caller's source", src)
        solver = BoltzmannSolver(gridS, "Cardinal", basis)
        solver.updateParticleList(parts)
        solver.setCollisionArray(src)
        if solver.collisionArray is not src:
            add({"mech": "setCollisionArray-installs-another-object",
                 "msg": "solver.collisionArray is not the array handed to setCollisionArray",
                 "data": {}})
        source_intact("setCollisionArray", S2)
        for Nt in ([Ns] + targets[-1:]):
            try:
                s2 = solver if Nt == Ns else BoltzmannSolver(make_grid(case["grid"], Nt),
                                                              "Cardinal", basis)
                if s2 is not solver:
                    s2.updateParticleList(parts)
                    s2.setCollisionArray(src)      # (wrong size for s2; it is about to reload)
                s2.loadCollisions(pathlib.Path(spec.path))
                mon["operand_loads_over_installed"] += 1
                if s2.collisionArray is src:
                    add({"mech": "load-reuses-installed-array-object",
                         "msg": "after a successful load solver.collisionArray is still the "
                                "object installed by the caller", "data": {}})
                source_intact(f"load-over-installed-array:{Nt}", S2)
            except _SourceLost:
                raise
            except Exception as e:  # noqa: BLE001
                _not_watchdog(e)
                add({"mech": f"load-valid-directory-raises-{type(e).__name__}",
                     "msg": f"loadCollisions over an installed array raised {e!r}"[:300],
                     "data": {}})
        drain("installed in a solver, further load")
        HOOKS.end()
    except _SourceLost as lost:
        obs["ended_at"] = str(lost)
        HOOKS.end()
    finally:
        HOOKS.active = False
        HOOKS.unwatch_all()
        shutil.rmtree(wd, ignore_errors=True)
    hm, hr = HOOKS.drain_mon()
    mon.update(hm)
    ratios += hr
    obs["ratio_max"] = _ratio_summary(ratios)
    obs["ratio_hist"] = _ratio_hist(ratios)
    key = (f"operand:{U}:{Ns}:{basis}:{how}:{case['data']}:{case['grid']['cls']}:"
           f"{case['s'] % 9973}")
    return {"key": key, "cls": sorted(cls),
            "nontrivial": mon["operand_source_checks"] > 0 and mon["operand_checks_interpolate"] > 0,
            "obs": obs, "viol": viol, "mon": dict(mon)}


def run_case(case):
    HOOKS.install()
    HOOKS.drain_mon()
    if case["kind"] == "load":
        return _case_load(case)
    if case["kind"] == "operand":
        return _case_operand(case)
    return _case_fault(case)


# --------------------------------------------------------------------------- evidence
def summarize(results, tier):
    hist = {}
    worst = {}
    exc = {}
    unj = {}
    vc = {}
    attributed = {}
    ind = 0.0
    for r in results:
        o = r.get("obs") or {}
        for w, h in (o.get("ratio_hist") or {}).items():
            d = hist.setdefault(w, {})
            for b, n in h.items():
                d[b] = d.get(b, 0) + n
        for w, v in (o.get("ratio_max") or {}).items():
            if isinstance(v, (int, float)):
                worst[w] = max(worst.get(w, 0.0), v)
        for lab, d in (o.get("exceptions") or {}).items():
            e = exc.setdefault(lab.split("/")[0] + "/" + lab.split("/")[1], {})
            for k, n in d.items():
                e[k] = e.get(k, 0) + n
        for k, v in (o.get("unjudged") or {}).items():
            u = unj.setdefault(k, {})
            u[v] = u.get(v, 0) + 1
        for k, n in (o.get("viol_counts") or {}).items():
            vc[k] = vc.get(k, 0) + n
        for k, n in (o.get("attributed") or {}).items():
            attributed[k] = attributed.get(k, 0) + n
        v = o.get("independence_worst_ratio")
        if isinstance(v, (int, float)):
            ind = max(ind, v)
    return {"residual_over_tolerance_log10_hist": hist,
            "residual_over_tolerance_max": worst,
            "independence_diff_over_tolerance_max": ind,
            "fault_exception_types": exc,
            "unjudged_fault_outcomes": unj,
            "violating_observations_by_mechanism": vc,
            "end_to_end_mismatches_attributed_to_hook": attributed,
            "tolerance": {"K_ACTION": ref.K_ACTION, "IND_K": IND_K,
                          "formula": "K*eps*(kappa_source+kappa_target)*abs-value bound of the "
                                     "reference computation, per ordered pair"}}
