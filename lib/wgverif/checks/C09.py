"""C09 — in a uniform plasma (or for a T-independent field potential) the wall pressure
equals the free-energy difference of the two minima; the field gradient used in that
integral is the exact derivative of the field profile.

Driver: real EOM objects built by the real WallGoManager on zoo potentials with closed-form
phases (off-equilibrium disabled).  For every wall shape the grid is re-mapped with the
real ``EOM._updateGrid`` (as ``wallPressure`` does) and the real
``EOM._intermediatePressureResults(..., temperatureProfileInput=T, velocityProfileInput=v,
multiplier=0.0)`` is called; ``multiplier=0`` makes the routine keep exactly the supplied
wall parameters (new = 0*minimiser + 1*old), which the monitor verifies on the returned
object and on the arguments of the last ``wallProfile`` call.

Monitors (harness side, nothing in /repo is touched):
  * return value of ``_intermediatePressureResults``  -> pressure oracle
        P == V(low minimum) - V(high minimum)  from the closed-form phases
  * recording wrapper on ``eom.wallProfile``           -> 40-digit mpmath tanh profile and
        its *numerically* differentiated derivative (``oracles/c09_ref.py``)
  * recording wrapper on ``potential.derivField``      -> closed-form gradient (attribution)
  * C17's passive grid invariant on every ``_updateGrid``
  * bag1 only: the public ``EOM.wallPressure(v_w, guess)`` (plasma profile solved by the
    code, wall parameters found by its own action minimisation): for a T-independent field
    potential every returned pressure must equal U(v)-U(0) whatever profile and shape the
    iteration ended on.

Sign convention read off the code: fields -> vevLowT for z -> -inf, vevHighT for z -> +inf,
chi increases with z, ``pressure = integral(weight=-dz/dchi)`` of dV/dphi.dphi/dz, i.e.
P = -[V]_{-inf}^{+inf} = V(low) - V(high), as the property states.

Tolerance of the pressure oracle, per evaluation (deviation from DESIGN recorded here):
    P is compared with V(vevLow) - V(vevHigh) evaluated (closed-form V) at the end points
    actually passed = thermo.freeEnergyLow/High(T).fieldsAtMinimum, exactly what
    wallPressure passes.  Their free-energy excess over the closed-form minima is the
    P_trace admissibility predicate (<= 1e-3 S) and recorded; observed: <= 1e-12 S for
    s >~ 0.05, up to 1e-3 S for s ~ 1e-2 because findLocalMinimum's scipy tolerance is
    absolute (C07/C11 business, not judged here).
    tau = quad_tol(rho, a_nodes) * S + 16 * fd_bound + 256 eps (S + |V|max)
  S         = int dz sum_i |dV/dphi_i dphi_i/dz| (closed form, fine trapezoid): the mass of
              the integrand.  DESIGN states the bound relative to |Delta V|; Delta V -> 0
              at T_c while the quadrature error does not, so S (>= |Delta V|) is the scale
              an accuracy model can refer to.  |Delta V|/S is recorded.
  quad_tol  = max(1e-8, 30 exp(-6 rho) + 0.03 exp(-5 a_nodes)), rho = nodes per wall width
              of the narrowest wall, a_nodes = nodes per smoothing width of the map's steps,
              both on the real grid (see quad_tol() for the calibration).  40 % of the
              evaluations use unequal tails (remap_grid).  DESIGN's flat 1e-8
              for M >= 40 holds for rho >= 3.64 only (observed <= 5.3e-10 there); a
              two-field wall with width ratio 3 and |offset| 2 at M = 40 has rho ~ 1 and an
              error of 5e-4 S on the unchanged tree: the discretisation, not a defect.
  fd_bound  = first-order rounding bound of the 4th-order stencil with the step the code
              derives from fieldValueVariationScale (exact on quartics otherwise);
              observed error <= 0.42 x (8 x bound) in the gradient monitor.
"""
from __future__ import annotations

import math

import numpy as np

from wgverif import env  # noqa: F401
from wgverif.checks import _manager as MG
from wgverif.models import potentials as P
from wgverif.oracles import c09_ref as R

PROPERTY = "C09"
RULE = ("one real WallGoManager/EOM per case on a random zoo potential (bag1: T-independent "
        "field part; poly1: one field with cubic thermal term; poly2: two-field two-step), "
        "random unit factor s in [1e-2,1e2], random signed-permutation/shift relabelling of "
        "field space in half of the cases, grid size M in {40,50,64,80,100}; per case K wall "
        "shapes: L*Tn log-uniform in [0.3,60], second width within a factor 3 of the first, "
        "offsets in [-2,2] (first offset 0 in 60 % as the solver keeps it); grid mapped by the "
        "real _updateGrid with equal tails (55 %), by the real _updateGrid as an off-equilibrium "
        "run maps it, tails mfp*gamma / mfp/gamma up to 20 L (28 %), or by a direct "
        "changePositionFalloffScale with independent tails in [lower bound, 20 L] and a displaced "
        "centre (17 %); temperature of "
        "the evaluation uniform in the common tabulated range of both phases (poly: constant "
        "profile; bag1: +-5 % iid noise or smooth ramp + noise, T+ != T-).  Every judged "
        "evaluation is non-trivial; distinct by (potential, M, shape, T).")
ASSUMPTIONS = [
    "closed-form minima and V at the minima of the zoo potentials (float64 evaluation) are the reference",
    "P_trace: an evaluation whose end points (thermo.freeEnergy*(T).fieldsAtMinimum) have a "
    "free-energy excess > 1e-3 S over the closed-form minimum is counted inadmissible (C11 domain)",
    "quadrature accuracy model max(1e-8, 30 exp(-6 rho)) S is calibrated on the unchanged tree "
    "(margins 19 and 11), the other tolerance terms are propagated rounding bounds",
    "temperatures are drawn inside the tabulated range of both phases and inside their "
    "analytic existence intervals",
    "wallPressure on bag1 is judged only when the action minimiser's final widths are within "
    "a factor 3 of those the grid was mapped to (the property quantifies over shapes resolved by the grid)",
]
CASE_TIMEOUT = 600
CHUNK = 1
MS = (40, 50, 64, 80, 100)
K_QUAD = 1e-8      # DESIGN C09 constant for resolved shapes
C_RES, B_RES = 30.0, 6.0   # under-resolved shapes: tau/S = C exp(-B rho), see quad_tol()
C_MAP, B_MAP = 0.03, 5.0   # map steps resolved by few nodes (long/unequal tails), see quad_tol()
P_TRACE = 1e-3     # admissible free-energy excess of a passed end point, in units of S
                   # (detects a phase hop; the identity itself is judged for the end points
                   # actually passed, so a slightly off-minimum end point costs nothing)


def quad_tol(rho, a_nodes=math.inf):
    """Accuracy model of the Gauss-Lobatto quadrature of a sech^2-type integrand, relative
    to the integrand mass S.  rho = wall width / largest node spacing across that wall
    (narrowest wall decides; oracles/c09_ref.resolution on the real grid's nodes).

    The integrand is analytic in a strip of half-width pi L/2, so the error falls like
    exp(-c rho).  CALIBRATION (unchanged tree; quick seeds 0-3 = 1300 evaluations, thorough
    seed 0 = 5575): for rho >= 3.2 max |P-dV|/S = 5.3e-10 (p99 1.1e-10, median 2e-13);
    for rho < 3.2 max |P-dV|/(S exp(-6 rho)) = 2.65 (quick) / 2.51 (thorough), i.e. the
    envelope does not move with the sample size.  C = 30 leaves a factor 11, the floor
    1e-8 a factor 19.  A two-field wall with width ratio 3 and |offset| 2 on M = 40 has
    rho ~ 1 (error 5e-4 S): the factor-3/|offset|<=2/M>=40 box of the property is *not*
    uniformly resolved to 1e-8, which is why the tolerance follows rho.

    Second term (added with the unequal-tail workload): the three-scale map's Jacobian
    contains smoothed steps of width aIn/aOut at chi = -+r.  With tails of 10-20 L (what an
    off-equilibrium run uses) a ~ 0.05-0.1, i.e. a_nodes = min(aIn, aOut) M / pi is 1-3
    nodes, and the Gauss-Lobatto rule sees a near-kink in dz/dchi: on the unchanged tree
    (quick seeds 0-4 + thorough seed 0, 2850 evaluations on unequal/long tails) the error
    at rho >= 2.7 falls from 2.4e-6 S (a_nodes 1.2) over 1.5e-7 (1.9), 1.2e-9 (2.7) to
    <= 4e-11 (>= 4), and exceeded the rho-only model by up to 1.6x.  With
    C_MAP exp(-B_MAP a_nodes) = 0.03 exp(-5 a_nodes) the worst err/tol is 0.065 on such
    grids (0.094 on equal-tail grids, unchanged).  Equal tails at the lower bound have
    a_nodes > 100, so the term vanishes there."""
    return max(K_QUAD, C_RES * math.exp(-B_RES * rho) + C_MAP * math.exp(-B_MAP * a_nodes))
EPS = float(np.finfo(float).eps)

FLOORS = {
    "quick": {"distinct_nontrivial": 300,
              "mon": {"pressure_evals": 300, "wallprofile_calls": 600,
                      "wallprofile_mp_points": 3000, "gradient_calls": 300,
                      "grid_updates": 300, "grid_invariant_evaluations": 300,
                      "wallPressure_calls": 8, "asymmetric_tail_evals": 90},
              "cls": {"bag1": 80, "poly1": 80, "poly2": 80, "noisy-T": 60,
                      "M=40": 30, "M=50": 30, "M=64": 30, "M=80": 30, "M=100": 30,
                      "relabelled": 60, "offset0-nonzero": 60, "asymmetric-tails": 90,
                      "grid:offEq-tails": 50, "grid:direct-tails": 25}},
    "thorough": {"distinct_nontrivial": 6000,
                 "mon": {"pressure_evals": 6000, "wallprofile_calls": 12000,
                         "wallprofile_mp_points": 60000, "gradient_calls": 6000,
                         "grid_updates": 6000, "grid_invariant_evaluations": 6000,
                         "wallPressure_calls": 100, "asymmetric_tail_evals": 1800},
                 "cls": {"bag1": 1500, "poly1": 1500, "poly2": 1500, "noisy-T": 1000,
                         "M=40": 600, "M=50": 600, "M=64": 600, "M=80": 600, "M=100": 600,
                         "relabelled": 1000, "offset0-nonzero": 1000,
                         "asymmetric-tails": 1800, "grid:offEq-tails": 1000,
                         "grid:direct-tails": 600}},
}


def worker_init():
    env.import_wallgo()
    from wgverif.oracles import c17_monitor
    c17_monitor.install()


# --------------------------------------------------------------------------- generator
def _relabel(rng, spec, nf):
    """random signed permutation + shift of field space (C08-style), applied to the spec."""
    if rng.random() < 0.5:
        return spec, False
    spec = dict(spec)
    spec["signs"] = [float(v) for v in rng.choice([-1.0, 1.0], size=nf)]
    if nf == 2 and rng.random() < 0.5:
        spec["perm"] = [1, 0]
    spec["shift"] = [float(v) for v in rng.uniform(-1.5, 1.5, size=nf)]
    return spec, True


def generate(tier, seed):
    rng = np.random.default_rng(9000 + seed)
    ncase, nshape = (45, 8) if tier == "quick" else (420, 15)
    cases = []
    fams = ("bag1", "poly1", "poly2")
    for i in range(ncase):
        fam = fams[i % 3]
        spec = getattr(P, "random_" + fam)(rng)
        if i % 5 == 3:
            # extreme units (T_n ~ 1e4 or 1e-4 numerically, e.g. a TeV-scale transition in GeV
            # or an MeV-scale one in TeV): absolute tolerances on lengths hidden in the code
            # only bite when the wall is thinner than them in absolute terms
            spec["s"] = float(10 ** (rng.choice([-1.0, 1.0]) * rng.uniform(3.3, 4.3)))
        nf = 2 if fam == "poly2" else 1
        spec, rel = _relabel(rng, spec, nf)
        cases.append({"i": i, "family": fam, "spec": spec, "relabelled": rel,
                      "M": int(MS[(i // 3) % len(MS)]), "nshape": nshape,
                      "wallPressure": bool(fam == "bag1" and (i // 3) % (1 if tier == "quick" else 3) == 0),
                      "s": int(rng.integers(1 << 30))})
    return cases


# ----------------------------------------------------------------------------- helpers
class Recorder:
    """Recording wrapper for a bound method of a real object (installed as an instance
    attribute); keeps the last call only."""

    def __init__(self, bound):
        self.bound = bound
        self.calls = 0
        self.last = None

    def __call__(self, *args, **kwargs):
        out = self.bound(*args, **kwargs)
        self.calls += 1
        self.last = (args, kwargs, out)
        return out


def zero_boltzmann(eom):
    """The zero off-equilibrium input exactly as EOM.wallPressure builds it."""
    from WallGo.containers import BoltzmannDeltas
    from WallGo.polynomial import Polynomial
    from WallGo.results import BoltzmannResults
    npart, M, N = len(eom.particles), eom.grid.M, eom.grid.N
    zeroPoly = Polynomial(np.zeros((npart, M - 1)), eom.grid, direction=("Array", "z"),
                          basis=("Array", "Cardinal"))
    deltas = BoltzmannDeltas(Delta00=zeroPoly, Delta02=zeroPoly, Delta20=zeroPoly,
                             Delta11=zeroPoly)
    return BoltzmannResults(deltaF=np.zeros((npart, M - 1, N - 1, N - 1)), Deltas=deltas,
                            truncationError=0.0, linearizationCriterion1=np.zeros(npart),
                            linearizationCriterion2=np.zeros(npart))


def grad_code_fn(pot):
    def g(x, T):
        T = np.asarray(T, dtype=float)
        if T.ndim == 1:
            T = T  # broadcast against the leading axis of x
        return np.asarray(pot.grad_phys(pot.to_phys(x), T)) @ pot.A.T
    return g


def draw_shape(rng, nf, Tn):
    L0 = float(10 ** rng.uniform(math.log10(0.3), math.log10(60.0))) / Tn
    widths = [L0]
    if nf == 2:
        lo = max(L0 / 3.0, 0.12 / Tn)
        hi = min(L0 * 3.0, 85.0 / Tn)
        widths.append(float(math.exp(rng.uniform(math.log(lo), math.log(hi)))))
    offsets = [0.0 if rng.random() < 0.6 else float(rng.uniform(-2, 2))]
    for _ in range(nf - 1):
        offsets.append(float(rng.uniform(-2, 2)))
    return np.array(widths), np.array(offsets)


def remap_grid(rng, eom, wp, vmid):
    """Map the grid to the wall shape.  55 %: the real _updateGrid as wallPressure calls it
    with off-equilibrium disabled (equal tails).  28 %: the real _updateGrid the way an
    off-equilibrium run of a moving plasma maps it (includeOffEq raised for this call only,
    random mean free path): tailInside = mfp*gamma, tailOutside = mfp/gamma.  17 %: a direct
    changePositionFalloffScale with independent admissible tails between the lower bound
    L (1/2 + smoothing)/r and 20 L and a displaced centre.  The pressure integral must not
    care, as long as the wall stays resolved (rho is measured on the resulting grid)."""
    u = rng.random()
    if u < 0.55:
        eom._updateGrid(wp, vmid)
        return "equal-tails"
    g = eom.grid
    if u < 0.83:
        saved = (eom.includeOffEq, eom.meanFreePathScale)
        eom._updateGrid(wp, vmid)        # to read the wall thickness the code maps to
        L = float(g.wallThickness)
        tmin = L * (0.5 + 1.05 * g.smoothing) / g.ratioPointsWall
        gam = 1 / math.sqrt(1 - vmid * vmid)
        tIn = float(math.exp(rng.uniform(math.log(1.3 * tmin), math.log(20 * L))))
        try:
            eom.includeOffEq = True
            eom.meanFreePathScale = tIn / gam      # -> tailInside = tIn, tailOutside = tIn/gamma^2
            eom._updateGrid(wp, vmid)
        finally:
            eom.includeOffEq, eom.meanFreePathScale = saved
        return "offEq-tails"
    eom._updateGrid(wp, vmid)            # wall thickness / centre as the code chooses them
    L, c = float(g.wallThickness), float(g.wallCenter)
    tmin = 1.02 * L * (0.5 + 1.05 * g.smoothing) / g.ratioPointsWall
    tIn, tOut = (float(math.exp(rng.uniform(math.log(tmin), math.log(20 * L)))) for _ in range(2))
    g.changePositionFalloffScale(tIn, tOut, L, c + float(rng.uniform(-0.7, 0.7)) * L)
    return "direct-tails"


def draw_temperatures(rng, fam, thermo, M, pot):
    """returns (Tminus, Tplus, profile, label).  Temperatures inside the tabulated range of
    both phases *and* inside the analytic existence interval of both (a table that reaches
    past a spinodal is C11's business; such temperatures are outside this quantifier)."""
    exL, exH = pot.exists("low"), pot.exists("high")
    lo = max(thermo.freeEnergyLow.interpolationRangeMin(),
             thermo.freeEnergyHigh.interpolationRangeMin(), exL[0] * 1.01, exH[0] * 1.01)
    hi = min(thermo.freeEnergyLow.interpolationRangeMax(),
             thermo.freeEnergyHigh.interpolationRangeMax(), exL[1] * 0.99, exH[1] * 0.99)
    if not hi > lo:
        return None
    lo, hi = lo + 0.03 * (hi - lo), hi - 0.03 * (hi - lo)
    T = float(rng.uniform(lo, hi))
    if fam != "bag1":
        return T, T, np.full(M - 1, T), "const-T"
    kind = rng.random()
    if kind < 0.15:
        return T, T, np.full(M - 1, T), "const-T"
    noise = 0.05 * rng.uniform(-1, 1, size=M - 1)
    if kind < 0.6:
        return T, T, T * (1 + noise), "noisy-T"
    # smooth ramp between two different end temperatures + noise
    T2 = float(rng.uniform(lo, hi))
    ramp = T + (T2 - T) * 0.5 * (1 + np.tanh(np.linspace(-3, 3, M - 1)))
    return T, T2, ramp * (1 + 0.4 * noise), "noisy-T"


# ----------------------------------------------------------------------------- the case
def run_case(case):
    import WallGo
    from WallGo.containers import WallParams
    from wgverif.oracles import c17_monitor

    rng = np.random.default_rng(case["s"])
    spec, fam, M = case["spec"], case["family"], case["M"]
    mon = {"pressure_evals": 0, "wallprofile_calls": 0, "wallprofile_mp_points": 0,
           "gradient_calls": 0, "grid_updates": 0, "grid_invariant_evaluations": 0,
           "wallPressure_calls": 0, "asymmetric_tail_evals": 0}
    key0 = f"{fam}:{case['i']}:M{M}"
    sink = []
    c17_monitor.STATE.listener = c17_monitor.make_passive_listener(sink, level="exact")
    try:
        try:
            b = MG.build(spec, {"M": M, "N": 5})
            ws = b["manager"].setupWallSolver(MG.wall_settings({"offEq": False}))
        except WallGo.WallGoError as exc:
            # the manager's own validation refuses the model (e.g. "Invalid sound speed at
            # nucleation temperature"): outside every quantifier, counted
            return {"key": key0, "cls": "model-rejected-by-manager", "nontrivial": False,
                    "obs": {"error": repr(exc)[:300]}, "viol": [], "mon": mon}
        except Exception as exc:
            return {"key": key0, "cls": "construction-error", "nontrivial": False,
                    "obs": {"error": repr(exc)[:300]}, "viol": [],
                    "inconclusive": "manager construction failed: " + repr(exc)[:200],
                    "mon": mon}
        return _drive(case, rng, b, ws, mon, sink, key0, WallGo, WallParams)
    finally:
        c17_monitor.STATE.listener = None


def _grid_violations(sink, start, viol, mon, what):
    for rec in sink[start:]:
        mon["grid_invariant_evaluations"] += rec["mon"].get("invariant_evaluations", 0)
        for v in rec["viol"]:
            viol.append({"mech": "grid:" + v["mech"],
                         "msg": f"(C17 invariant after {what}) " + v["msg"],
                         "data": {"params": rec["params"]}})


def _drive(case, rng, b, ws, mon, sink, key0, WallGo, WallParams):
    fam, M = case["family"], case["M"]
    eom, pot, Tn = ws.eom, b["pot"], b["Tn"]
    thermo = eom.thermo
    nf = pot.fieldCount
    viol, classes, keys, rows = [], [], [], []
    if eom.grid.M != M:
        return {"key": key0, "cls": "harness-error", "nontrivial": False, "obs": {},
                "viol": [], "inconclusive": f"grid.M={eom.grid.M} != requested {M}", "mon": mon}
    assert thermo.effectivePotential is pot
    assert eom.includeOffEq is False and len(eom.particles) == 0
    grad_code = grad_code_fn(pot)
    fscale = np.asarray(pot.derivativeSettings.fieldValueVariationScale, dtype=float)
    dx = fscale * pot.effectivePotentialError ** 0.2
    # ---- monitors
    recProfile = Recorder(eom.wallProfile)
    eom.wallProfile = recProfile
    recGrad = Recorder(pot.derivField)
    pot.derivField = recGrad
    brZero = zero_boltzmann(eom)
    n_inadm = 0

    for j in range(case["nshape"]):
        widths, offsets = draw_shape(rng, nf, Tn)
        if j == 0 and nf == 2:
            # extreme of the quantifier: exactly a factor 3 between the widths
            widths[1] = min(max(widths[0] * (3.0 if rng.random() < 0.5 else 1 / 3.0),
                                0.12 / Tn), 85.0 / Tn)
        drawn = draw_temperatures(rng, fam, thermo, M, pot)
        if drawn is None:
            n_inadm += 1
            classes.append("inadmissible:no-common-temperature-range")
            continue
        Tm, Tp, Tprof, tlabel = drawn
        vmid = -float(rng.uniform(0.05, 0.95))
        vprof = np.full(M - 1, vmid)
        # end points exactly as wallPressure obtains them
        vevLow = thermo.freeEnergyLow(Tm).fieldsAtMinimum
        vevHigh = thermo.freeEnergyHigh(Tp).fieldsAtMinimum
        phm, php = pot.phases(Tm), pot.phases(Tp)
        if phm["low"] is None or php["high"] is None:
            n_inadm += 1
            classes.append("inadmissible:phase-does-not-exist")
            continue
        lowX, highX = pot.to_code(phm["low"]), pot.to_code(php["high"])
        VlowX = float(np.ravel(pot.V_phase("low", Tm))[0])
        VhighX = float(np.ravel(pot.V_phase("high", Tp))[0])
        # the oracle's end values at a common temperature (bag1: -aT^4 drops out)
        Tref = Tm
        dV_exact = float(np.ravel(pot.V_phase("low", Tref))[0]
                         - np.ravel(pot.V_phase("high", Tref))[0])
        exc_low = float(np.ravel(pot.V_code(np.asarray(vevLow), Tm))[0]) - VlowX
        exc_high = float(np.ravel(pot.V_code(np.asarray(vevHigh), Tp))[0]) - VhighX
        S, signed = R.integrand_scale(grad_code, lowX, highX, widths, offsets, Tref)
        vmax = float(max(abs(VlowX), abs(VhighX), pot.a * float(np.max(Tprof)) ** 4))
        # what the total-derivative identity gives for the end points actually passed
        dV_passed = float(np.ravel(pot.V_code(np.asarray(vevLow), Tref))[0]
                          - np.ravel(pot.V_code(np.asarray(vevHigh), Tref))[0])
        if max(abs(exc_low), abs(exc_high)) > P_TRACE * S + 64 * EPS * vmax:
            n_inadm += 1
            classes.append("inadmissible:P_trace")
            rows.append({"j": j, "inadmissible": "P_trace", "exc_low": exc_low,
                         "exc_high": exc_high, "S": S})
            continue

        wp = WallParams(widths=widths.copy(), offsets=offsets.copy())
        g0 = len(sink)
        gmode = remap_grid(rng, eom, wp, vmid)
        mon["grid_updates"] += 1
        tin, tout_ = float(eom.grid.tailLengthInside), float(eom.grid.tailLengthOutside)
        asym = max(tin, tout_) / min(tin, tout_)
        if asym > 1.05:
            mon["asymmetric_tail_evals"] += 1
        _grid_violations(sink, g0, viol, mon, "_updateGrid")
        n0p, n0g = recProfile.calls, recGrad.calls
        try:
            press, wpOut, _, bg = eom._intermediatePressureResults(
                wp, vevLow, vevHigh, -1.0, 1.0, vmid, brZero, Tp, Tm,
                temperatureProfileInput=Tprof.copy(), velocityProfileInput=vprof,
                multiplier=0.0)
        except Exception as exc:
            viol.append({"mech": "intermediate-pressure-raises",
                         "msg": f"_intermediatePressureResults raised {exc!r} on {fam} M={M} "
                         f"widths*Tn={(widths * Tn).tolist()} offsets={offsets.tolist()}",
                         "data": {"spec": case["spec"]}})
            continue
        press = float(press)
        mon["pressure_evals"] += 1
        mon["wallprofile_calls"] += recProfile.calls - n0p
        mon["gradient_calls"] += recGrad.calls - n0g
        row = {"j": j, "LTn": (widths * Tn).tolist(), "offsets": offsets.tolist(),
               "T_over_Tn": Tm / Tn, "Tlabel": tlabel, "P": press, "dV": dV_exact, "S": S,
               "dV_over_S": abs(dV_exact) / S if S else None}
        ctx = (f"{fam} (s={case['spec'].get('s'):.3g}, relabelled={case['relabelled']}) M={M} "
               f"L*Tn={np.round(widths * Tn, 4).tolist()} offsets={np.round(offsets, 4).tolist()} "
               f"T/Tn={Tm / Tn:.4f} [{tlabel}]")

        # --- multiplier = 0 keeps the supplied wall parameters
        same = (np.array_equal(np.asarray(wpOut.widths), widths)
                and np.array_equal(np.asarray(wpOut.offsets), offsets))
        if not same:
            viol.append({"mech": "multiplier-zero-changes-wall-parameters",
                         "msg": f"returned wall parameters {wpOut} differ from the supplied "
                         f"widths={widths.tolist()} offsets={offsets.tolist()} ({ctx})",
                         "data": row})

        # --- wallProfile monitor (last call = the profile the pressure integral used)
        prof_ok = True
        (pa, _pk, pout) = recProfile.last
        zrec, lowrec, highrec, wprec = pa[0], np.ravel(pa[1]), np.ravel(pa[2]), pa[3]
        fields_rec, dphi_rec = np.asarray(pout[0]), np.asarray(pout[1])
        if not (np.array_equal(np.asarray(wprec.widths), widths)
                and np.array_equal(np.asarray(wprec.offsets), offsets)
                and np.array_equal(np.asarray(zrec), eom.grid.xiValues)):
            viol.append({"mech": "pressure-profile-not-at-supplied-parameters",
                         "msg": "the wallProfile call feeding the pressure integral used "
                         f"widths={np.asarray(wprec.widths).tolist()} "
                         f"offsets={np.asarray(wprec.offsets).tolist()} ({ctx})", "data": row})
            prof_ok = False
        idx = np.unique(np.concatenate([[0, 1, M - 3, M - 2],
                                        rng.choice(M - 1, size=6, replace=False)]))
        wf, wd, bad, npts = R.profile_residuals(np.asarray(zrec, float), lowrec, highrec,
                                                np.asarray(wprec.widths, float),
                                                np.asarray(wprec.offsets, float),
                                                fields_rec, dphi_rec, idx)
        mon["wallprofile_mp_points"] += npts
        row["profile_field_ratio"], row["profile_deriv_ratio"] = wf, wd
        if fields_rec.shape != (M - 1, nf) or dphi_rec.shape != (M - 1, nf):
            viol.append({"mech": "wallprofile-shape", "msg": f"wallProfile returned shapes "
                         f"{fields_rec.shape}, {dphi_rec.shape} ({ctx})", "data": row})
            prof_ok = False
        if wf > 1:
            prof_ok = False
            viol.append({"mech": "wallprofile-fields-not-tanh-ansatz",
                         "msg": f"wallProfile fields differ from the 40-digit tanh ansatz by "
                         f"{wf:.3g} x rounding bound, e.g. {bad[0]} ({ctx})",
                         "data": {"rows": bad[:3]}})
        if wd > 1:
            prof_ok = False
            viol.append({"mech": "wallprofile-derivative-not-derivative-of-profile",
                         "msg": f"dPhidz differs from the numerically differentiated 40-digit "
                         f"profile by {wd:.3g} x rounding bound, e.g. {bad[0]} ({ctx})",
                         "data": {"rows": bad[:3]}})

        # --- gradient monitor (attribution)
        grad_ok = True
        (ga, _gk, gout) = recGrad.last
        gref = grad_code(np.asarray(ga[0]), np.asarray(ga[1], float))
        gtol = 8 * 1.5 * 4 * EPS * vmax / dx   # observed <= 0.42 with factor 4 (thorough)
        gerr = np.max(np.abs(np.asarray(gout) - gref) / gtol[None, :]) \
            if np.shape(gout) == np.shape(gref) else math.inf
        row["gradient_ratio"] = float(gerr)
        if not gerr <= 1:
            grad_ok = False
            viol.append({"mech": "potential-gradient-inexact-on-quartic",
                         "msg": f"derivField on the wall profile differs from the closed-form "
                         f"gradient by {float(gerr):.3g} x rounding bound ({ctx})", "data": row})

        # --- pressure oracle
        fdb = R.fd_rounding_bound(vmax, dx, highX - lowX)
        rho = R.resolution(eom.grid.xiValues, widths, offsets)
        a_nodes = float(min(eom.grid.aIn, eom.grid.aOut)) * M / math.pi
        tol = quad_tol(rho, a_nodes) * S + 16 * fdb + 256 * EPS * (S + vmax)
        err = abs(press - dV_passed)
        row["err_vs_closed_form_minima"] = abs(press - dV_exact)
        row["endpoint_excess"] = [exc_low, exc_high]
        row.update(err=err, tol=tol, err_over_S=err / S if S else math.inf,
                   rounding_part=16 * fdb / tol, rho=rho)
        if not (np.isfinite(press) and err <= tol):
            stage = ("quadrature-or-map" if (prof_ok and grad_ok) else
                     "profile" if grad_ok else "potential-gradient")
            viol.append({"mech": f"pressure-not-free-energy-difference:{stage}",
                         "msg": f"P={press!r} but V(low)-V(high)={dV_passed!r}: |diff|={err:.3e} "
                         f"= {err / S:.2e} S > tol {tol:.3e} (S={S:.4e}, |dV|/S="
                         f"{abs(dV_exact) / S:.3f}) on {ctx}",
                         "data": {"spec": case["spec"], **row}})
        rows.append(row)
        row.update(grid=gmode, tail_asymmetry=asym,
                   tail_over_L=max(tin, tout_) / float(eom.grid.wallThickness),
                   a_nodes=a_nodes)
        classes += [fam, f"M={M}", tlabel, f"nf={nf}", "grid:" + gmode,
                    "asymmetric-tails" if asym > 1.05 else "symmetric-tails",
                    "resolved(tol=1e-8)" if quad_tol(rho, a_nodes) == K_QUAD else "coarse(tol>1e-8)"]
        if case["relabelled"]:
            classes.append("relabelled")
        if offsets[0] != 0.0:
            classes.append("offset0-nonzero")
        keys.append(f"{key0}:{j}:{widths[0] * Tn:.6g}:{Tm / Tn:.6f}")

    # ------------------------------------------------------ public wallPressure on bag1
    wpress = None
    if case.get("wallPressure") and fam == "bag1":
        wpress = _wall_pressure_bag(case, rng, eom, pot, Tn, mon, sink, viol, classes, keys,
                                    key0, WallParams, recProfile)
    obs = {"spec": case["spec"], "M": M, "Tn": Tn, "rows": rows[:4], "n_rows": len(rows),
           "err_over_tol": [r["err"] / r["tol"] for r in rows if "err" in r],
           "endpoint_excess_over_S": [max(abs(r["endpoint_excess"][0]), abs(r["endpoint_excess"][1])) / r["S"]
                                      for r in rows if "err" in r],
           "inadmissible": n_inadm, "wallPressure": wpress,
           "all": [[r.get("err_over_S"), r.get("profile_deriv_ratio"), r.get("gradient_ratio"),
                    r.get("dV_over_S"), r.get("rounding_part"), r.get("profile_field_ratio"),
                    r.get("rho"), r.get("tail_asymmetry"), r.get("tail_over_L"), r.get("a_nodes")]
                   for r in rows if "err" in r]}
    return {"key": key0, "cls": classes or ["no-evaluations"], "nontrivial": bool(keys),
            "obs": obs, "viol": viol, "mon": mon, "keys": keys}


def _wall_pressure_bag(case, rng, eom, pot, Tn, mon, sink, viol, classes, keys, key0,
                       WallParams, recProfile):
    """EOM.wallPressure on a T-independent field potential: whatever plasma profile the
    code solves for and whatever tanh shape its action minimisation ends on, the pressure
    is U(v) - U(0).  Judged when the final widths stay within a factor 3 of the widths the
    grid was mapped to (shape resolved by the grid)."""
    out = []
    hyd = eom.hydrodynamics
    dU = float(np.ravel(pot.V_phase("low", Tn))[0] - np.ravel(pot.V_phase("high", Tn))[0])
    # tanh fit of the true kink of U: L = sqrt(8 Delta phi^2 / ... ) is not needed; start
    # from the minimiser's own answer so that the grid matches the final shape
    guess = WallParams(widths=np.array([5.0 / Tn]), offsets=np.array([0.0]))
    for attempt, vw in enumerate([float(rng.uniform(0.15, 0.9 * hyd.vJ)),
                                  float(rng.uniform(min(hyd.vJ + 0.02, 0.97), 0.98))]):
        rec = {"vw": vw, "branch": "deflag/hybrid" if vw < hyd.vJ else "detonation"}
        try:
            c1, c2, Tp, Tm, vmid = hyd.findHydroBoundaries(vw)
            ok_window = (eom.thermo.freeEnergyHigh.interpolationRangeMin() <= Tp
                         <= eom.thermo.freeEnergyHigh.interpolationRangeMax()
                         and eom.thermo.freeEnergyLow.interpolationRangeMin() <= Tm
                         <= eom.thermo.freeEnergyLow.interpolationRangeMax())
        except Exception as exc:
            rec["skipped"] = "findHydroBoundaries raised " + repr(exc)[:80]
            out.append(rec)
            continue
        if not ok_window:
            rec["skipped"] = "P_window"
            classes.append("wallPressure:inadmissible-P_window")
            out.append(rec)
            continue
        press = None
        for it in range(3):
            g0 = len(sink)
            try:
                press, wpo, _, bg, _ = eom.wallPressure(
                    vw, WallParams(widths=guess.widths.copy(), offsets=guess.offsets.copy()))
            except Exception as exc:
                rec["raised"] = repr(exc)[:200]
                press = None
                break
            mon["wallPressure_calls"] += 1
            mon["grid_updates"] += 1
            _grid_violations(sink, g0, viol, mon, "wallPressure")
            ratio = float(np.max(np.maximum(wpo.widths / guess.widths, guess.widths / wpo.widths)))
            rec.update(it=it, P=float(press), widths_Tn=(wpo.widths * Tn).tolist(),
                       width_ratio_to_grid=ratio, successT=bool(eom.successTemperatureProfile),
                       successP=bool(eom.successWallPressure))
            if ratio <= 1.5:
                break
            guess = WallParams(widths=np.asarray(wpo.widths).copy(), offsets=np.array([0.0]))
        if press is None:
            classes.append("wallPressure:raised")
            viol.append({"mech": "wallPressure-raises-on-bag-potential",
                         "msg": f"wallPressure({vw:.4f}) raised {rec.get('raised')} on {case['spec']}",
                         "data": rec})
            out.append(rec)
            continue
        if rec["width_ratio_to_grid"] > 3.0:
            classes.append("wallPressure:not-resolved(not judged)")
            out.append(rec)
            continue
        lowX, highX = pot.to_code(np.array([pot.vev()])), pot.to_code(np.array([0.0]))
        S, _ = R.integrand_scale(grad_code_fn(pot), lowX, highX, np.asarray(wpo.widths, float),
                                 np.zeros(1), Tn)
        rho = R.resolution(eom.grid.xiValues, np.asarray(wpo.widths, float), np.zeros(1))
        a_nodes = float(min(eom.grid.aIn, eom.grid.aOut)) * eom.grid.M / math.pi
        fdb = R.fd_rounding_bound(max(abs(dU), pot.a * (1.3 * max(Tp, Tm)) ** 4),
                                  np.asarray(pot.derivativeSettings.fieldValueVariationScale,
                                             float) * 1e-3, [pot.vev()])
        # end points wallPressure itself used (P_window holds, so its clamps are inactive)
        vlo = eom.thermo.freeEnergyLow(Tm).fieldsAtMinimum
        vhi = eom.thermo.freeEnergyHigh(Tp).fieldsAtMinimum
        dU_passed = float(np.ravel(pot.V_code(np.asarray(vlo), Tn))[0]
                          - np.ravel(pot.V_code(np.asarray(vhi), Tn))[0])
        rec["endpoint_excess_over_S"] = abs(dU_passed - dU) / S
        if abs(dU_passed - dU) > P_TRACE * S:
            classes.append("wallPressure:inadmissible-P_trace")
            out.append(rec)
            continue
        tol = quad_tol(rho, a_nodes) * S + 16 * fdb + 256 * EPS * S
        err = abs(float(press) - dU_passed)
        rec.update(dU=dU_passed, dU_closed_form_minima=dU, err=err, tol=tol, rho=rho, S=S)
        if not (np.isfinite(press) and err <= tol):
            viol.append({"mech": "wallPressure-bag-not-free-energy-difference",
                         "msg": f"wallPressure(v_w={vw:.4f}) = {float(press)!r} on a T-independent "
                         f"field potential, U(low)-U(high) = {dU_passed!r} (|diff| {err:.3e} > {tol:.3e}; "
                         f"final L*Tn={rec['widths_Tn']}, M={eom.grid.M})",
                         "data": {"spec": case["spec"], **rec}})
        classes.append("wallPressure:" + rec["branch"])
        keys.append(f"{key0}:wallPressure:{vw:.5f}")
        out.append(rec)
    return out


# ---------------------------------------------------------------------------- evidence
def summarize(results, tier):
    by = {}
    prof, grad, fld, eot, exc, rhos = [], [], [], [], [], []
    wp_err = []
    for r in results:
        if r.get("inconclusive"):
            continue
        obs = r.get("obs") or {}
        M = obs.get("M")
        fam = (obs.get("spec") or {}).get("family")
        eot += [float(x) for x in obs.get("err_over_tol") or [] if isinstance(x, (int, float))]
        exc += [float(x) for x in obs.get("endpoint_excess_over_S") or [] if isinstance(x, (int, float))]
        for e in obs.get("all") or []:
            if e[0] is None or isinstance(e[0], str):
                continue
            if isinstance(e[6], (int, float)):
                rhos.append(float(e[6]))
                tag = "rho<2" if e[6] < 2 else "2<=rho<3.64" if e[6] < 3.64 else "rho>=3.64"
                by.setdefault(tag, []).append(float(e[0]))
                if len(e) > 7 and isinstance(e[7], (int, float)):
                    by.setdefault(("asym:" if e[7] > 1.05 else "sym:") + tag, []).append(float(e[0]))
            by.setdefault(f"{fam}:M{M}", []).append(float(e[0]))
            by.setdefault("all", []).append(float(e[0]))
            for lst, v in ((prof, e[1]), (grad, e[2]), (fld, e[5])):
                if isinstance(v, (int, float)):
                    lst.append(float(v))
        for w in obs.get("wallPressure") or []:
            if "err" in w:
                wp_err.append(w["err"] / w["tol"])

    def stats(a):
        a = np.asarray(a, float)
        if not a.size:
            return None
        return {"n": int(a.size), "median": float(np.median(a)),
                "p99": float(np.percentile(a, 99)), "max": float(a.max())}
    return {"pressure_err_over_S": {k: stats(v) for k, v in sorted(by.items())},
            "K_QUAD": K_QUAD, "C_RES": C_RES, "B_RES": B_RES,
            "pressure_err_over_tol": stats(eot),
            "endpoint_excess_over_S": stats(exc),
            "resolution_rho": stats(rhos),
            "profile_derivative_err_over_bound": stats(prof),
            "profile_field_err_over_bound": stats(fld),
            "gradient_err_over_bound": stats(grad),
            "wallPressure_bag_err_over_tol": stats(wp_err)}
