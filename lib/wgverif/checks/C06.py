"""C06 — matchings are admissible and correctly classified; vJ is the Chapman-Jouguet
point; fastestDeflag()/slowestDeton() are where a phase's tabulated range is reached.

Contract on every result of the real findMatching (general + template solver), an
independent Chapman-Jouguet oracle (v-^2 = c_b^2(T-) on the detonation junction, solved on
the closed-form EOS), and a range-cut workload that generalises test_fastestDeflag to
random cut positions in either phase and to slowestDeton().
"""
from __future__ import annotations

import math

import numpy as np
from scipy.optimize import brentq

from wgverif import env  # noqa: F401
from wgverif.checks import _hydro as HY
from wgverif.models import eos as E

PROPERTY = "C06"
RULE = ("equations of state and velocities as in C02; plus per EOS one Chapman-Jouguet "
        "oracle evaluation and (60 % of EOS) one range-cut configuration: the tabulated "
        "range of the low- or high-temperature phase is cut at the temperature the matching "
        "reaches at a random v_cut inside the deflagration/hybrid window (or inside the "
        "detonation window for slowestDeton).  Non-trivial: a decided matching / a decided "
        "cut; distinct by (EOS, setting, v_w, class) resp. (EOS, phase, v_cut).")
ASSUMPTIONS = [
    "classification thresholds use the closed-form c_b^2(T-) of the EOS",
    "matchings that fail flux conservation (C02's known finding) are not flows and are "
    "excluded from the inequalities between v+ and v-",
    "cut workload assumes T-(v_w) (resp. T+) monotone up to the cut; cases where the real "
    "matching at 10 slower velocities is not monotone are counted, not judged",
]
CASE_TIMEOUT = 240
CHUNK = 2
SETTINGS = [(1e-6, 1e-6), (1e-6, 1e-10), (1e-8, 1e-10)]
FLOORS = {
    "quick": {"distinct_nontrivial": 400,
              "mon": {"findMatching": 700, "jouguet_oracle": 60, "cut_configs": 25,
                      "template.findMatching": 150},
              "cls": {"deflagration": 80, "hybrid": 50, "detonation": 80,
                      "cut:fastestDeflag": 15, "cut:slowestDeton": 6,
                      "cut:slowestDeton-below-all": 2}},
    "thorough": {"distinct_nontrivial": 10000,
                 "mon": {"findMatching": 18000, "jouguet_oracle": 1500, "cut_configs": 600},
                 "cls": {"deflagration": 2000, "hybrid": 1200, "detonation": 2000,
                         "cut:fastestDeflag": 250, "cut:slowestDeton": 100,
                         "cut:slowestDeton-below-all": 30}},
}


def worker_init():
    env.import_wallgo()


def generate(tier, seed):
    rng = np.random.default_rng(6000 + seed)
    n_eos, n_v = (150, 8) if tier == "quick" else (2500, 10)
    cases = []
    for i in range(n_eos):
        spec = E.random_spec(rng)
        cases.append({"i": i, "spec": spec, "setting": int(rng.integers(len(SETTINGS))),
                      "nv": n_v, "s": int(rng.integers(1 << 30)),
                      "cut": bool(rng.random() < 0.6)})
    return cases


# ------------------------------------------------------------------ Chapman-Jouguet oracle
def jouguet_ref(eos):
    """Solve v-^2(T-) = c_b^2(T-) on the detonation junction (T+ = T_n, v+ free).
    Returns vJ_ref or None when the physical root cannot be isolated."""
    Tn = eos.Tnucl
    H = eos.ref("H", Tn)

    def vv(Tm):
        L = eos.ref("L", Tm)
        dp, de = H["p"] - L["p"], H["e"] - L["e"]
        if dp == 0 or de == 0:
            return None
        vpvm = dp / de
        vpovm = (L["e"] + H["p"]) / (H["e"] + L["p"])
        if vpvm <= 0 or vpovm <= 0:
            return None
        vp2, vm2 = vpvm * vpovm, vpvm / vpovm
        if not (0 < vp2 < 1 and 0 < vm2 < 1) or vp2 < vm2:
            return None          # not on the detonation side (v+ >= v-)
        return vp2, vm2, L["csq"]

    # connected detonation region above T_n: scan upward on a fine grid
    grid = Tn * (1 + np.geomspace(1e-6, 4.0, 4000))
    vals = [(T, vv(T)) for T in grid]
    prev = None
    for T, r in vals:
        if r is None:
            prev = None
            continue
        g = r[1] - r[2]
        if prev is not None and prev[1] > 0 >= g:
            # weak (v- > c_b) -> strong: the CJ point is in (prev T, T)
            def gfun(t):
                q = vv(t)
                return q[1] - q[2]
            try:
                troot = brentq(gfun, prev[0], T, xtol=1e-15 * T, rtol=1e-14)
            except Exception:
                return None
            return math.sqrt(vv(troot)[0]), troot
        prev = (T, g)
    return None


def across_pole(tmpl, m):
    """True when the returned (v+, v-) imply an alpha+ on the other side of the pole
    (1-3 alpha) mu = nu from alpha_n, i.e. the template enthalpy w+ is negative."""
    vp, vm = m["vp"], m["vm"]
    if not (np.isfinite(vp) and np.isfinite(vm)) or not (np.isnan(m["Tp"]) or np.isnan(m["Tm"])):
        return False
    al = (vp / vm - 1.0) * (vp * vm / tmpl.cb2 - 1.0) / (1 - vp ** 2) / 3.0
    a = (1 - 3 * tmpl.alN) * tmpl.mu - tmpl.nu
    b = (1 - 3 * al) * tmpl.mu - tmpl.nu
    return a * b < 0


def tp_slope(probe, vw, vp):
    h = 1e-4 * vp
    out = []
    for sgn in (-1, 1):
        try:
            o = [float(x) for x in probe.hyd.matchDeflagOrHyb(vw, vp + sgn * h)]
        except Exception:
            return None
        if not probe.hyd.success or not all(np.isfinite(o)):
            return None
        r = probe.flux_residuals(*o)
        if abs(r[0]) > 1e-6 or abs(r[1]) > 1e-6:
            return None
        out.append(o[2])
    return abs(out[1] - out[0]) / (2 * h)


def run_case(case):
    rng = np.random.default_rng(case["s"])
    spec = case["spec"]
    rtol, atol = SETTINGS[case["setting"]]
    mon = {"findMatching": 0, "template.findMatching": 0, "jouguet_oracle": 0,
           "cut_configs": 0, "jouguet_template_fallback": 0}
    eos = E.build(spec)
    ok, why = E.admissible(eos)
    key0 = f"{spec['family']}:{case['i']}:{case['setting']}"
    if not ok:
        return {"key": key0, "cls": "inadmissible-eos", "nontrivial": False,
                "obs": {"why": why}, "viol": [], "mon": mon}
    try:
        probe = HY.HydroProbe(spec, rtol, atol)
    except Exception as exc:
        return {"key": key0, "cls": "construction-error", "nontrivial": False,
                "obs": {"error": repr(exc)[:200]}, "viol": [], "mon": mon}
    hyd, tmpl = probe.hyd, probe.tmpl
    Tn = probe.Tn
    cb = math.sqrt(eos.ref("L", Tn)["csq"])
    viol, classes, keys, rows = [], [], [], []
    is_template_form = spec["family"] in ("bag", "template")

    # -------------------------------------------------------------- Jouguet oracle
    jr = jouguet_ref(eos)
    obs_j = {"vJ": hyd.vJ, "template_vJ": hyd.template.vJ}
    if jr is not None:
        mon["jouguet_oracle"] += 1
        vJref, TmJ = jr
        obs_j["vJ_ref"] = vJref
        fellback = (hyd.vJ == hyd.template.vJ) and not is_template_form
        if fellback:
            mon["jouguet_template_fallback"] += 1
            classes.append("vJ-from-template-fallback")
        else:
            # v+ is stationary in T- at the CJ point, so the brentq error on T- enters
            # quadratically; 1e-9 relative leaves >3 decades over the observed 3e-16
            if abs(hyd.vJ - vJref) > 1e-9 * vJref + 10 * (rtol + atol / Tn) ** 2:
                viol.append({"mech": "jouguet-velocity-not-chapman-jouguet",
                             "msg": f"vJ={hyd.vJ!r} but v-^2=c_b^2 on the detonation junction "
                             f"gives {vJref!r} (EOS {spec})", "data": obs_j})
            classes.append("vJ-decided")
            keys.append(f"{key0}:vJ")
        if is_template_form and abs(tmpl.vJ - vJref) > 1e-12:
            viol.append({"mech": "template-jouguet-velocity-wrong",
                         "msg": f"template vJ={tmpl.vJ!r} vs CJ oracle {vJref!r} on {spec}",
                         "data": obs_j})
        # a detonation just above vJ: v- - c_b = O(sqrt(eps)); classification on each side
        for side, v in (("above", min(0.999, hyd.vJ * (1 + 1e-6))),
                        ("below", hyd.vJ * (1 - 1e-6))):
            if fellback:
                break
            m = probe.matching(v)
            mon["findMatching"] += 1
            if m.get("none") or m["error"]:
                continue
            csqL = eos.ref("L", m["Tm"])["csq"]
            gap = m["vm"] - math.sqrt(csqL)
            if side == "above":
                # sqrt branch point: gap ~ sqrt(2 * 1e-6 / curvature); calibrated 3e-4..1e-3,
                # a wrong vJ of relative 1e-4 gives > 1e-2
                if m["branch"] != "detonation" or not (-1e-6 <= gap <= 1e-2):
                    viol.append({"mech": "jouguet-detonation-not-sonic",
                                 "msg": f"detonation at vJ(1+1e-6)={v}: v- - c_b(T-) = {gap:.3e} "
                                 f"(branch {m['branch']})", "data": {"spec": spec, **m}})
                obs_j["gap_above"] = gap
            else:
                if m["branch"] == "detonation":
                    viol.append({"mech": "jouguet-does-not-separate-families",
                                 "msg": f"vw=vJ(1-1e-6) treated as detonation", "data": m})
                elif abs(gap) > 1e-9:
                    r1, r2 = probe.flux_residuals(m["vp"], m["vm"], m["Tp"], m["Tm"])
                    if abs(r1) < 1e-3 and abs(r2) < 1e-3:
                        viol.append({"mech": "hybrid-vm-not-sound-speed",
                                     "msg": f"hybrid just below vJ: v- - c_b(T-) = {gap:.3e}",
                                     "data": {"spec": spec, **m}})
    else:
        classes.append("vJ-oracle-no-isolated-root")

    # ---------------------------------------------------------- contract on matchings
    vws, kinds = HY.velocities(rng, hyd, case["nv"], cb, probe)
    for vw, kind in zip(vws, kinds):
        for solver in ("general", "template"):
            if solver == "template":
                if not is_template_form or vw < tmpl.vMin:
                    continue
                try:
                    t = tmpl.findMatching(vw)
                except Exception:
                    continue
                mon["template.findMatching"] += 1
                if t is None or t[0] is None:
                    continue
                m = {"vw": vw, "vp": float(t[0]), "vm": float(t[1]), "Tp": float(t[2]),
                     "Tm": float(t[3]), "branch": "template", "success_flag": True}
                vJ = tmpl.vJ
            else:
                m = probe.matching(vw)
                mon["findMatching"] += 1
                if m.get("none") or m["error"]:
                    classes.append("no-solution")
                    continue
                vJ = hyd.vJ
            tag = "" if solver == "general" else "template-"
            row = {"vw": vw, "solver": solver, "branch": m["branch"]}
            rows.append(row)
            vals = [m["vp"], m["vm"], m["Tp"], m["Tm"]]
            if not all(np.isfinite(vals)) or not (0 < m["vp"] < 1 and 0 < m["vm"] < 1
                                                  and m["Tp"] > 0 and m["Tm"] > 0):
                mech = tag + "matching-not-admissible"
                if across_pole(tmpl, m):
                    # the template solver's root in v+ sits across the pole of w+(alpha+):
                    # w+ < 0 there and T+ = Tn w+^(1/mu) is NaN.  The general solver
                    # inherits it through its template fallback.
                    mech = "template-matching-root-across-enthalpy-pole"
                elif solver == "general" and m.get("last_hybr_converged") is False:
                    mech = "matching-accepted-on-absolute-residual"
                viol.append({"mech": mech,
                             "msg": f"{solver} findMatching({vw:.6g}) returned v+={m['vp']}, "
                             f"v-={m['vm']}, T+={m['Tp']}, T-={m['Tm']} on {spec['family']}",
                             "data": {"spec": spec, **m}})
                classes.append("not-admissible")
                continue
            if solver == "general" and m["branch"] == "template-fallback" and \
                    not is_template_form:
                classes.append("fallback-approximation")
                continue
            r1, r2 = probe.flux_residuals(m["vp"], m["vm"], m["Tp"], m["Tm"])
            if abs(r1) > 1e-3 or abs(r2) > 1e-3:
                classes.append("not-a-matching(C02)")
                continue
            csqL = eos.ref("L", m["Tm"])["csq"]
            cbm = math.sqrt(csqL)
            bad = []
            if vw > vJ:
                cls = "detonation"
                if m["vp"] != vw:
                    bad.append(f"v+={m['vp']!r} != vw")
                if not m["vm"] < m["vp"]:
                    bad.append(f"v-={m['vm']} !< v+={m['vp']}")
                # weak branch: v- >= c_b(T-) up to the sqrt-type conditioning at vJ
                slack = 1e-9 + 2 * math.sqrt(max(0.0, 4 * (atol / m["Tm"] + rtol)))
                if m["vm"] < cbm - slack * cbm:
                    bad.append(f"v-={m['vm']} < c_b(T-)={cbm} (strong branch)")
                if m["Tp"] != Tn:
                    bad.append(f"T+={m['Tp']} != T_n")
            elif vw * vw < csqL:
                cls = "deflagration"
                if m["vm"] != vw:
                    bad.append(f"v-={m['vm']!r} != vw={vw!r}")
                if not m["vp"] < m["vm"]:
                    bad.append(f"v+={m['vp']} !< v-={m['vm']}")
                # T+ - T_n -> 0 with the shock strength; the root search leaves v+ uncertain
                # by 2(atol + rtol v+), which moves T+ by ~ T_n * (that)/v- (template algebra:
                # dln w+/d alpha+ * d alpha+/d v+ ~ 1/(3 v-) * O(10))
                slack = Tn * (5 * 2 * (atol + rtol * m["vp"]) / m["vm"] + 30 * rtol) + 4 * atol
                if not m["Tp"] > Tn - slack:
                    # measure the conditioning instead of assuming it: dT+/dv+ through the
                    # real (flux-validated) 2x2 matching
                    sl = tp_slope(probe, vw, m["vp"])
                    if sl is None:
                        classes.append("Tp-slope-probe-failed")
                    else:
                        slack = sl * 2 * (atol + rtol * m["vp"]) + Tn * 30 * rtol + 4 * atol
                        if not m["Tp"] > Tn - slack:
                            bad.append(f"T+={m['Tp']} not above T_n={Tn} (slack {slack:.1e})")
            else:
                cls = "hybrid"
                # the property demands only v- = c_b(T-) of a hybrid (v+ may exceed v- when
                # c_b < c_s)
                if abs(m["vm"] - cbm) > 1e-11:
                    bad.append(f"v-={m['vm']!r} != c_b(T-)={cbm!r}")
            row["cls"] = cls
            if bad:
                viol.append({"mech": f"{tag}{cls}-misclassified-or-inadmissible",
                             "msg": f"{solver} {cls} at vw={vw:.6g} on {spec['family']}: "
                             + "; ".join(bad), "data": {"spec": spec, **m}})
            classes.append(tag + cls if tag else cls)
            keys.append(f"{key0}:{vw:.9f}:{solver}:{cls}")

    # ------------------------------------------------------------------ range cuts
    obs_c = {}
    if case["cut"]:
        try:
            obs_c = cut_workload(case, spec, rtol, atol, probe, rng, viol, classes, keys, mon,
                                 key0)
        except Exception as exc:
            obs_c = {"cut_error": repr(exc)[:200]}
            classes.append("cut-harness-error")
    # uncut => fastestDeflag() == vJ
    try:
        fd = hyd.fastestDeflag()
        obs_c["uncut_fastestDeflag_minus_vJ"] = fd - hyd.vJ
        mj = probe.matching(hyd.vJ - hyd.vBracketLow)
        nanj = (not mj.get("none")) and not mj["error"] and \
            (np.isnan(mj["Tp"]) or np.isnan(mj["Tm"]))
        if fd != hyd.vJ and nanj and across_pole(tmpl, mj):
            viol.append({"mech": "template-matching-root-across-enthalpy-pole",
                         "msg": f"fastestDeflag()={fd!r} != vJ={hyd.vJ!r} because the matching "
                         f"at vJ-1e-3 has NaN temperatures", "data": {"spec": spec}})
        elif fd != hyd.vJ:
            viol.append({"mech": "fastestDeflag-not-vJ-without-range-limit",
                         "msg": f"fastestDeflag()={fd!r} != vJ={hyd.vJ!r} although no phase "
                         f"range limits the window ({spec})", "data": {}})
        if any(hyd.doesPhaseTraceLimitvmax) and not nanj:
            viol.append({"mech": "doesPhaseTraceLimitvmax-set-without-limit",
                         "msg": f"flags {hyd.doesPhaseTraceLimitvmax} on uncut EOS", "data": {}})
    except Exception as exc:
        obs_c["uncut_fastestDeflag_error"] = repr(exc)[:100]
    obs = {"spec": spec, "rtol": rtol, "atol": atol, "jouguet": obs_j, "cut": obs_c,
           "rows": rows[:3], "vMin": hyd.vMin}
    return {"key": key0, "cls": classes or ["no-rows"], "nontrivial": bool(keys), "obs": obs,
            "viol": viol, "mon": mon, "keys": keys}


def cut_workload(case, spec, rtol, atol, probe, rng, viol, classes, keys, mon, key0):
    hyd = probe.hyd
    Tn = probe.Tn
    which = "deton" if rng.random() < 0.35 and hyd.vJ < 0.9 else "deflag"
    phase = "L" if (which == "deton" or rng.random() < 0.6) else "H"
    lo_w = max(hyd.vMin, 1e-3) + 0.02
    if which == "deton" and rng.random() < 0.3:
        # the low-T range ends below the temperature of every detonation: no detonation is
        # admissible and the documented answer of slowestDeton() is 1
        mf = probe.matching(0.995)
        if mf.get("none") or mf["error"] or not mf["Tm"] > Tn * 1.004:
            classes.append("cut:below-all:no-room")
            return {}
        Tcut = Tn + float(rng.uniform(0.2, 0.9)) * (mf["Tm"] - Tn)
        temps = []
        for v in np.linspace(hyd.vJ + 0.01, 0.985, 8):
            mm = probe.matching(float(v))
            if not (mm.get("none") or mm["error"]):
                temps.append((float(v), mm["Tm"]))
        if len(temps) < 5 or any(t[1] <= Tcut for t in temps):
            classes.append("cut:below-all:not-below-all(not judged)")
            return {}
        spec2 = dict(spec)
        unit = probe.eos.s
        spec2["rangeL"] = [1e-4 * Tn / unit, Tcut / unit]
        p2 = HY.HydroProbe(spec2, rtol, atol)
        mon["cut_configs"] += 1
        sd = p2.hyd.slowestDeton()
        out = {"which": "deton-below-all", "Tcut_over_Tn": Tcut / Tn, "slowestDeton": sd,
               "vJ": p2.hyd.vJ}
        if sd < 1:
            bad = [(v, T) for v, T in temps if v >= sd]
            viol.append({"mech": "slowestDeton-advertises-detonations-outside-tabulated-range",
                         "msg": f"low-T range ends at {Tcut / Tn:.4f} T_n, below T- of every "
                         f"detonation (T-(0.995)={mf['Tm'] / Tn:.4f} T_n), yet slowestDeton()="
                         f"{sd:.6f} (vJ={p2.hyd.vJ:.6f}) instead of 1; e.g. v_w={bad[0][0]:.4f} "
                         f"has T-={bad[0][1] / Tn:.4f} T_n on {spec}" if bad else
                         f"slowestDeton()={sd} although no detonation is inside the range",
                         "data": out})
        classes.append("cut:slowestDeton-below-all")
        keys.append(f"{key0}:cutdet-below-all:{Tcut / Tn:.6f}")
        return out
    if which == "deflag":
        if hyd.vJ - 0.02 <= lo_w:
            classes.append("cut:window-too-narrow")
            return {}
        vcut = float(rng.uniform(lo_w, hyd.vJ - 0.02))
    else:
        vcut = float(rng.uniform(hyd.vJ + 0.02, 0.96))
    m0 = probe.matching(vcut)
    if m0.get("none") or m0["error"] or m0["branch"] == "template-fallback":
        classes.append("cut:no-matching-at-vcut")
        return {}
    r1, r2 = probe.flux_residuals(m0["vp"], m0["vm"], m0["Tp"], m0["Tm"])
    if abs(r1) > 1e-5 or abs(r2) > 1e-5:
        classes.append("cut:not-a-matching-at-vcut")
        return {}
    Tcut = m0["Tm"] if phase == "L" else m0["Tp"]
    if Tcut <= Tn * 1.002:
        classes.append("cut:below-Tn")
        return {}
    # monotonicity of the cut temperature on the relevant side (real matching, uncut EOS)
    if which == "deflag":
        probe_v = np.linspace(max(hyd.vMin, 1e-3) * 1.05 + 1e-3, vcut, 11)[:-1]
    else:
        probe_v = np.linspace(vcut, 0.985, 11)[1:]
    temps = []
    for v in probe_v:
        mm = probe.matching(float(v))
        if mm.get("none") or mm["error"]:
            continue
        temps.append((float(v), mm["Tm"] if phase == "L" else mm["Tp"], mm))
    interior_excursion = False
    if which == "deflag":
        me = probe.matching(hyd.vJ - hyd.vBracketLow)
        if not me.get("none") and not me["error"]:
            Tend = me["Tm"] if phase == "L" else me["Tp"]
            # the range end is exceeded at v_cut but not at the top of the window:
            # T(v_w) is not monotone (T+ peaks near c_s when c_b < c_s)
            interior_excursion = bool(Tend < Tcut)
    if len(temps) < 6 or any(t[1] > Tcut * (1 + 1e-9) for t in temps):
        classes.append("cut:not-monotone(not judged)")
        return {"vcut": vcut, "phase": phase, "which": which}
    # local slope dT/dv at the cut
    h = 2e-3
    ma, mb = probe.matching(vcut - h), probe.matching(vcut + h)
    if ma.get("none") or mb.get("none") or ma["error"] or mb["error"]:
        classes.append("cut:slope-probe-failed")
        return {}
    Ta = ma["Tm"] if phase == "L" else ma["Tp"]
    Tb = mb["Tm"] if phase == "L" else mb["Tp"]
    slope = abs(Tb - Ta) / (2 * h)
    if slope <= 0:
        classes.append("cut:flat")
        return {}
    spec2 = dict(spec)
    unit = probe.eos.s
    big = 1e4 * Tn / unit
    small = 1e-4 * Tn / unit
    if phase == "L":
        spec2["rangeL"] = [small, Tcut / unit]
    else:
        spec2["rangeH"] = [small, Tcut / unit]
    p2 = HY.HydroProbe(spec2, rtol, atol)
    mon["cut_configs"] += 1
    out = {"vcut": vcut, "phase": phase, "which": which, "Tcut_over_Tn": Tcut / Tn}
    noise = 30 * rtol * Tcut + 8 * atol          # matching noise on T (C03 calibration)
    if which == "deflag":
        fd = p2.hyd.fastestDeflag()
        tol = 2 * (atol + rtol * vcut) + noise / slope + 1e-9
        out.update(fastestDeflag=fd, tol=tol, flags=list(p2.hyd.doesPhaseTraceLimitvmax))
        out["interior_excursion"] = interior_excursion
        # the code brackets T(v)-Tmax between vMin+vBracketLow and vJ-vBracketLow; look at
        # its own matching at the lower end (slow wall) with the flux oracle
        lower_end_bad = False
        if abs(fd - vcut) > tol and not interior_excursion:
            vlo = p2.hyd.vMin + p2.hyd.vBracketLow
            ml = p2.matching(vlo)
            if not ml.get("none") and not ml["error"]:
                rl = p2.flux_residuals(ml["vp"], ml["vm"], ml["Tp"], ml["Tm"])
                Tl = ml["Tm"] if phase == "L" else ml["Tp"]
                lower_end_bad = bool(max(abs(rl[0]), abs(rl[1])) > 1e-3 and Tl > Tcut)
                out["lower_bracket_end"] = {"vw": vlo, "flux_residuals": list(rl),
                                            "T_over_Tcut": Tl / Tcut}
        if lower_end_bad:
            viol.append({"mech": "fastestDeflag-bracket-end-at-nonconverged-slow-wall-matching",
                         "msg": f"phase {phase} range end is reached at v_cut={vcut:.6f} but "
                         f"fastestDeflag()={fd:.6f} (vJ={p2.hyd.vJ:.6f}): the matching at the "
                         f"lower bracket end vMin+vBracketLow={out['lower_bracket_end']['vw']:.4g} "
                         f"violates flux conservation (residuals "
                         f"{out['lower_bracket_end']['flux_residuals']}) and its temperature is "
                         f"above the range end, so T(v)-Tmax has no sign change; on {spec}",
                         "data": out})
        elif abs(fd - vcut) > tol and interior_excursion:
            viol.append({"mech": "fastestDeflag-misses-interior-range-excursion",
                         "msg": f"phase {phase} range end is exceeded from v_cut={vcut:.6f} on "
                         f"but not at vJ-1e-3 (non-monotone T); fastestDeflag()={fd:.6f} "
                         f"(vJ={p2.hyd.vJ:.6f}) so slower walls lie outside the tabulated "
                         f"range, on {spec}", "data": out})
        elif abs(fd - vcut) > tol:
            viol.append({"mech": "fastestDeflag-not-where-range-is-reached",
                         "msg": f"phase {phase} range cut at T(v_cut={vcut:.6f}); "
                         f"fastestDeflag()={fd:.9f} (diff {fd - vcut:.2e}, tol {tol:.1e}) on "
                         f"{spec}", "data": out})
        want_flags = [phase == "H", phase == "L"]
        if list(p2.hyd.doesPhaseTraceLimitvmax) != want_flags and not interior_excursion \
                and not lower_end_bad:
            viol.append({"mech": "doesPhaseTraceLimitvmax-wrong",
                         "msg": f"flags {p2.hyd.doesPhaseTraceLimitvmax}, expected "
                         f"{want_flags} (phase {phase} cut, end not flagged as spinodal)",
                         "data": out})
        # classification on the range-limited object itself (thresholds of one phase must
        # not be taken from the other phase's range): a few admissible walls below the cut
        for v, T, mm in temps[-4:]:
            if not v < min(fd, vcut) * (1 - 1e-3):
                continue
            m2 = p2.matching(float(v))
            if m2.get("none") or m2["error"] or m2["branch"] == "template-fallback":
                continue
            r1_, r2_ = p2.flux_residuals(m2["vp"], m2["vm"], m2["Tp"], m2["Tm"])
            if abs(r1_) > 1e-6 or abs(r2_) > 1e-6:
                continue
            if not (p2.hyd.TMinLowT <= m2["Tm"] <= p2.hyd.TMaxLowT
                    and p2.hyd.TMinHighT <= m2["Tp"] <= p2.hyd.TMaxHighT):
                continue
            mon["cut_matchings_classified"] = mon.get("cut_matchings_classified", 0) + 1
            cbm_ = math.sqrt(p2.eos.ref("L", m2["Tm"])["csq"])
            want_vm = min(float(v), cbm_)
            if abs(m2["vm"] - want_vm) > 1e-6 + 10 * (atol + rtol):
                viol.append({"mech": "range-limited-matching-vm-not-min(vw,cb(T-))",
                             "msg": f"phase {phase} range cut at T(v_cut={vcut:.4f}); wall "
                             f"v_w={v:.6f} (T-={m2['Tm'] / Tn:.4f} T_n, inside both tabulated "
                             f"ranges): v-={m2['vm']:.6f}, min(v_w, c_b(T-))={want_vm:.6f} "
                             f"on {spec}", "data": {"m": m2, **out}})
        # every slower admissible wall inside the tabulated ranges
        for v, T, mm in temps:
            if v < fd and T > Tcut * (1 + 1e-9) + noise:
                viol.append({"mech": "slower-wall-outside-tabulated-range",
                             "msg": f"vw={v} < fastestDeflag={fd} has T={T} > range end {Tcut}",
                             "data": out})
        classes.append("cut:fastestDeflag")
        keys.append(f"{key0}:cut:{phase}:{vcut:.6f}")
    else:
        sd = p2.hyd.slowestDeton()
        tol = 2 * (atol + rtol * vcut) + noise / slope + 1e-9
        out.update(slowestDeton=sd, tol=tol)
        if abs(sd - min(1.0, vcut + 0.01)) > tol:
            viol.append({"mech": "slowestDeton-not-where-range-is-reached",
                         "msg": f"low-T range cut at T-(v_cut={vcut:.6f}); slowestDeton()="
                         f"{sd:.9f}, expected v_cut+0.01 (diff {sd - vcut - 0.01:.2e}, tol "
                         f"{tol:.1e}) on {spec}", "data": out})
        for v, T, mm in temps:
            if v >= sd and T > Tcut * (1 + 1e-9) + noise:
                viol.append({"mech": "faster-detonation-outside-tabulated-range",
                             "msg": f"vw={v} >= slowestDeton={sd} has T-={T} > {Tcut}",
                             "data": out})
        classes.append("cut:slowestDeton")
        keys.append(f"{key0}:cutdet:{vcut:.6f}")
    return out
