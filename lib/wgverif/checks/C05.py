"""C05 — the LTE wall velocity conserves entropy flux; sentinels mean what they say.

Oracle: S(v) = T+ gamma+ - T- gamma- evaluated on matchings from the real findMatching(v)
(each one validated on the spot by the C02 flux oracle and the C03 reference flow, so a
broken matching cannot vouch for a broken LTE velocity).
  interior result  : |S(v*)| <= |dS/dv| * 2(atol + rtol v*) + noise
  sentinel 1       : S > 0 on 24 velocities spanning the deflagration/hybrid window
  sentinel 0       : S < 0 already at the smallest allowed velocity
Parameter points whose deciding |S|/T_n is below MARGIN are excluded (the property's
"stated margin") and counted.
"""
from __future__ import annotations

import math

import numpy as np

from wgverif import env  # noqa: F401
from wgverif.checks import _hydro as HY
from wgverif.models import eos as E
from wgverif.models import potentials as P
from wgverif.oracles import fluid as F

PROPERTY = "C05"
RULE = ("random analytic equations of state as in C02 (template family weighted towards "
        "alpha_n where all three outcomes occur); per EOS one findvwLTE() of the general "
        "solver (and of the template solver on template-form EOS) judged by a 24-point scan "
        "of the entropy mismatch on validated matchings.  Non-trivial: a decided interior "
        "result or a decided sentinel; distinct by (EOS, setting, solver, outcome).")
ASSUMPTIONS = [
    "S(v) is evaluated on matchings of the real findMatching that pass the flux oracle "
    "(1e-6) and whose reference flow reaches T_n (1e-4)",
    "MARGIN = 1e-3: points with |S|/T_n below it at the deciding end are excluded",
]
CASE_TIMEOUT = 240
CHUNK = 1
SETTINGS = [(1e-6, 1e-10), (1e-8, 1e-10)]
MARGIN = 1e-3
FLOORS = {
    "quick": {"distinct_nontrivial": 60,
              "mon": {"findvwLTE": 80, "scan_matchings": 1500, "manager.wallSpeedLTE": 12,
                      "manager_resetups": 6},
              "cls": {"interior": 15, "sentinel-1": 6, "sentinel-0": 2,
                      "history:mutate-resetup": 5}},
    "thorough": {"distinct_nontrivial": 1200,
                 "mon": {"findvwLTE": 1600, "scan_matchings": 30000,
                         "manager.wallSpeedLTE": 100, "manager_resetups": 50},
                 "cls": {"interior": 300, "sentinel-1": 200, "sentinel-0": 40,
                         "history:mutate-resetup": 40}},
}


def worker_init():
    env.import_wallgo()


def generate(tier, seed):
    rng = np.random.default_rng(5000 + seed)
    n = 160 if tier == "quick" else 2500
    cases = []
    for i in range(n):
        if rng.random() < 0.6:
            # template family near the LTE window: alpha_n a little above (1-psi)/3
            psiN = float(rng.uniform(0.5, 0.99))
            alN = (1 - psiN) / 3 + float(10 ** rng.uniform(-3, -0.3))
            if rng.random() < 0.3:
                # too weak for any LTE solution: the static sentinel is the documented answer
                alN = (1 - psiN) / 3 * float(rng.uniform(0.3, 0.98))
            cs2 = float(rng.uniform(0.2, 1 / 3))
            cb2 = float(rng.uniform(0.2, 1 / 3))
            if rng.random() < 0.3:
                cs2 = cb2 = 1 / 3
            spec = {"family": "template", "alN": alN, "psiN": psiN, "cb2": cb2, "cs2": cs2,
                    "Tn": 1.0, "s": float(10 ** rng.uniform(-2.5, 2.5))}
        else:
            spec = E.random_spec(rng)
        cases.append({"i": i, "spec": spec, "setting": int(rng.integers(len(SETTINGS))),
                      "s": int(rng.integers(1 << 30))})
    # manager-level histories on numerically traced potentials: the velocity handed out by
    # WallGoManager.wallSpeedLTE() must be the LTE velocity of the model *as it is now*
    rng2 = np.random.default_rng(5500 + seed)
    for i in range(8 if tier == "quick" else 60):
        pspec = P.random_poly1(rng2)
        ops = [str(x) for x in rng2.choice(["mutate-resetup", "resetup", "mutate-reregister",
                                             "mutate-resetup-newTn"],
                                            size=int(rng2.integers(1, 4)),
                                            p=[0.55, 0.15, 0.15, 0.15])]
        if "mutate-resetup" not in ops:
            ops[int(rng2.integers(len(ops)))] = "mutate-resetup"
        cases.append({"i": 100000 + i, "history": True, "pspec": pspec, "ops": ops,
                      "setting": int(rng2.integers(len(SETTINGS))),
                      "s": int(rng2.integers(1 << 30))})
    return cases


def entropy_S(probe, v, mon, need_flow=True):
    """S(v)/T_n on a validated matching, or None."""
    m = probe.matching(v)
    mon["scan_matchings"] += 1
    if m.get("none") or m["error"] or m["branch"] == "detonation":
        return None
    vals = [m["vp"], m["vm"], m["Tp"], m["Tm"]]
    if not all(np.isfinite(vals)) or not (0 < m["vp"] < 1 and 0 < m["vm"] < 1):
        return None
    r1, r2 = probe.flux_residuals(*vals)
    if abs(r1) > 1e-6 or abs(r2) > 1e-6:
        return None
    if need_flow:
        try:
            tn, _, _ = probe.ref_Tn(v, m["vp"], m["Tp"])
        except (F.RefCapExceeded, F.RefFailed):
            return None
        if abs(tn - probe.Tn) > 1e-4 * probe.Tn:
            return None
    S = m["Tp"] * math.sqrt(HY.g2(m["vp"])) - m["Tm"] * math.sqrt(HY.g2(m["vm"]))
    return S / probe.Tn


def judge(probe, solver, vlte, scan, mon, spec, viol, classes, keys, key0, rtol, atol):
    hyd = probe.hyd
    valid = [(v, s) for v, s in scan if s is not None]
    obs = {"solver": solver, "vwLTE": vlte, "n_scan_valid": len(valid)}
    if len(valid) < 14:
        classes.append(f"{solver}:scan-too-sparse")
        return obs
    svals = np.array([s for _, s in valid])
    obs["S_first"], obs["S_last"] = float(svals[0]), float(svals[-1])
    obs["S_min"], obs["S_max"] = float(svals.min()), float(svals.max())
    if not np.isfinite(vlte):
        viol.append({"mech": f"{solver}-findvwLTE-not-finite", "msg": f"findvwLTE()={vlte}",
                     "data": obs})
        return obs
    if 0 < vlte < 1:
        h = max(1e-4, 10 * (atol + rtol * vlte))
        s0 = entropy_S(probe, vlte, mon)
        sa = entropy_S(probe, vlte - h, mon)
        sb = entropy_S(probe, min(vlte + h, hyd.vJ * (1 - 1e-9)), mon)
        if s0 is None or sa is None or sb is None:
            classes.append(f"{solver}:interior-probe-failed")
            return obs
        slope = abs(sb - sa) / (2 * h)
        # The solver finds the root of G(v) = T_n'(v) - T_n along the entropy-conserving
        # matching; G carries the shock-integration noise (C03 calibration: 30 rtol T_n +
        # 4 atol), which moves the root by noise/|G'|.  G' is measured through the real
        # matchDeflagOrHyb + solveHydroShock at v* +- h.
        gs = []
        for sgn in (-1, 1):
            try:
                vv = vlte + sgn * h
                vp_, _, Tp_, _ = hyd.matchDeflagOrHyb(vv)
                if not hyd.success:
                    raise ValueError("matching failed")
                gs.append(float(hyd.solveHydroShock(vv, float(vp_), float(Tp_))) / probe.Tn)
            except Exception:
                gs = None
                break
        if gs is None or gs[0] == gs[1]:
            classes.append(f"{solver}:interior-probe-failed")
            return obs
        gprime = abs(gs[1] - gs[0]) / (2 * h)
        # is v* a root of the solver's own condition at all?
        try:
            vp_, _, Tp_, _ = hyd.matchDeflagOrHyb(vlte)
            g0 = float(hyd.solveHydroShock(vlte, float(vp_), float(Tp_))) / probe.Tn - 1.0
        except Exception:
            g0 = None
        obs["G_at_result"] = g0
        g_tol = gprime * 2 * (atol + rtol * vlte) + 30 * rtol + 4 * atol / probe.Tn
        not_a_root = solver == "general" and g0 is not None and abs(g0) > 10 * g_tol
        dv = 2 * (atol + rtol * vlte) + (30 * rtol + 4 * atol / probe.Tn) / gprime
        # noise of S itself through T+ and the v+ root of findMatching
        tol = slope * dv + 60 * rtol + 8 * atol / probe.Tn + 1e-9
        obs.update(S_at_result=s0, tol=tol, slope=slope, Gprime=gprime)
        if abs(s0) > tol:
            mech = f"{solver}-lte-velocity-does-not-conserve-entropy"
            if not_a_root:
                # the entropy-conserving matching at v* does not reach T_n: the root search
                # over v_w converged to a jump of its own function (the 2x2 matching switches
                # solutions / fails on one side)
                mech = "lte-root-search-converged-to-discontinuity"
            viol.append({"mech": mech,
                         "msg": f"{solver} findvwLTE()={vlte:.9f} on {spec}: "
                         f"(T+g+ - T-g-)/T_n = {s0:.3e} > tol {tol:.1e} (dS/dv={slope:.2e})",
                         "data": obs})
        classes.append("interior")
        keys.append(f"{key0}:{solver}:interior")
        return obs
    if vlte == 1:
        deciding = float(np.min(np.abs(svals)))
        obs["deciding_S"] = deciding
        if deciding < MARGIN:
            classes.append("excluded-by-margin")
            return obs
        if np.any(svals < 0):
            j = int(np.argmax(svals < 0))
            viol.append({"mech": f"{solver}-runaway-sentinel-although-entropy-mismatch-changes-sign",
                         "msg": f"{solver} findvwLTE()=1 on {spec} but S changes sign: "
                         f"S({valid[0][0]:.4f})={svals[0]:.3e}, S({valid[j][0]:.4f})="
                         f"{svals[j]:.3e}", "data": obs})
        classes.append("sentinel-1")
        keys.append(f"{key0}:{solver}:one")
        return obs
    if vlte == 0:
        deciding = float(abs(svals[0]))
        obs["deciding_S"] = deciding
        if deciding < MARGIN:
            classes.append("excluded-by-margin")
            return obs
        if svals[0] > 0:
            later = svals[svals < 0]
            mech = f"{solver}-static-sentinel-although-mismatch-positive-at-vmin"
            t = probe.tmpl
            if solver == "general":
                try:
                    o = [float(x) for x in hyd.matchDeflagOrHyb(hyd.vMin)]
                    r = probe.flux_residuals(*o)
                    if (not hyd.success) or abs(r[0]) > 1e-3 or not all(np.isfinite(o)):
                        # the entropy-conserving matching at exactly vMin did not converge;
                        # its garbage T_n' decided the sentinel
                        mech = "lte-static-sentinel-from-nonconverged-matching-at-vmin"
                except Exception:
                    pass
            if solver == "template" and t.alN <= (t.mu - t.nu) / (3 * t.mu) \
                    and t.alN >= (1 - t.psiN) / 3:
                # only the short-cut 'alN <= (mu-nu)/(3 mu) -> 0' can have produced this 0
                mech = "template-lte-alpha-shortcut-cb-gt-cs"
            viol.append({"mech": mech,
                         "msg": f"{solver} findvwLTE()=0 on {spec} but S(vmin={valid[0][0]:.4f})="
                         f"{svals[0]:.3e} > 0"
                         + (f" and S turns negative later (min {later.min():.3e}): an interior "
                            f"root exists" if later.size else ""), "data": obs})
        classes.append("sentinel-0")
        keys.append(f"{key0}:{solver}:zero")
        return obs
    viol.append({"mech": f"{solver}-findvwLTE-out-of-range", "msg": f"findvwLTE()={vlte}",
                 "data": obs})
    return obs


def run_history_case(case):
    """One WallGoManager driven through set-up / wallSpeedLTE / in-place parameter change /
    set-up again ...; after every step the velocity handed out is judged on the manager's
    *current* thermodynamics and hydrodynamics objects."""
    from wgverif.checks import _manager as MG
    import WallGo
    rng = np.random.default_rng(case["s"])
    rtol, atol = SETTINGS[case["setting"]]
    mon = {"findvwLTE": 0, "template.findvwLTE": 0, "scan_matchings": 0,
           "manager.wallSpeedLTE": 0, "manager_resetups": 0}
    spec = dict(case["pspec"])
    key0 = f"history:{case['i']}:{case['setting']}"
    viol, classes, keys, steps = [], [], [], []
    try:
        built = MG.build(spec, {"hydro_rtol": rtol, "hydro_atol": atol, "phaseTracerTol": 1e-7})
    except Exception as exc:
        return {"key": key0, "cls": "history:setup-raised", "nontrivial": False,
                "obs": {"error": repr(exc)[:300], "spec": spec}, "viol": [], "mon": mon}
    manager, pot, model = built["manager"], built["pot"], built["model"]
    Tn = built["Tn"]

    def judge_now(tag):
        try:
            v = float(manager.wallSpeedLTE())
        except Exception as exc:
            classes.append("history:wallSpeedLTE-raised")
            steps.append({"step": tag, "error": repr(exc)[:200]})
            return
        mon["manager.wallSpeedLTE"] += 1
        probe = HY.HydroProbe.from_objects(manager.thermodynamics, manager.hydrodynamics,
                                           rtol, atol, spec)
        hyd = probe.hyd
        lo = max(hyd.vMin, 1e-3) * (1 + 1e-6) + 1e-9
        hi = hyd.vJ * (1 - 1e-6)
        if hi <= lo * 1.01:
            classes.append("history:window-empty")
            return
        grid = np.unique(np.concatenate([np.geomspace(lo, hi, 12), np.linspace(lo, hi, 14)]))
        try:
            scan = [(float(x), entropy_S(probe, float(x), mon)) for x in grid]
        except Exception as exc:
            classes.append("history:scan-raised")
            steps.append({"step": tag, "vwLTE": v, "scan_error": repr(exc)[:200]})
            return
        n0 = len(viol)
        try:
            o = judge(probe, "manager", v, scan, mon, spec, viol, classes, keys,
                      f"{key0}:{tag}", rtol, atol)
        except Exception as exc:     # e.g. WallGoError: probe velocity outside a traced range
            classes.append("history:judge-raised")
            steps.append({"step": tag, "vwLTE": v, "judge_error": repr(exc)[:200]})
            return
        # the same question asked of the current hydrodynamics object directly
        try:
            v_direct = float(manager.hydrodynamics.findvwLTE())
            mon["findvwLTE"] += 1
            tol = 4 * (atol + rtol * max(abs(v_direct), 1e-3)) + 1e-12
            o["direct"] = v_direct
            if abs(v - v_direct) > tol:
                viol.append({"mech": "manager-wallSpeedLTE-not-that-of-the-current-model",
                             "msg": f"after {tag}: manager.wallSpeedLTE()={v!r} but "
                             f"manager.hydrodynamics.findvwLTE()={v_direct!r} on the objects "
                             f"the manager holds now (ops {case['ops']}, {spec})",
                             "data": {"step": tag, "v": v, "v_direct": v_direct}})
        except Exception as exc:
            o["direct_error"] = repr(exc)[:200]
        for x in viol[n0:]:
            x["msg"] = f"[history step {tag}] " + x["msg"]
        steps.append({"step": tag, **{k: o.get(k) for k in ("vwLTE", "direct", "S_first",
                                                            "S_last")}})

    judge_now("0:setup")
    for k, op in enumerate(case["ops"]):
        tag = f"{k + 1}:{op}"
        newTn = Tn
        if op.startswith("mutate"):
            # change couplings in place on the registered potential object; keep T0 < Tn < Tc
            for _ in range(50):
                fE = 1 + float(rng.choice([-1, 1])) * float(rng.uniform(0.02, 0.06))
                fl = 1 + float(rng.choice([-1, 1])) * float(rng.uniform(0.02, 0.06))
                E2, l2 = pot.E * fE, pot.lam * fl
                d = l2 * pot.D - E2 ** 2
                if d <= 0:
                    continue
                Tc2 = pot.T0 * math.sqrt(l2 * pot.D / d)
                if pot.T0 * 1.004 < Tn < Tc2 - 0.25 * (Tc2 - pot.T0):
                    pot.E, pot.lam = E2, l2
                    spec["E"], spec["lam"] = E2, l2
                    break
            else:
                classes.append("history:no-admissible-mutation")
                continue
        if op.endswith("newTn"):
            Tc2 = pot.Tc()
            newTn = pot.T0 + float(rng.uniform(0.35, 0.8)) * (Tc2 - pot.T0)
        if op == "mutate-reregister":
            manager.registerModel(model)
        ph = pot.phases(newTn)
        if ph["high"] is None or ph["low"] is None:
            classes.append("history:phases-missing")
            continue
        fs = pot.field_scale(newTn)
        phaseInfo = WallGo.PhaseInfo(temperature=newTn,
                                     phaseLocation1=WallGo.Fields(pot.to_code(ph["high"] + 0.01 * fs)),
                                     phaseLocation2=WallGo.Fields(pot.to_code(ph["low"] - 0.01 * fs)))
        Tc2 = pot.Tc()
        scales = WallGo.VeffDerivativeSettings(
            temperatureVariationScale=float(Tc2 - newTn if Tc2 > newTn else 0.1 * newTn),
            fieldValueVariationScale=float(fs))
        try:
            manager.setupThermodynamicsHydrodynamics(phaseInfo, scales)
        except Exception as exc:
            classes.append("history:resetup-raised")
            steps.append({"step": tag, "error": repr(exc)[:200]})
            break
        mon["manager_resetups"] += 1
        Tn = newTn
        judge_now(tag)
        classes.append("history:" + op)
    return {"key": key0, "cls": classes or ["history:undecided"], "nontrivial": bool(keys),
            "obs": {"spec": case["pspec"], "ops": case["ops"], "steps": steps},
            "viol": viol, "mon": mon, "keys": keys}


def run_case(case):
    if case.get("history"):
        return run_history_case(case)
    spec = case["spec"]
    rtol, atol = SETTINGS[case["setting"]]
    mon = {"findvwLTE": 0, "template.findvwLTE": 0, "scan_matchings": 0,
           "manager.wallSpeedLTE": 0, "manager_resetups": 0}
    eos = E.build(spec)
    ok, why = E.admissible(eos)
    key0 = f"{spec['family']}:{case['i']}:{case['setting']}"
    if not ok:
        return {"key": key0, "cls": "inadmissible-eos", "nontrivial": False,
                "obs": {"why": why}, "viol": [], "mon": mon}
    try:
        probe = HY.HydroProbe(spec, rtol, atol)
    except Exception as exc:
        return {"key": key0, "cls": "construction-error", "nontrivial": False,
                "obs": {"error": repr(exc)[:200]}, "viol": [], "mon": mon}
    hyd, tmpl = probe.hyd, probe.tmpl
    viol, classes, keys = [], [], []
    is_template_form = spec["family"] in ("bag", "template")
    try:
        v_gen = float(hyd.findvwLTE())
        mon["findvwLTE"] += 1
    except Exception as exc:
        return {"key": key0, "cls": "findvwLTE-raised", "nontrivial": False,
                "obs": {"error": repr(exc)[:200], "spec": spec}, "viol": [], "mon": mon}
    lo = max(hyd.vMin, 1e-3) * (1 + 1e-6) + 1e-9
    hi = hyd.vJ * (1 - 1e-6)
    if hi <= lo * 1.01:
        return {"key": key0, "cls": "window-empty", "nontrivial": False,
                "obs": {"spec": spec}, "viol": [], "mon": mon}
    grid = np.unique(np.concatenate([np.geomspace(lo, hi, 12), np.linspace(lo, hi, 14)]))
    scan = [(float(v), entropy_S(probe, float(v), mon)) for v in grid]
    obs = {"spec": spec, "rtol": rtol, "atol": atol, "vJ": hyd.vJ, "vMin": hyd.vMin}
    obs["general"] = judge(probe, "general", v_gen, scan, mon, spec, viol, classes, keys, key0,
                           rtol, atol)
    if is_template_form:
        try:
            v_t = float(tmpl.findvwLTE())
            mon["template.findvwLTE"] += 1
            obs["template"] = judge(probe, "template", v_t, scan, mon, spec, viol, classes,
                                    keys, key0, rtol, atol)
        except Exception as exc:
            obs["template_error"] = repr(exc)[:200]
            classes.append("template-findvwLTE-raised")
    return {"key": key0, "cls": classes or ["undecided"], "nontrivial": bool(keys), "obs": obs,
            "viol": viol, "mon": mon, "keys": keys}
