"""C02 — energy and momentum flux conserved across the wall; boundary constants equal the
fluxes; an exact matching is returned where one exists.

Contract-at-a-hook: every result of the real Hydrodynamics.findMatching /
findHydroBoundaries (and the template-model counterparts on template-form equations of
state) is judged by fluxes recomputed from the closed-form EOS, with a tolerance
propagated from the tolerances the object was built with (DESIGN 2.3-2).
"""
from __future__ import annotations

import itertools
import math

import numpy as np

from wgverif import env  # noqa: F401
from wgverif.checks import _hydro as HY
from wgverif.models import eos as E
from wgverif.models import potentials as P
from wgverif.oracles import fluid as F

PROPERTY = "C02"
RULE = ("random analytic equations of state (bag / constant-sound-speed template / "
        "polynomial two-step; unit factor over five decades; nucleation temperature and "
        "strength random) x tolerance setting x wall velocities in [vMin,0.99] with "
        "emphasis on slow walls, c_b, and both sides of vJ.  One evaluation = one "
        "findMatching result judged.  Non-trivial: a returned matching of the general "
        "solver that was not produced by the template fallback; distinct by (EOS "
        "parameters, tolerance setting, v_w rounded to 1e-9, branch).")
ASSUMPTIONS = [
    "fluxes are evaluated with the closed-form p(T), p'(T), p''(T) of the analytic EOS",
    "tolerance = spread of the flux residual under a perturbation of the solver's unknowns "
    "by 4x its configured tolerance, floor 1e-9 (relative)",
    "traced-potential equations of state are covered passively by the contract during the "
    "manager workloads of C01/C05/C07, not here",
]
CASE_TIMEOUT = 300
CHUNK = 2
SETTINGS = [(1e-6, 1e-6), (1e-6, 1e-10), (1e-8, 1e-10)]   # (rtol, atol) as in config
FLOOR = 1e-9
K_HYBR = 100
FLOORS = {
    "quick": {"distinct_nontrivial": 400,
              "mon": {"findMatching": 800, "findHydroBoundaries": 400,
                      "template.findMatching": 150, "traced_setups": 10},
              "cls": {"deflagration": 100, "hybrid": 60, "detonation": 100,
                      "traced:deflagration": 15, "traced:hybrid": 8, "traced:detonation": 8}},
    "thorough": {"distinct_nontrivial": 10000,
                 "mon": {"findMatching": 20000, "findHydroBoundaries": 10000,
                         "template.findMatching": 4000, "traced_setups": 100},
                 "cls": {"deflagration": 2500, "hybrid": 1500, "detonation": 2500,
                         "traced:deflagration": 200, "traced:hybrid": 100,
                         "traced:detonation": 100}},
}


def worker_init():
    env.import_wallgo()


def generate(tier, seed):
    rng = np.random.default_rng(2000 + seed)
    n_eos, n_v = (200, 8) if tier == "quick" else (3000, 12)
    cases = []
    for i in range(n_eos):
        spec = E.random_spec(rng)
        cases.append({"i": i, "spec": spec, "setting": int(rng.integers(len(SETTINGS))),
                      "nv": n_v, "s": int(rng.integers(1 << 30))})
    # numerically traced potentials: the real WallGoManager set-up (phase tracing,
    # interpolation, extrapolation) supplies the equation of state
    rng2 = np.random.default_rng(2500 + seed)
    for i in range(16 if tier == "quick" else 160):
        fam = ["poly1", "bag1", "poly2"][int(rng2.choice(3, p=[0.5, 0.25, 0.25]))]
        pspec = getattr(P, "random_" + fam)(rng2)
        cases.append({"i": 100000 + i, "traced": True, "pspec": pspec,
                      "setting": int(rng2.integers(len(SETTINGS))),
                      "ptol": float(rng2.choice([1e-6, 1e-8])),
                      "nv": 6 if tier == "quick" else 10, "s": int(rng2.integers(1 << 30))})
    return cases


# ----------------------------------------------------------------------------- oracles
def propagated_tol(probe, m, cls):
    """Admissible flux residuals for this very matching."""
    vp, vm, Tp, Tm = m["vp"], m["vm"], m["Tp"], m["Tm"]
    rtol, atol = probe.rtol, probe.atol
    r0 = probe.flux_residuals(vp, vm, Tp, Tm)
    spread1 = spread2 = 0.0
    if cls == "detonation":
        # brentq on T- with xtol=atol, rtol: sensitivity of the residual to T- over
        # +-4(atol + rtol T-), (a) with v- following the junction relations, (b) at fixed v-.
        # Only differences between perturbed evaluations enter, never the reported
        # residual itself (a wrong v- must not inflate its own tolerance).
        d = 2 * (atol + rtol * Tm)       # brentq guarantees |root error| <= xtol + rtol|x|
        h = 1e-7 * Tm                    # small probe step: stay inside the physical domain
        tot = []
        for s in (-1, 1):
            Tm2 = Tm + s * h
            vpvm, vpovm = probe.junction_vm(vp, Tp, Tm2)
            if vpvm / vpovm > 0 and 0 < math.sqrt(vpvm / vpovm) < 1:
                tot.append(probe.flux_residuals(vp, math.sqrt(vpvm / vpovm), Tp, Tm2))
        fix = [probe.flux_residuals(vp, vm, Tp, Tm + s * h) for s in (-1, 1)]
        for pair in (tot, fix):
            if len(pair) == 2:
                spread1 = max(spread1, abs(pair[0][0] - pair[1][0]) / (2 * h) * d)
                spread2 = max(spread2, abs(pair[0][1] - pair[1][1]) / (2 * h) * d)
        if len(tot) < 2:
            raise ValueError("detonation tolerance probe left the physical domain")
    else:
        # hybr works on x = tan(pi (T - mid)/range) and stops on a *relative* step xtol
        # whose numerical value is the object's atol: dT = xtol |x| (range/pi)/(1+x^2)
        rng_ = probe.hyd.TMaxHydro - probe.hyd.TMinHydro
        mid = 0.5 * (probe.hyd.TMaxHydro + probe.hyd.TMinHydro)

        def dT(T):
            x = math.tan(math.pi * (T - mid) / rng_)
            # K_HYBR: hybr stops when its trust-region step is below xtol*|x|; that bounds
            # the last step, not the error.  Calibration on the unchanged tree: with K=4 the
            # worst converged matching (slow wall, xtol=1e-6) sat at 21x the linearly
            # propagated spread; K=100 leaves a factor ~5 and is still >3 decades below
            # the smallest genuine failure seen (1e-2 at xtol=1e-10).
            # Slow walls: both equations are O(v_w^2), so their conditioning in T grows like
            # 1/v_w^2 (a backward-stable solve would only guarantee dT/T ~ xtol/v_w^2).
            # Thorough tier, unchanged tree: converged matchings at v_w = 1.4e-3 sit at 207x
            # the hybr step bound (energy-flux mismatch 8e-8 at xtol = 1e-10).  K grows like
            # 0.01/v_w below v_w = 0.01 -- at 1e-3 that is 1e3 xtol, still 2.5 decades
            # inside the backward-error bound and 4 decades below the failures of the
            # known slow-wall findings (1e-2 .. O(1)).
            k = K_HYBR * max(1.0, 0.01 / max(m["vw"], 1e-6))
            return k * max(atol * abs(x) * (rng_ / math.pi) / (1 + x * x), 1e-13 * T)

        dp, dm = dT(Tp), dT(Tm)
        # only differences between evaluations that are consistent among themselves enter
        # (for a hybrid v- follows c_b(T-)); the reported v- must not inflate its own
        # tolerance
        vm0 = math.sqrt(probe.eos.ref("L", Tm)["csq"]) if cls == "hybrid" else vm
        base = probe.flux_residuals(vp, vm0, Tp, Tm)
        for sp, sm in itertools.product((-1, 0, 1), repeat=2):
            if sp == 0 and sm == 0:
                continue
            Tm2 = Tm + sm * dm
            vm2 = vm
            if cls == "hybrid":
                vm2 = math.sqrt(probe.eos.ref("L", Tm2)["csq"])
            v = probe.flux_residuals(vp, vm2, Tp + sp * dp, Tm2)
            spread1 = max(spread1, abs(v[0] - base[0]))
            spread2 = max(spread2, abs(v[1] - base[1]))
    return r0, spread1 + FLOOR, spread2 + FLOOR


def exact_matching_exists(probe, vw):
    """For a fallback result on a non-template EOS: scan v+ with the real (and separately
    flux-validated) matchDeflagOrHyb + the reference integrator for a sign change of
    T_n'(v+) - T_n."""
    hyd = probe.hyd
    # v+ can reach cs^2(T+)/vw with T+ > T_n: take the largest sound speed ahead of the
    # wall over a generous temperature range for the upper end of the scan
    csqn = max(probe.eos.ref("H", probe.Tn * f)["csq"] for f in np.linspace(1.0, 2.0, 21))
    vpmax = min(vw, csqn / vw)
    vals = []      # (vp, Tn'-Tn, scan index, Tp, Tm)   reference flow evaluated
    sonic = []     # (vp, g = vp*vw - cs^2(Tp), scan index, Tp, Tm)   every validated matching
    grid = np.unique(np.concatenate([np.linspace(1e-3, vpmax * (1 - 1e-9), 40),
                                     np.linspace(0.9 * vpmax, vpmax * (1 - 1e-9), 25)]))
    for k, vp in enumerate(grid):
        try:
            vp_, vm_, Tp_, Tm_ = hyd.matchDeflagOrHyb(vw, float(vp))
            if not hyd.success:
                continue
            r1, r2 = probe.flux_residuals(float(vp_), float(vm_), float(Tp_), float(Tm_))
            if abs(r1) > 1e-6 or abs(r2) > 1e-6:
                continue
            # a matching whose temperatures lie outside the tabulated range of a phase (for a
            # traced potential: beyond a spinodal, on the extrapolated equation of state) is
            # not one the solver has to return
            if not (hyd.TMinHighT <= float(Tp_) <= hyd.TMaxHighT
                    and hyd.TMinLowT <= float(Tm_) <= hyd.TMaxLowT):
                continue
            g = float(vp_) * vw - probe.eos.ref("H", float(Tp_))["csq"]
            sonic.append((float(vp), g, k, float(Tp_), float(Tm_)))
            if g >= 0:
                continue          # beyond the sonic limit: no shock ahead of this wall
            tn, _, _ = probe.ref_Tn(vw, float(vp_), float(Tp_))
            vals.append((float(vp), tn - probe.Tn, k, float(Tp_), float(Tm_)))
        except Exception:
            continue

    def close(a, b):
        return b[2] - a[2] == 1 and abs(b[3] - a[3]) < 0.03 * a[3] and \
            abs(b[4] - a[4]) < 0.03 * a[4]
    # A sign change proves a root only on one continuous family of matchings: the two
    # points must be adjacent scan points and their temperatures close (the 2x2 solve can
    # land on another solution branch, e.g. in the extrapolated region beyond a phase end,
    # and a sign change across such a jump proves nothing).
    change = False
    for a, b in zip(vals, vals[1:]):
        if a[1] == 0 or b[1] == 0 or np.sign(a[1]) == np.sign(b[1]):
            continue
        if close(a, b):
            change = True
    # The upper end of the family is the sonic limit v+ v_w = c_s^2(T+), where the shock
    # is infinitely weak and T_n' = T+: if T+ > T_n there while T_n' < T_n at the last
    # point below, the root lies in between (no reference flow needed, nor possible, there)
    if not change:
        for a, b in zip(sonic, sonic[1:]):
            if a[1] < 0 <= b[1] and close(a, b):
                t = -a[1] / (b[1] - a[1])
                Tp_star = a[3] + t * (b[3] - a[3])
                below = [v for v in vals if v[2] <= a[2]]
                if below and close(below[-1], b) or (below and below[-1][2] == a[2]):
                    if below[-1][1] < 0 < Tp_star - probe.Tn:
                        change = True
    return change, len(vals), [v[:2] for v in vals[:3]]


def judge_boundaries(probe, m, hb, viol, tol1, tol2, tag):
    c1, c2, Tp, Tm, vmid = hb
    fl = probe.fluxes(m)
    obs = {}
    if Tp != m["Tp"] or Tm != m["Tm"]:
        viol.append({"mech": f"{tag}boundaries-temperatures-differ-from-matching",
                     "msg": f"findHydroBoundaries({m['vw']}) returned T+-=({Tp},{Tm}) but "
                     f"findMatching returned ({m['Tp']},{m['Tm']})", "data": {}})
    e_mid = abs(vmid + 0.5 * (m["vp"] + m["vm"]))
    if e_mid > 4e-16:
        viol.append({"mech": f"{tag}velocityMid-wrong",
                     "msg": f"velocityMid={vmid} != -(v+ + v-)/2={-0.5 * (m['vp'] + m['vm'])} "
                     f"at vw={m['vw']}", "data": {}})
    # sign convention: c1 = -(energy flux), c2 = +(momentum flux)
    r = {"c1_vs_F1p": (c1 + fl["F1p"]) / fl["F1p"], "c1_vs_F1m": (c1 + fl["F1m"]) / fl["F1p"],
         "c2_vs_F2p": (c2 - fl["F2p"]) / abs(fl["F2p"]),
         "c2_vs_F2m": (c2 - fl["F2m"]) / abs(fl["F2p"])}
    obs.update(r)
    if abs(r["c1_vs_F1p"]) > 1e-11 or abs(r["c2_vs_F2p"]) > 1e-11:
        viol.append({"mech": f"{tag}boundary-constants-not-the-upstream-fluxes",
                     "msg": f"c1={c1}, c2={c2} vs -F1+={-fl['F1p']}, F2+={fl['F2p']} at "
                     f"vw={m['vw']} (rel {r['c1_vs_F1p']:.2e}, {r['c2_vs_F2p']:.2e})",
                     "data": r})
    return obs, r


def flux_mech(cls, vw, tag="", m=None):
    """Mechanism of a conservation failure, from what the monitors saw at the call site."""
    if tag == "" and m is not None and cls != "detonation":
        if m.get("last_hybr_converged") is False and not m["success_flag"]:
            return "matching-returned-although-not-converged"
        if m.get("last_hybr_converged") is False and m["success_flag"] and \
                m.get("last_hybr_sumsq", 1.0) >= 1e-6:
            return "matching-accepted-with-residual-above-documented-threshold"
        if m.get("last_hybr_converged") is False and m["success_flag"]:
            # hybr reported failure; the result was accepted by the absolute criterion
            # sum(fun^2) < 1e-6 although the equations themselves are O(v^2)
            return "matching-accepted-on-absolute-residual"
        if m.get("last_hybr_converged") is True and m["success_flag"] and vw < 0.05:
            # hybr itself reported convergence (its step test, xtol), but the residual of
            # the code's own equations (each O(v_w^2), multiplied by c >= 36) is of the
            # order of the equations themselves: a false convergence at a slow wall
            rel = math.sqrt(max(m.get("last_hybr_sumsq") or 0.0, 0.0)) / (36 * vw * vw)
            if rel > 1e-2:
                return "matching-hybr-false-convergence-at-slow-wall"
    return f"{tag}flux-mismatch-{cls}"


def run_case(case):
    rng = np.random.default_rng(case["s"])
    rtol, atol_rel = SETTINGS[case["setting"]]
    mon = {"findMatching": 0, "findHydroBoundaries": 0, "template.findMatching": 0,
           "template.findHydroBoundaries": 0, "fallback_scans": 0, "traced_setups": 0}
    if case.get("traced"):
        from wgverif.checks import _manager as MG
        spec = case["pspec"]
        key0 = f"traced-{spec['family']}:{case['i']}:{case['setting']}"
        try:
            built = MG.build(spec, {"hydro_rtol": rtol, "hydro_atol": atol_rel,
                                    "phaseTracerTol": case["ptol"]})
        except Exception as exc:
            return {"key": key0, "cls": "traced:setup-raised", "nontrivial": False,
                    "obs": {"error": repr(exc)[:300], "spec": spec}, "viol": [], "mon": mon}
        mon["traced_setups"] += 1
        manager = built["manager"]
        probe = HY.HydroProbe.from_objects(manager.thermodynamics, manager.hydrodynamics,
                                           rtol, atol_rel, spec)
        eos = probe.eos
    else:
        spec = case["spec"]
        eos = E.build(spec)
        ok, why = E.admissible(eos)
        key0 = f"{spec['family']}:{case['i']}:{case['setting']}"
        if not ok:
            return {"key": key0, "cls": "inadmissible-eos", "nontrivial": False,
                    "obs": {"why": why}, "viol": [], "mon": mon}
        try:
            probe = HY.HydroProbe(spec, rtol, atol_rel)
        except Exception as exc:
            return {"key": key0, "cls": "construction-error", "nontrivial": False,
                    "obs": {"error": repr(exc)[:200]}, "viol": [], "mon": mon}
    hyd, tmpl = probe.hyd, probe.tmpl
    cb = math.sqrt(eos.ref("L", probe.Tn)["csq"])
    vws, kinds = HY.velocities(rng, hyd, case["nv"], cb, probe)
    viol, classes, keys, rows = [], [], [], []
    is_template_form = spec["family"] in ("bag", "template")
    for vw, kind in zip(vws, kinds):
        m = probe.matching(vw)
        mon["findMatching"] += 1
        row = {"vw": vw, "kind": kind, "branch": m["branch"]}
        if m.get("none") or m["error"]:
            classes.append("no-solution:" + m["branch"])
            row["outcome"] = m["error"] or "None"
            rows.append(row)
            continue
        ok_num = all(np.isfinite([m["vp"], m["vm"], m["Tp"], m["Tm"]])) and \
            0 < m["vp"] < 1 and 0 < m["vm"] < 1 and m["Tp"] > 0 and m["Tm"] > 0
        if not ok_num:
            # admissibility of the numbers is C06's subject; fluxes cannot be formed
            classes.append("unphysical-numbers")
            row["outcome"] = "unphysical"
            rows.append(row)
            continue
        cls = probe.classify(m)
        try:
            r0, t1, t2 = propagated_tol(probe, m, cls)
        except Exception as exc:
            classes.append("tolerance-probe-failed")
            row["outcome"] = repr(exc)[:100]
            rows.append(row)
            continue
        fl = probe.fluxes(m)
        rho1 = abs(m["vp"] * m["vm"] - (probe.junction_vm(0, m["Tp"], m["Tm"])[0])) / (
            m["vp"] * m["vm"])
        row.update(cls=cls, R1=r0[0], R2=r0[1], tol1=t1, tol2=t2, junction_rho1=rho1,
                   success_flag=m["success_flag"])
        fallback = m["branch"] == "template-fallback"
        judged_flux = True
        if fallback and not is_template_form:
            mon["fallback_scans"] += 1
            exists, npts, head = exact_matching_exists(probe, vw)
            row["fallback_scan"] = {"exact_exists": exists, "points": npts}
            if exists:
                fb_mech = "template-fallback-where-exact-matching-exists"
                if vw < 0.1 and (m.get("n_hybr_failed") or 0) > 0:
                    # the slow-wall family of the known findings: the 2x2 solves fail inside
                    # the v+ bracket (equations O(v_w^2) in absolute form, NaN template guess
                    # at small v+); since the repairs 6c2cf41/60b6410 a failure at the root
                    # ends in the template fallback instead of returning garbage
                    fb_mech = "slow-wall-matching-not-converged-falls-back-to-template"
                viol.append({"mech": fb_mech,
                             "msg": f"findMatching({vw}) fell back to the template model "
                             f"although T_n'(v+)-T_n changes sign on the scanned v+ "
                             f"interval ({npts} validated points) for EOS {spec}",
                             "data": row})
            judged_flux = False      # an allowed approximation: residual not judged
            classes.append("fallback-approximation")
        if judged_flux:
            if abs(r0[0]) > t1 or abs(r0[1]) > t2:
                viol.append({"mech": flux_mech(cls, vw, "", m),
                             "msg": f"{cls} at vw={vw:.6g} ({spec['family']}, rtol={rtol}, "
                             f"atol={atol_rel}, success={m['success_flag']}, branch "
                             f"{m['branch']}): energy-flux mismatch {r0[0]:.3e} (tol {t1:.1e})"
                             f", momentum-flux mismatch {r0[1]:.3e} (tol {t2:.1e})",
                             "data": {"spec": spec, **row, **m}})
            classes.append(cls)
            if case.get("traced"):
                classes.append("traced:" + cls)
            keys.append(f"{key0}:{vw:.9f}:{cls}")
        # boundary constants
        try:
            hb = hyd.findHydroBoundaries(vw)
            mon["findHydroBoundaries"] += 1
            if hb[0] is not None and not (hb[0] == 0 and hb[2] == 0):
                o, r = judge_boundaries(probe, m, hb, viol, t1, t2, "")
                row["boundaries"] = o
        except Exception as exc:
            row["boundaries_error"] = repr(exc)[:100]
        # template counterparts on template-form EOS
        if is_template_form and vw >= tmpl.vMin:
            try:
                tm = tmpl.findMatching(vw)
            except Exception as exc:
                tm = None
                row["template_error"] = repr(exc)[:100]
            mon["template.findMatching"] += 1
            if tm is not None and tm[0] is not None and np.all(np.isfinite(np.array(tm, float))):
                mt = {"vw": vw, "vp": float(tm[0]), "vm": float(tm[1]), "Tp": float(tm[2]),
                      "Tm": float(tm[3])}
                if 0 < mt["vp"] < 1 and 0 < mt["vm"] < 1 and mt["Tp"] > 0 and mt["Tm"] > 0:
                    rt = probe.flux_residuals(mt["vp"], mt["vm"], mt["Tp"], mt["Tm"])
                    row["template_R"] = list(rt)
                    # closed-form solver: T- from energy-flux conservation, T+ from the
                    # junction relation => conserved to rounding whatever v+ is
                    if abs(rt[0]) > 1e-9 or abs(rt[1]) > 1e-9:
                        viol.append({"mech": flux_mech(probe.classify(mt), vw, "template-"),
                                     "msg": f"template findMatching({vw:.6g}) on {spec}: flux "
                                     f"mismatch {rt[0]:.3e}, {rt[1]:.3e}", "data": mt})
                    classes.append("template:" + probe.classify(mt))
                    try:
                        hbt = tmpl.findHydroBoundaries(vw)
                        mon["template.findHydroBoundaries"] += 1
                        if hbt[0] is not None and hbt[4] is not None:
                            judge_boundaries(probe, mt, hbt, viol, 1e-9, 1e-9, "template-")
                    except Exception as exc:
                        row["template_hb_error"] = repr(exc)[:100]
        rows.append(row)
    obs = {"spec": spec, "rtol": rtol, "atol_rel": atol_rel, "vJ": hyd.vJ, "vMin": hyd.vMin,
           "rows": rows[:4], "n_rows": len(rows),
           "maxR1_over_tol": max([abs(r["R1"]) / r["tol1"] for r in rows if "R1" in r] or [0]),
           "maxR2_over_tol": max([abs(r["R2"]) / r["tol2"] for r in rows if "R2" in r] or [0])}
    res = {"key": key0, "cls": classes or ["no-rows"], "nontrivial": bool(keys), "obs": obs,
           "viol": viol, "mon": mon, "keys": keys,
           "branches": [r["branch"] for r in rows]}
    return res


def finalize(results, tier, seed):
    br = {}
    for r in results:
        for b in r.get("branches", []):
            br["branch:" + b] = br.get("branch:" + b, 0) + 1
    return {"cls": br}


def summarize(results, tier):
    r1 = [r["obs"].get("maxR1_over_tol", 0) for r in results if not r["inconclusive"]]
    r2 = [r["obs"].get("maxR2_over_tol", 0) for r in results if not r["inconclusive"]]
    if not r1:
        return {}
    return {"residual_over_tolerance": {
        "energy_flux": {"median": float(np.median(r1)), "p99": float(np.percentile(r1, 99)),
                        "max": float(np.max(r1))},
        "momentum_flux": {"median": float(np.median(r2)), "p99": float(np.percentile(r2, 99)),
                          "max": float(np.max(r2))}}}
