"""C18 — interpolated functions honour their evaluation contract for every call history.

Model-based state-machine workload on the *real* ``InterpolatableFunction`` (and on the
real subclasses JbIntegral / JfIntegral / FreeEnergy).  Monitors, all installed from the
harness side:

  * recording ``_functionImplementation`` (the callable handed to the class) and a
    recording wrapper on ``InterpolatableFunction._evaluateDirectly``: which abscissae were
    evaluated directly, per call -> per-element *category* oracle and the input of the
    model's adaptive bookkeeping;
  * post-call wrappers on every public table/evaluation method: model-free *state
    invariants* (abscissae strictly increasing, range ends are the table ends, no
    non-finite row, spline knots are the table) after every call, also the nested ones
    (an adaptive update inside ``evaluate``);
  * a poisoning allocator: inside WallGo.interpolatableFunction ``np.empty`` returns
    NaN-filled arrays, so a result entry that is returned without ever being assigned is
    observable deterministically instead of being whatever the heap contained;
  * the executable reference model ``oracles/c18_interp_model.py`` (shape, category,
    ValueError, value with propagated tolerance, post-state) and the closed-form test
    functions (accuracy clause: Hall-Meyer spline bounds from the known sup |f''''|);
  * metamorphic: a twin object brought to the same (table, modes) by a different history
    must answer bit-identically; a fresh object reading the written file must reproduce
    the function to the '%.15g' rounding propagated through the table.

Every tolerance is computed per element from the case's own numbers (see the oracle file
for the models and the calibration notes).
"""
from __future__ import annotations

import functools
import os
import zlib

import numpy as np

from wgverif import env  # noqa: F401
from wgverif.oracles import c18_interp_model as M

PROPERTY = "C18"
RULE = ("random operation sequences (quick <=12, thorough <=40 ops) over {evaluate, "
        "derivative order 1-2 (inside / below / above / mixed / exactly on the ends; python "
        "scalar, 0-d, list, nested list, 1-D, 2-D), extendInterpolationTable, "
        "setExtrapolationType (all 16 pairs; the initial pair is enumerated), bursts of "
        "direct evaluations that reach the adaptive threshold, enable/disable adaptive, "
        "newInterpolationTable, direct evaluation, write+read} on analytic functions with "
        "1..4 components, optionally non-finite on an interval / half-line in one or all "
        "components, adaptive on and off, with and without an initial table; plus short "
        "sequences on the real JbIntegral, JfIntegral and FreeEnergy.  A sequence is "
        "non-trivial when it contains an out-of-range evaluation or a table change after "
        "creation; distinct by (workload, return dimension, adaptive, non-finite kind, "
        "initial mode pair, checksum of the executed op labels).")
ASSUMPTIONS = [
    "scipy.interpolate.CubicSpline is the reference for 'the spline value' (the code under "
    "test is WallGo's bookkeeping around it, not scipy)",
    "inputs are finite floats; empty inputs, NaN abscissae and derivative order > 2 are "
    "outside the quantifier",
    "when an adaptive update happens in the middle of a call, entries computed after it may "
    "follow the old or the new table (not judged for value, only for finiteness)",
    "out-of-range derivatives closer to the table than the finite-difference stencil are "
    "judged with the bound for a difference quotient across the table end",
    "operations whose documented outcome is undefined (fewer than two valid table points) "
    "are only checked for leaving a consistent state",
    "an extension into a gap that cannot hold the requested number of distinct floats has "
    "no defined post-state; only 'an automatic update must not make evaluate() raise' is "
    "judged there",
    "tables with fewer than four points are judged with the Lagrange remainder of the "
    "chord / parabola instead of the spline bound; with abscissae closer than 1e-9 "
    "(relative) the accuracy clause is not judged",
    "a table narrower than the finite-difference stencil: out-of-range derivatives next to "
    "it are judged for shape and finiteness only",
]
CASE_TIMEOUT = 120
CHUNK = 25
EXHAUSTIVE = {"quick": False, "thorough": False}
FLOORS = {
    "quick": {"distinct_nontrivial": 600,
              "mon": {"evaluate_calls": 3000, "derivative_calls": 1200,
                      "elements_value_judged": 10000, "elements_accuracy_judged": 4000,
                      "error_mode_raises": 150, "direct_batches": 800,
                      "table_updates_checked": 1200, "adaptive_updates": 100,
                      "state_invariant_checks": 10000, "history_twins": 400,
                      "file_roundtrips": 300, "poisoned_allocations": 3000,
                      "mode_pairs_x_shapes_observed": 180},
              "cls": {"R1": 120, "R2": 120, "R3": 120, "R4": 120, "adaptive-on": 250,
                      "adaptive-off": 250, "nan:interval": 40, "nan:above": 40,
                      "nan:below": 40, "ev:adaptive-update": 80, "ev:extend": 200,
                      "ev:write-read": 100, "sub:Jb": 12, "sub:Jf": 12, "sub:FreeEnergy": 12}},
    "thorough": {"distinct_nontrivial": 9000,
                 "mon": {"evaluate_calls": 150000, "derivative_calls": 60000,
                         "elements_value_judged": 500000, "error_mode_raises": 8000,
                         "table_updates_checked": 60000, "adaptive_updates": 5000,
                         "state_invariant_checks": 500000, "history_twins": 6000,
                         "file_roundtrips": 6000,
                         "mode_pairs_x_shapes_observed": 192},
                 "cls": {"R1": 2000, "R2": 2000, "R3": 2000, "R4": 2000,
                         "ev:adaptive-update": 2000, "sub:Jb": 60, "sub:Jf": 60,
                         "sub:FreeEnergy": 60}},
}

EPS = M.EPS
STATE = {"checks": 0, "poison": 0}
_INSTALLED = False
WRAPPED = ["evaluate", "derivative", "newInterpolationTable",
           "newInterpolationTableFromValues", "extendInterpolationTable",
           "setExtrapolationType", "readInterpolationTable", "scheduleForInterpolation",
           "_adaptiveInterpolationUpdate"]

# mechanism names of the defects of the unchanged tree (each decided by a predicate on the
# materialised call, see _classify_* below)
D1 = "scalar-valued-out-of-range-indexerror"
D2 = "derivative-full-input-passed-to-fd"
D3 = "derivative-stencil-inside-range-uninitialised"
D4 = "table-scalar-nonfinite-drops-all-rows"
D5 = "schedule-scalar-nonfinite-drops-all-points"
D6 = "extend-lower-arange-extra-abscissa"
D7 = "extend-upper-arange-overshoot"
D8 = "adaptive-update-zero-width-range"
D9 = "extend-evaluates-function-on-empty-block"
D10 = "adaptive-update-gap-below-float-spacing"


# ============================================================================ monitors
class _PoisonNumpy:
    """numpy proxy for the module under test: empty() comes back NaN-filled."""

    def __init__(self, real):
        self._np = real

    def __getattr__(self, name):
        return getattr(self._np, name)

    def empty(self, shape, dtype=float, **kw):
        STATE["poison"] += 1
        a = self._np.empty(shape, dtype=dtype, **kw)
        if a.dtype.kind == "f":
            a.fill(self._np.nan)
        return a


def state_problems(obj):
    """Model-free invariants of the table left behind in a real object."""
    if not obj.hasInterpolation():
        return []
    probs = []
    try:
        pts = np.asarray(obj._interpolationPoints, dtype=float)
        vals = np.asarray(obj._interpolationValues, dtype=float)
    except Exception as exc:  # noqa: BLE001
        return [("table-malformed", repr(exc)[:120])]
    R = obj._RETURN_VALUE_COUNT
    if pts.ndim != 1 or len(pts) < 2:
        return [("table-malformed", f"abscissae shape {pts.shape}")]
    if not np.all(np.isfinite(pts)) or not np.all(np.diff(pts) > 0):
        d = np.diff(pts)
        probs.append(("table-not-strictly-increasing",
                      f"min step {float(np.min(d))!r} at index {int(np.argmin(d))}"))
    if not (obj._rangeMin == pts[0] and obj._rangeMax == pts[-1]
            and obj.interpolationRangeMin() == pts[0]
            and obj.interpolationRangeMax() == pts[-1] and obj.numPoints() == len(pts)):
        probs.append(("table-range-ends-mismatch",
                      f"range [{obj._rangeMin!r},{obj._rangeMax!r}] vs table ends "
                      f"[{pts[0]!r},{pts[-1]!r}], numPoints {obj.numPoints()} vs {len(pts)}"))
    if vals.shape[:1] != (len(pts),) or vals.ndim > 2 or \
            (vals.ndim == 2 and vals.shape[1] != R) or (vals.ndim == 1 and R != 1):
        probs.append(("table-values-shape", f"values {vals.shape} for {len(pts)} abscissae, "
                      f"return dimension {R}"))
    elif not np.all(np.isfinite(vals)):
        probs.append(("table-nonfinite-row-kept",
                      f"{int(np.sum(~np.isfinite(vals)))} non-finite entries in the table"))
    sx = np.asarray(obj._interpolatedFunction.x)
    if sx.shape != pts.shape or not np.array_equal(sx, pts):
        probs.append(("spline-not-rebuilt-from-table",
                      f"spline has {len(sx)} knots, table {len(pts)} abscissae"))
    return probs


def _post_state(obj, where):
    STATE["checks"] += 1
    log = getattr(obj, "_c18_state", None)
    if log is None:
        return
    try:
        for mech, msg in state_problems(obj):
            log.append((mech, f"after {where}: {msg}"))
    except Exception as exc:  # noqa: BLE001
        log.append(("table-malformed", f"after {where}: {exc!r}"))


def install_monitors():
    """Idempotent; patches the class so that subclasses (FreeEnergy, Jb, Jf) are covered."""
    global _INSTALLED
    if _INSTALLED:
        return
    import WallGo.interpolatableFunction as mod
    cls = mod.InterpolatableFunction
    mod.np = _PoisonNumpy(np)

    def mk(orig, name):
        @functools.wraps(orig)
        def wrapper(self, *a, **k):
            try:
                return orig(self, *a, **k)
            finally:
                _post_state(self, name)
        return wrapper

    for name in WRAPPED:
        setattr(cls, name, mk(getattr(cls, name), name))
    orig_ed = cls._evaluateDirectly

    @functools.wraps(orig_ed)
    def evaluate_directly(self, x, bScheduleForInterpolation=True):
        log = getattr(self, "_c18_batches", None)
        if log is not None:
            log.append((np.array(x, dtype=float), bool(bScheduleForInterpolation),
                        bool(self._bUseAdaptiveInterpolation)))
        return orig_ed(self, x, bScheduleForInterpolation)

    cls._evaluateDirectly = evaluate_directly
    _INSTALLED = True


def worker_init():
    env.import_wallgo()
    install_monitors()


# ============================================================================ real side
def _make_real(fn, adaptive, n0, threshold):
    from WallGo import InterpolatableFunction

    class RecordedFunction(InterpolatableFunction):
        def __init__(self):
            super().__init__(bUseAdaptiveInterpolation=adaptive,
                             initialInterpolationPointCount=n0, returnValueCount=fn.R)
            self.raw_calls = 0

        def _functionImplementation(self, x):
            self.raw_calls += 1
            return fn.value(np.asanyarray(x, dtype=float))

    obj = RecordedFunction()
    obj._evaluationsUntilAdaptiveUpdate = threshold   # documented as runtime-tunable
    return obj


def _mode(name):
    from WallGo import EExtrapolationType
    return getattr(EExtrapolationType, name)


def _do(real, thunk):
    real._c18_batches = []
    real._c18_state = []
    res = exc = None
    try:
        res = thunk()
    except Exception as e:  # noqa: BLE001
        exc = e
    return res, exc, real._c18_batches, real._c18_state


def _adopt(model, real):
    if real.hasInterpolation():
        model.set_table(np.array(real._interpolationPoints, dtype=float),
                        np.array(real._interpolationValues, dtype=float))
    else:
        model.clear_table()
    model.lower = real.extrapolationTypeLower.name
    model.upper = real.extrapolationTypeUpper.name
    model.adaptive = bool(real._bUseAdaptiveInterpolation)
    model.pending = np.array(real._directlyEvaluatedAt, dtype=float).ravel()
    model.count = int(real._directEvaluateCount)


def _short(a, n=6):
    a = np.asarray(a)
    return np.array2string(a.ravel()[:n], precision=17, separator=",") + \
        ("..." if a.size > n else "")


# ============================================================================== judges
class Ctx:
    """Per-sequence accumulator."""

    def __init__(self, fn, case):
        self.fn = fn
        self.case = case
        self.viol = []
        self.mon = {}
        self.combos = set()
        self.events = set()
        self.ops = []
        self.acc_ratio = [0.0, 0.0, 0.0]
        self.val_ratio = 0.0
        self.unjudged = 0
        self.nadd = 0

    def count(self, k, n=1):
        self.mon[k] = self.mon.get(k, 0) + int(n)

    def add(self, mech, msg, **data):
        # one violation per mechanism and sequence is enough (the first, with its call)
        self.nadd += 1
        if any(v["mech"] == mech for v in self.viol):
            for v in self.viol:
                if v["mech"] == mech:
                    v["data"]["repeats"] = v["data"].get("repeats", 0) + 1
            return
        data["op_index"] = len(self.ops) - 1
        data["op"] = self.ops[-1] if self.ops else None
        self.viol.append({"mech": mech, "msg": msg, "data": data})


def _modes_uniform(model):
    return (model.lower, model.upper) in (("ERROR", "ERROR"), ("NONE", "NONE"))


def _judge_table(ctx, real, model, up, exc, what, batches=(), earlier=()):
    """Compare the real table with the model's predicted post-state of a table-changing
    operation `up` (TableUpdate).  Returns True when the model may keep its own state."""
    ctx.count("table_updates_checked")
    info = up.info
    fn = ctx.fn
    # newMax values that extensions *before this call* were asked to reach
    ctx.asked_before = set(getattr(ctx, "requested_max", set()))
    ups = list(earlier) + [up]
    if any(u.status == "undefined" for u in ups):
        # nothing is promised about the table; but an automatic update must not make
        # evaluate()/derivative() raise
        for u in ups:
            inf = u.info
            if u.status == "undefined" and inf.get("degenerate_range") and exc is not None:
                ctx.add(D8, f"{what}: all pending direct evaluations were at "
                        f"x={inf['lo']!r}, no table exists; the adaptive update raised "
                        f"{exc!r} out of evaluate()", info=inf)
        if exc is not None and "strictly increasing" in str(exc):
            app = []
            for u in ups:
                if u.info.get("op") == "extend":
                    app += _applicable(ctx, real, u.info, exc, batches)
            sub = [u.info for u in ups if u.info.get("sub_resolution")
                   and u.info.get("adaptive")]
            if not app and sub:
                inf = sub[0]
                app = [(D10, f"the pending direct evaluations reach {inf['lo']!r} .. "
                        f"{inf['hi']!r}, the table is [{inf['old_min']!r}, "
                        f"{inf['old_max']!r}]: the automatic extension asks for "
                        f"{inf['p_min']}/{inf['p_max']} points in a gap of a few ulp and "
                        "evaluate()/derivative() raises instead of returning the value")]
            for mech, why in {m: (m, w) for m, w in app}.values():
                ctx.add(mech, f"{what}: raised {exc!r}; {why}", info=info)
        ctx.unjudged += 1
        return False
    applicable = []
    for inf in [e.info for e in earlier] + [info]:
        applicable += _applicable(ctx, real, inf, exc, batches)
    applicable = list({m: (m, w) for m, w in applicable}.values())
    return _compare_table(ctx, real, model, info, exc, what, applicable)


def _applicable(ctx, real, info, exc, batches):
    """Mechanism predicates of the known defect classes for one table update."""
    fn = ctx.fn
    applicable = []
    msg = str(exc) if exc is not None else ""
    emptied = "at least 2" in msg          # CubicSpline got an empty table
    unsorted = "strictly increasing" in msg
    rp = np.asarray(real._interpolationPoints, dtype=float) if real.hasInterpolation() \
        else np.array([])
    if info.get("op") == "extend":
        alo, ahi, last = M.InterpModel.arange_lengths(
            info["new_min"], info["new_max"], info["p_min"], info["p_max"],
            info["old_min"], info["old_max"])
        # what is seen must fit the mechanism: either the spline constructor refused the
        # abscissae, or the table really has one point more on that side
        seen_lo = unsorted or (rp.size and int(np.sum(
            np.abs(rp - info["old_min"]) <= info["tol_x"])) >= 2)
        seen_hi = (rp.size
                   and float(rp[-1]) > max(info["new_max"], info["old_max"]) + info["tol_x"])
        if alo == info["n_lo"]:
            seen_lo = False
        if ahi == info["n_hi"]:
            seen_hi = False
        if emptied and fn.R == 1 and ahi > info["n_hi"] > 0 and \
                info.get("new_rows_nonfinite", 0) == 0:
            xo = info["old_max"] + (info["p_max"] + 1) * (info["new_max"] - info["old_max"]) \
                / info["p_max"]
            if bool(fn.bad(np.array(xo))):
                why = (f"numpy.arange adds a point at {xo!r}, one step beyond newMax="
                       f"{info['new_max']!r}, where the scalar function is non-finite; that "
                       "single point then empties the whole table")
                applicable.append((D7, why))
                applicable.append((D4, why))
        if seen_lo:
            applicable.append((D6, f"numpy.arange({info['new_min']!r}, {info['old_min']!r}, "
                               f"step) has {alo} elements for pointsMin={info['p_min']} "
                               f"(last {last!r} vs old lower end {info['old_min']!r})"))
        if seen_hi:
            applicable.append((D7, f"numpy.arange(oldMax+step, {info['new_max']!r}+step, "
                               f"step) has {ahi} elements for pointsMax={info['p_max']}: "
                               f"the table ends one step beyond the requested newMax"))
        # the previous extension did not land on its newMax exactly (arange rounding), so
        # the same newMax is now 'beyond' the table by a few ulp: step below the spacing
        # of floats, duplicate abscissae
        asked = getattr(ctx, "asked_before", set())
        if unsorted and real.hasInterpolation() and info["p_max"] > 0 and \
                info["new_max"] in asked and 0 < info["new_max"] - float(real._rangeMax) <= info["tol_x"]:
            applicable.append((D7, f"the table ends at {float(real._rangeMax)!r}, "
                               f"{info['new_max'] - float(real._rangeMax):.2e} below the newMax "
                               f"{info['new_max']!r} that an earlier extension was asked to "
                               "reach; extending to it again asks numpy.arange for steps "
                               "below the floating-point spacing"))
    if info.get("op") == "extend":
        if not hasattr(ctx, "requested_max"):
            ctx.requested_max = set()
        if exc is None:                # only extensions that were carried out
            ctx.requested_max.add(info["new_max"])
    if info.get("op") == "extend" and getattr(fn, "rows_for_empty", 0) > 0 and \
            (info["n_lo"] == 0 or info["n_hi"] == 0):
        applicable.append((D9, f"only {info['n_lo']} lower / {info['n_hi']} upper points are "
                           "new, but extendInterpolationTable evaluates the function on the "
                           f"empty block as well; {type(real).__mro__[1].__name__} returns "
                           f"{fn.rows_for_empty} row(s) for an empty input, so abscissae and "
                           "values no longer line up"))
    if info.get("op") == "extend":
        if not unsorted and real.hasInterpolation() and info["p_max"] > 0:
            top = np.diff(rp[-(info["p_max"] + 2):])
            if abs(float(rp[-1]) - info["new_max"]) <= info["tol_x"] and \
                    np.any(top <= info["tol_x"]):
                applicable.append((D7, f"{int(np.sum(top <= info['tol_x']))} abscissae are "
                                   f"crammed into the last {info['tol_x']:.1e} below newMax="
                                   f"{info['new_max']!r}: an earlier extension ended a few ulp "
                                   "short of the same newMax (arange rounding) and the "
                                   "remainder was extended again"))
    tx = info.get("tol_x", 1e-12)
    uncovered = rp.size == 0 or float(rp[0]) > info.get("lo", np.inf) + tx \
        or float(rp[-1]) < info.get("hi", -np.inf) - tx
    if info.get("adaptive") and not emptied and not unsorted and uncovered and fn.R == 1 \
            and any(b[0].ndim >= 1 and np.any(fn.bad(b[0])) and not np.all(fn.bad(b[0]))
                    for b in batches):
        applicable.append((D5, "the direct evaluations of this call contain finite and "
                           "non-finite values of a scalar function; the finite ones were not "
                           "registered, so the adaptive update is not the one that is due"))
    if fn.R == 1 and info.get("new_rows_nonfinite", 0) > 0 and emptied:
        applicable.append((D4, f"{info['new_rows_nonfinite']} of the new scalar table values "
                           "are non-finite; only those points may be left out"))
    return applicable


def _compare_table(ctx, real, model, info, exc, what, applicable):
    fn = ctx.fn
    problem = None
    if not real.hasInterpolation():
        problem = "no table afterwards"
    else:
        pts = np.asarray(real._interpolationPoints, dtype=float)
        vals = np.asarray(real._interpolationValues, dtype=float)
        if pts.shape != model.xs.shape:
            problem = (f"table has {len(pts)} abscissae [{pts[0]!r} .. {pts[-1]!r}], the "
                       f"contract gives {len(model.xs)} [{model.xs[0]!r} .. {model.xs[-1]!r}]")
        else:
            tol_x = info.get("tol_x", 4 * EPS * fn.xabs)
            dxs = np.abs(pts - model.xs)
            if np.max(dxs) > tol_x:
                i = int(np.argmax(dxs))
                problem = (f"abscissa {i}: {pts[i]!r} vs {model.xs[i]!r} "
                           f"(|diff| {dxs[i]:.3e} > {tol_x:.3e})")
            elif vals.reshape(len(pts), -1).shape == model.ys.shape:
                rows = vals.reshape(len(pts), -1)
                ref = model.ys.copy()
                moved = dxs > 0
                if np.any(moved):
                    ref[moved] = fn.value_rows(pts[moved]).reshape(-1, fn.R)
                tol_y = fn.value_tol() + 4 * EPS * np.abs(ref)
                dy = np.abs(rows - ref)
                if not np.all(dy <= tol_y):
                    i = int(np.argmax(np.max(dy - tol_y, axis=1)))
                    problem = (f"table row {i} (x={pts[i]!r}) is {rows[i].tolist()} but the "
                               f"function gives {ref[i].tolist()}")
    table_exc = isinstance(exc, (ValueError, IndexError)) and (
        "strictly increasing" in str(exc) or "at least 2" in str(exc)
        or "boolean index did not match" in str(exc))
    if problem is None and not (table_exc and applicable):
        return True
    if exc is None and applicable:
        ctx.taint = applicable[0][0]      # the damaged table is adopted; later symptoms
        #                                   (near-duplicate abscissae) belong to this
    if exc is not None:
        problem = f"raised {exc!r}" + ("; " + problem if problem else "")
    if applicable:
        for mech, why in applicable:
            ctx.add(mech, f"{what}: {problem}; {why}", info=info)
    else:
        ctx.add(f"table-mismatch-after-{info.get('op', 'op')}", f"{what}: {problem}",
                info=info)
    return False


def _judge_bookkeeping(ctx, real, model, batches, what):
    """modes, adaptive flag and pending direct evaluations after an operation."""
    ok = True
    if (real.extrapolationTypeLower.name, real.extrapolationTypeUpper.name) != \
            (model.lower, model.upper):
        ctx.add("modes-mismatch", f"{what}: modes are {real.extrapolationTypeLower.name}/"
                f"{real.extrapolationTypeUpper.name}, expected {model.lower}/{model.upper}")
        ok = False
    if bool(real._bUseAdaptiveInterpolation) != model.adaptive:
        ctx.add("adaptive-flag-mismatch", f"{what}: adaptive flag "
                f"{real._bUseAdaptiveInterpolation}, expected {model.adaptive}")
        ok = False
    if model.adaptive:
        rp = np.sort(np.array(real._directlyEvaluatedAt, dtype=float).ravel())
        mp = np.sort(model.pending)
        if int(real._directEvaluateCount) != model.count or rp.shape != mp.shape \
                or not np.array_equal(rp, mp):
            scalar_nan = ctx.fn.R == 1 and any(
                b[0].ndim >= 1 and np.any(ctx.fn.bad(b[0])) and not np.all(ctx.fn.bad(b[0]))
                for b in batches)
            mech = D5 if scalar_nan else "pending-evaluations-mismatch"
            ctx.add(mech, f"{what}: {int(real._directEvaluateCount)} pending direct "
                    f"evaluations {_short(rp)} recorded, the finite-valued ones are "
                    f"{model.count}: {_short(mp)}")
            ok = False
    return ok


def _is_shape_error(exc):
    s = str(exc)
    return isinstance(exc, (ValueError, TypeError)) and (
        "shape mismatch" in s or "cannot assign" in s or "boolean array indexing" in s
        or "could not be broadcast" in s)


def _judge_call(ctx, real, model_before, pr, res, exc, batches, x_in, x_copy, what,
                deriv=0, midop=False, late_mask=None):
    """Oracle for one evaluate()/derivative() call.  `model_before` holds what is needed of
    the pre-call state (R, modes, range).  Returns nothing; records violations."""
    fn = ctx.fn
    R = fn.R
    name = "derivative" if deriv else "evaluate"
    xa = np.asarray(x_copy, dtype=float)
    cat = pr.cat
    outside = (cat == M.BELOW) | (cat == M.ABOVE)
    has_table = model_before["has_table"]
    uniform = model_before["uniform"]
    modes = model_before["modes"]
    # ---- input untouched
    try:
        same = np.array_equal(np.asarray(x_in, dtype=float), xa)
    except Exception:  # noqa: BLE001
        same = False
    if not same:
        ctx.add("input-mutated", f"{what}: the input object was modified")
    # ---- exceptions
    if exc is not None:
        if pr.raises and isinstance(exc, ValueError) and not _is_shape_error(exc):
            ctx.count("error_mode_raises")
            return
        if getattr(pr, "may_raise", False) and isinstance(exc, ValueError) and \
                "Out of bounds" in str(exc):
            ctx.unjudged += 1        # table narrower than the stencil, other side ERROR
            return
        if isinstance(exc, IndexError) and R == 1 and has_table and not uniform \
                and np.any(outside):
            ctx.add(D1, f"{what}: scalar-valued function, modes {modes}, input shape "
                    f"{xa.shape} with out-of-range entries -> {exc!r}", x=xa)
            return
        if deriv and has_table and np.any(outside) and _is_shape_error(exc) and \
                (np.any(cat == M.INSIDE) or xa.ndim >= 2):
            ctx.add(D2, f"{what}: derivative of input shape {xa.shape} with "
                    f"{int(np.sum(outside))} out-of-range and {int(np.sum(cat == M.INSIDE))} "
                    f"in-range entries, modes {modes} -> {exc!r}", x=xa)
            return
        if deriv and has_table and isinstance(exc, ValueError) and not pr.raises and \
                np.any(outside) and np.any(cat == M.INSIDE) and "ERROR" in modes:
            xin = xa[cat == M.INSIDE]
            reach = 4.0 * pr.dx
            if (modes[0] == "ERROR" and np.any(xin - model_before["xmin"] <= reach)) or \
                    (modes[1] == "ERROR" and np.any(model_before["xmax"] - xin <= reach)):
                ctx.add(D2, f"{what}: derivative of mixed input, modes {modes}: no entry lies "
                        f"on the ERROR side, but the stencil of an in-range entry next to "
                        f"that table end was sent through the out-of-range path -> {exc!r}",
                        x=xa)
                return
        if midop == "table-exception":
            return                      # already attributed by _judge_table
        ctx.add(f"{name}-raises-{type(exc).__name__}",
                f"{what}: modes {modes}, input {_short(xa)} shape {xa.shape} -> {exc!r}"
                + (" (ValueError was due, but not this one)" if pr.raises else ""), x=xa)
        return
    if pr.raises:
        ctx.add(f"{name}-missing-error", f"{what}: modes {modes}, input {_short(xa)} has "
                f"entries on an ERROR side but a value was returned")
        return
    # ---- shape
    got = np.asarray(res)
    if got.shape != pr.shape or got.dtype.kind not in "fiu":
        ctx.add(f"{name}-shape-mismatch", f"{what}: input shape {xa.shape}, return dimension "
                f"{R}: result shape {got.shape} dtype {got.dtype}, expected {pr.shape}")
        return
    got = got.astype(float)
    # ---- values, element by element
    exp, tol = pr.expected, pr.tol.copy()
    rows = lambda a: a.reshape(xa.shape + (R,))  # noqa: E731
    gotr, expr, tolr = rows(got), rows(exp), rows(tol)
    if late_mask is not None and np.any(late_mask):
        tolr[late_mask] = np.inf
        ctx.unjudged += int(np.sum(late_mask))
    nearbad = getattr(pr, "nearbad", None)
    judged = np.isfinite(tolr)
    expnan = judged & ~np.isfinite(expr)
    bad = np.zeros(gotr.shape, dtype=bool)
    with np.errstate(invalid="ignore"):
        fin = judged & np.isfinite(expr)
        bad[fin] = ~(np.abs(gotr[fin] - expr[fin]) <= tolr[fin])
        bad[expnan] = ~((gotr[expnan] == expr[expnan]) | (np.isnan(gotr[expnan])
                                                          & np.isnan(expr[expnan])))
        if np.any(fin):
            r = np.abs(gotr[fin] - expr[fin]) / tolr[fin]
            r = r[np.isfinite(r)]
            if r.size:
                ctx.val_ratio = max(ctx.val_ratio, float(np.max(r)))
    ctx.count("elements_value_judged", int(np.sum(np.any(judged, axis=-1))))
    ctx.count("elements_inside", int(np.sum(cat == M.INSIDE)))
    ctx.count("elements_outside", int(np.sum(outside)))
    # un-assigned entries: not finite although nothing non-finite was due
    if deriv and has_table:
        unass = ~np.isfinite(gotr) & ~judged
        if nearbad is not None:
            unass &= ~nearbad[..., None]
        unass &= outside[..., None]
        bad |= unass
    if np.any(bad):
        el = np.argwhere(np.any(bad, axis=-1))
        idx = tuple(el[0]) if el.size else ()
        kind = str(pr.kind[idx]) if pr.kind is not None else "?"
        g, e, t = gotr[idx], expr[idx], tolr[idx]
        lay = pr.layer is not None and bool(pr.layer[idx])
        if deriv and has_table and not uniform and outside[idx] and \
                not np.all(np.isfinite(g)) and (lay or midop):
            ctx.add(D3, f"{what}: derivative order {deriv} at x={float(xa[idx])!r}, "
                    f"{kind}, table [{model_before['xmin']!r},{model_before['xmax']!r}], "
                    f"step {pr.dx:.3g}: part of the difference stencil lies inside the table "
                    f"and was never assigned (poisoned allocation shows through): got "
                    f"{g.tolist()}", x=xa)
        else:
            sub = "inside" if kind == "inside" else ("direct" if kind.startswith("direct")
                                                     else "outside-" + kind.split(":")[-1])
            ctx.add(f"{name}-{sub}-value-mismatch",
                    f"{what}: x={float(xa[idx])!r} ({kind}, modes {modes}, table "
                    f"[{model_before['xmin']!r},{model_before['xmax']!r}]): got {g.tolist()}, "
                    f"contract gives {e.tolist()} +- {t.tolist()}", x=xa)
    # ---- accuracy clause (inside the table, where the function is finite)
    if pr.acc is not None and model_before.get("hmin_rel", 1.0) < 1e-9 and \
            not getattr(ctx, "taint", None):
        ctx.unjudged += 1        # abscissae a few ulp apart (sub-resolution extension)
    elif pr.acc is not None:
        accr, trur = rows(pr.acc), rows(pr.truth)
        j = np.isfinite(accr) & np.isfinite(trur)
        if np.any(j):
            ctx.count("elements_accuracy_judged", int(np.sum(np.any(j, axis=-1))))
            with np.errstate(invalid="ignore"):
                err = np.abs(gotr[j] - trur[j])
                ratio = err / accr[j]
            worst = float(np.nanmax(np.where(np.isfinite(ratio), ratio, 0.0))) if ratio.size else 0.0
            ctx.acc_ratio[deriv] = max(ctx.acc_ratio[deriv], worst)
            if not np.all(err <= accr[j]):
                k = int(np.nanargmax(ratio))
                taint = getattr(ctx, "taint", None)
                if taint and model_before.get("hmin_rel", 1.0) < 1e-9:
                    ctx.add(taint, f"{what}: consequence of the damaged table (abscissae "
                            f"{model_before['hmin_rel']:.1e} apart, relative): inside the "
                            f"table the result deviates from the function by "
                            f"{float(err[k]):.3e}, spline bound {float(accr[j][k]):.3e}")
                    return
                ctx.add(f"{name}-accuracy-bound",
                        f"{what}: inside the table the {'value' if not deriv else f'derivative {deriv}'} "
                        f"deviates from the underlying function by {float(err[k]):.3e}, spline "
                        f"bound {float(accr[j][k]):.3e}", x=xa)
    # ---- which abscissae were evaluated directly
    obs = [np.sort(b[0].ravel()) for b in batches]
    if pr.batches_exact:
        want = [np.sort(np.asarray(b, dtype=float).ravel()) for b in pr.batches]
        okb = len(obs) == len(want) and all(a.shape == b.shape and np.array_equal(a, b)
                                            for a, b in zip(obs, want))
        if not okb:
            ctx.add(f"{name}-direct-evaluation-set-mismatch",
                    f"{what}: modes {modes}, table [{model_before['xmin']!r},"
                    f"{model_before['xmax']!r}], input {_short(xa)}: the function was "
                    f"evaluated directly at {[_short(o) for o in obs]}, the contract asks "
                    f"for {[_short(w) for w in want]}", x=xa)
    else:
        need = has_table and model_before["use_interp"]
        if need:
            src = xa[((cat == M.BELOW) & (modes[0] == "NONE"))
                     | ((cat == M.ABOVE) & (modes[1] == "NONE"))]
        else:
            src = xa.ravel()
        reach = 4.0 * pr.dx * (1 + 1e-6) + 8 * EPS * fn.xabs
        allobs = np.concatenate(obs) if obs else np.array([])
        far = allobs.size and (src.size == 0 or np.any(
            np.min(np.abs(allobs[:, None] - src.ravel()[None, :]), axis=1) > reach))
        if far or (src.size and not allobs.size):
            ctx.add(f"{name}-direct-evaluation-set-mismatch",
                    f"{what}: modes {modes}: direct evaluations at {_short(allobs)} are not "
                    f"the difference stencils of the out-of-range NONE entries {_short(src)}",
                    x=xa)
    ctx.count("direct_batches", len(obs))


# ===================================================================== sequence driver
PAIRS = [(a, b) for a in M.MODES for b in M.MODES]
SHAPES = ("scalar", "list", "1d", "2d")
W_DOMAIN = 12.0


def _before(model, use_interp=True):
    return {"has_table": model.has_table, "uniform": _modes_uniform(model),
            "modes": (model.lower, model.upper), "use_interp": use_interp,
            "hmin_rel": float(np.min(np.diff(model.xs)) / (np.max(np.abs(model.xs)) + 1e-300))
            if model.has_table else 1.0,
            "xmin": model.xmin if model.has_table else None,
            "xmax": model.xmax if model.has_table else None}


def _gen_points(rng, model, fn, poscls, n):
    c, W = fn.spec["center"], fn.spec.get("W", W_DOMAIN)
    if model.has_table:
        xmin, xmax = model.xmin, model.xmax
    else:
        xmin, xmax = c - 3.0, c + 3.0
    lay = 2.0 * M.fd_step(2)

    def inside():
        u = rng.random()
        if model.has_table and u < 0.12:
            return float(rng.choice(model.xs))
        if u < 0.20:
            return xmin
        if u < 0.28:
            return xmax
        return float(rng.uniform(xmin, xmax))

    fe = getattr(model, "former_ends", None) if model.has_table else None

    def below():
        # exactly the table end of before a file round trip, when the 15-digit rounding
        # moved the end inwards (out of range by a few ulp)
        if fe is not None and fe[0] < xmin and rng.random() < 0.35:
            return fe[0]
        u = rng.random()
        d = rng.uniform(0.02, 1.0) * lay if u < 0.25 else rng.uniform(0.05, 3.0)
        return float(max(xmin - d, c - W))

    def above():
        if fe is not None and fe[1] > xmax and rng.random() < 0.35:
            return fe[1]
        u = rng.random()
        d = rng.uniform(0.02, 1.0) * lay if u < 0.25 else rng.uniform(0.05, 3.0)
        return float(min(xmax + d, c + W))

    gens = {"inside": inside, "below": below, "above": above}
    if poscls == "mixed":
        labs = [str(v) for v in rng.choice(["inside", "below", "above"], size=n)]
        if n >= 2:
            labs[0] = "inside"
            labs[1] = str(rng.choice(["below", "above"]))
            perm = rng.permutation(n)
            labs = [labs[i] for i in perm]
    elif poscls == "outside":
        labs = [str(v) for v in rng.choice(["below", "above"], size=n)]
    else:
        labs = [poscls] * n
    return np.array([gens[l]() for l in labs], dtype=float)


def _gen_input(rng, model, fn, poscls, shape):
    """Returns (x object passed to the real code, label of the realised shape)."""
    if shape == "scalar":
        if poscls in ("mixed", "outside"):
            poscls = str(rng.choice(["inside", "below", "above"]))
        v = float(_gen_points(rng, model, fn, poscls, 1)[0])
        u = rng.random()
        x = v if u < 0.5 else (np.float64(v) if u < 0.75 else np.asarray(v))
        return x, poscls
    if shape == "2d":
        shp = (int(rng.integers(1, 4)), int(rng.integers(1, 4)))
    else:
        shp = (int(rng.integers(1, 7)),)
    n = int(np.prod(shp))
    if poscls == "mixed" and n < 2:
        shp = (2,) if shape != "2d" else (1, 2)
        n = 2
    pts = _gen_points(rng, model, fn, poscls, n).reshape(shp)
    if shape == "list" or (shape == "2d" and rng.random() < 0.25):
        return pts.tolist(), poscls
    return pts, poscls


def _apply_batches(ctx, real, model, batches):
    """Feed the observed direct evaluations to the model's adaptive bookkeeping.
    Returns the list of (index, TableUpdate) of the adaptive updates that are due."""
    ups = []
    for i, (xb, sched, flag) in enumerate(batches):
        up = model.apply_batch(xb, scheduled=sched)
        if up is not None:
            ups.append((i, up))
    return ups


def _op_eval(ctx, rng, real, model, fn, deriv, shape=None, poscls=None, use_interp=True,
             x=None, label=None):
    if shape is None:
        shape = str(rng.choice(ctx.shapes))
    elif shape not in ctx.shapes and shape != "scalar":
        shape = "1d"
    if poscls is None:
        poscls = str(rng.choice(["inside", "below", "above", "mixed", "mixed", "outside"]))
    if deriv and getattr(fn, "fd_scalar_only", False) and shape != "scalar":
        # FreeEnergy's implementation takes 0-d/1-D temperatures only; the difference
        # stencil of a 1-D input is 2-D
        if model.has_table:
            poscls, use_interp = "inside", True
        else:
            shape = "scalar"
    if x is None:
        x, poscls = _gen_input(rng, model, fn, poscls, shape)
    xc = np.array(x, dtype=float)
    kw = {}
    fd = getattr(fn, "fd", None)          # FreeEnergy fixes epsilon/scale itself
    if deriv and model.has_table and use_interp and fd is None and rng.random() < 0.3:
        kw = {"scale": float(rng.choice([0.3, 3.0]))}
    mkw = dict(kw) if fd is None else {"epsilon": fd[0], "scale": fd[1]}
    ev = getattr(real, "c18_eval", None)
    dv = getattr(real, "c18_deriv", None)
    opname = (f"derivative{deriv}" if deriv else "evaluate") + ("" if use_interp else ":direct")
    ctx.ops.append(label or f"{opname}:{shape}:{poscls}:{model.lower}/{model.upper}")
    before = _before(model, use_interp)
    if deriv:
        pr = model.predict_derivative(xc, deriv, use_interp, **mkw)
        if dv is not None:
            res, exc, batches, st = _do(real, lambda: dv(x, deriv, use_interp))
        else:
            res, exc, batches, st = _do(real, lambda: real.derivative(
                x, order=deriv, bUseInterpolation=use_interp, **kw))
        ctx.count("derivative_calls")
    else:
        pr = model.predict_evaluate(xc, use_interp)
        if ev is not None:
            res, exc, batches, st = _do(real, lambda: ev(x, use_interp))
        elif rng.random() < 0.5:
            res, exc, batches, st = _do(real, lambda: real(x, use_interp))
        else:
            res, exc, batches, st = _do(real, lambda: real.evaluate(x, use_interp))
        ctx.count("evaluate_calls")
    what = f"op {len(ctx.ops) - 1} {ctx.ops[-1]}"
    if before["has_table"] and use_interp:
        ctx.combos.add(f"{model.lower}/{model.upper}|{shape}|{'d%d' % deriv if deriv else 'eval'}"
                       f"|{poscls}")
    # --- adaptive bookkeeping driven by what was observed
    nv0 = ctx.nadd
    ups = _apply_batches(ctx, real, model, batches)
    midop = False
    late = None
    keep = True
    for i, up in ups:
        ctx.events.add("adaptive-update")
        ctx.count("adaptive_updates")
        last_action = (not deriv) and i == len(batches) - 1 and \
            not (len(pr.batches) == 1 and before["modes"][0] == "NONE"
                 and before["modes"][1] in ("CONSTANT", "FUNCTION")
                 and np.any(pr.cat == M.ABOVE))
        if not last_action:
            midop = True
    if ups:
        # the real object is seen only after the whole call: compare the final state,
        # name the mechanism from any of the updates that happened inside the call
        keep = _judge_table(ctx, real, model, ups[-1][1], exc, what + " [adaptive update]",
                            batches, earlier=[u for _, u in ups[:-1]])
    if ctx.nadd > nv0 and exc is not None:
        midop = "table-exception"
    if midop and pr.cat is not None:
        outside = (pr.cat == M.BELOW) | (pr.cat == M.ABOVE)
        late = (pr.cat == M.ABOVE) if not deriv else outside
    _judge_call(ctx, real, before, pr, res, exc, batches, x, xc, what, deriv=deriv,
                midop=midop, late_mask=late)
    for mech, msg in st:
        ctx.add(mech, f"{what}: {msg}")
    if keep:
        keep = _judge_bookkeeping(ctx, real, model, batches, what)
    return keep and ctx.nadd == nv0


def _op_table(ctx, rng, real, model, fn, kind, args, label):
    """Table-changing operation: kind in new / extend / modes / write-read / enable /
    disable."""
    ctx.ops.append(label)
    what = f"op {len(ctx.ops) - 1} {label}"
    nv0 = ctx.nadd
    up = None
    if kind in ("new", "write-read"):
        ctx.requested_max = set()      # the table ends are no longer those of an extension
    if kind == "new":
        model.former_ends = None
        up = model.new_table(*args)
        res, exc, batches, st = _do(real, lambda: real.newInterpolationTable(*args))
    elif kind == "extend":
        had = model.has_table
        pend = (model.pending.copy(), model.count)
        up = model.extend(*args)
        if not had:            # documented reset is not reached on this path: not judged
            model.pending, model.count = pend
        res, exc, batches, st = _do(real, lambda: real.extendInterpolationTable(*args))
        ctx.events.add("extend")
    elif kind == "modes":
        model.set_modes(*args)
        res, exc, batches, st = _do(real, lambda: real.setExtrapolationType(
            _mode(args[0]), _mode(args[1])))
        if model.has_table:
            up = M.TableUpdate("ok", model.xs, model.ys, {"op": "modes"})
    elif kind == "write-read":
        path = args[0]
        ends = (model.xmin, model.xmax) if model.has_table else None
        up = model.write_read()
        model.former_ends = ends
        res, exc, batches, st = _do(real, lambda: (real.writeInterpolationTable(path),
                                                   real.readInterpolationTable(path)))
        ctx.events.add("write-read")
        try:
            os.remove(path)
        except OSError:
            pass
    elif kind == "enable":
        model.enable_adaptive()
        res, exc, batches, st = _do(real, real.enableAdaptiveInterpolation)
    else:
        model.disable_adaptive()
        res, exc, batches, st = _do(real, real.disableAdaptiveInterpolation)
    keep = True
    if up is not None:
        keep = _judge_table(ctx, real, model, up, exc, what)
    elif exc is not None:
        ctx.add(f"{kind}-raises-{type(exc).__name__}", f"{what}: {exc!r}")
    if up is not None and exc is not None and ctx.nadd == nv0 and up.status == "ok":
        ctx.add(f"{kind}-raises-{type(exc).__name__}", f"{what}: {exc!r}")
    for mech, msg in st:
        ctx.add(mech, f"{what}: {msg}")
    if kind == "extend" and not had:
        model.pending = np.array(real._directlyEvaluatedAt, dtype=float).ravel()
        model.count = int(real._directEvaluateCount)
    if keep:
        keep = _judge_bookkeeping(ctx, real, model, batches, what)
    return keep and ctx.nadd == nv0


def _probe_points(rng, model):
    xmin, xmax = model.xmin, model.xmax
    w = xmax - xmin
    lay = M.fd_step(2)
    ins = np.concatenate(([xmin, xmax], rng.uniform(xmin, xmax, size=6),
                          rng.choice(model.xs, size=2)))
    out = np.array([xmin - 0.7 * lay, xmin - 0.11 * w - 0.05, xmax + 0.7 * lay,
                    xmax + 0.13 * w + 0.05])
    return ins, out


def _same(a, b):
    ra, ea = a
    rb, eb = b
    if (ea is None) != (eb is None):
        return False
    if ea is not None:
        return type(ea) is type(eb)
    ra, rb = np.asarray(ra), np.asarray(rb)
    return ra.shape == rb.shape and np.array_equal(ra, rb, equal_nan=True)


def _call(f):
    try:
        return f(), None
    except Exception as e:  # noqa: BLE001
        return None, e


def _final_metamorphic(ctx, rng, real, model, factory, tag):
    """History independence (twin reaching the same table and modes by another history)
    and reproduction of the function by a fresh object reading the written file."""
    if not model.has_table or state_problems(real):
        return
    real.disableAdaptiveInterpolation()
    ins, out = _probe_points(rng, model)
    pts = np.array(real._interpolationPoints, dtype=float)
    vals = np.array(real._interpolationValues, dtype=float)
    lo, up = real.extrapolationTypeLower, real.extrapolationTypeUpper
    def E(o, x):
        return o.c18_eval(x) if hasattr(o, "c18_eval") else o(x)

    def D(o, x, k):
        return o.c18_deriv(x, k) if hasattr(o, "c18_deriv") else o.derivative(x, order=k)

    # --- twin
    twin = factory()
    twin.disableAdaptiveInterpolation()
    order = int(rng.integers(3))
    if order == 0:
        twin.setExtrapolationType(lo, up)
        twin.newInterpolationTableFromValues(pts.copy(), vals.copy())
    elif order == 1:
        twin.newInterpolationTableFromValues(pts.copy(), vals.copy())
        twin.setExtrapolationType(lo, up)
    else:                       # through two other mode pairs first
        twin.setExtrapolationType(_mode("FUNCTION"), _mode("ERROR"))
        twin.newInterpolationTableFromValues(pts.copy(), vals.copy())
        _call(lambda: E(twin, ins))
        twin.setExtrapolationType(_mode("CONSTANT"), _mode("FUNCTION"))
        twin.setExtrapolationType(lo, up)
    ctx.ops.append(f"twin:{order}")
    probes = [("evaluate inside", lambda o: E(o, ins)),
              ("evaluate scalar inside", lambda o: E(o, float(ins[3]))),
              ("derivative1 inside", lambda o: D(o, ins, 1)),
              ("derivative2 inside", lambda o: D(o, ins, 2))]
    for j, xo in enumerate(out):
        probes.append((f"evaluate outside[{j}]", lambda o, xo=xo: E(o, float(xo))))
        probes.append((f"evaluate mixed[{j}]", lambda o, xo=xo: E(o, np.array([ins[2], xo]))))
    probes.append(("derivative1 outside", lambda o: D(o, float(out[1]), 1)))
    probes.append(("derivative1 outside", lambda o: D(o, float(out[3]), 1)))
    for name, pf in probes:
        a, b = _call(lambda: pf(real)), _call(lambda: pf(twin))
        if not _same(a, b):
            ctx.add("history-dependence", f"{tag}: {name}: the object that went through the "
                    f"sequence returns {a[0] if a[1] is None else repr(a[1])}, a fresh object "
                    f"given the same table and modes ({lo.name}/{up.name}, construction order "
                    f"{order}) returns {b[0] if b[1] is None else repr(b[1])}")
            break
    ctx.count("history_twins")
    # --- fresh object from the file
    r15 = M.round15(pts)
    if not np.all(np.diff(r15) > 0):
        ctx.unjudged += 1          # abscissae closer than 15 significant digits resolve
        return
    path = f"/tmp/c18_{os.getpid()}_{ctx.case['i']}_f.txt"
    fresh = factory()
    fresh.disableAdaptiveInterpolation()
    fresh.setExtrapolationType(lo, up)
    _, exc = _call(lambda: (real.writeInterpolationTable(path),
                            fresh.readInterpolationTable(path)))
    try:
        os.remove(path)
    except OSError:
        pass
    ctx.ops.append("fresh-read")
    ctx.count("file_roundtrips")
    if exc is not None or not fresh.hasInterpolation():
        ctx.add("roundtrip-read-fails", f"{tag}: write+read into a fresh object: "
                f"{exc!r}, hasInterpolation={fresh.hasInterpolation()}")
        return
    for mech, msg in state_problems(fresh):
        ctx.add(mech, f"{tag}: fresh object after readInterpolationTable: {msg}")
    fp = np.asarray(fresh._interpolationPoints, dtype=float)
    fv = np.asarray(fresh._interpolationValues, dtype=float)
    if fp.shape != pts.shape or fv.shape != vals.shape or \
            not np.array_equal(fp, M.round15(pts)) or not np.array_equal(fv, M.round15(vals)):
        ctx.add("roundtrip-table-mismatch", f"{tag}: table read back has shape {fp.shape}/"
                f"{fv.shape}, written {pts.shape}/{vals.shape}; or entries differ from the "
                "15-significant-digit rounding of what was written")
        return
    # the function is reproduced: perturbation 5e-16 relative in x and y, propagated with
    # the table's own Lipschitz estimate and a spline amplification factor 8
    rows = vals.reshape(len(pts), -1)
    m0 = np.max(np.abs(rows), axis=0)
    m1 = np.max(np.abs(np.diff(rows, axis=0) / np.diff(pts)[:, None]), axis=0)
    # ... and with the conditioning of a cubic spline on a non-uniform mesh, (hmax/hmin)^2
    # (observed on the unchanged tree: 3.9e-10 for hmax/hmin = 1.1e3, i.e. 110x the
    # uniform-mesh figure)
    h = np.diff(pts)
    tol = 8.0 * 64.0 * EPS * (m0 + np.max(np.abs(pts)) * m1) \
        * (1.0 + (np.max(h) / np.min(h)) ** 2) + 1e-300
    xin = ins[(ins > fp[0]) & (ins < fp[-1])]
    a, b = _call(lambda: E(real, xin)), _call(lambda: E(fresh, xin))
    if b[1] is None:
        # tight: the fresh object is the spline of the rounded table
        from scipy.interpolate import CubicSpline
        ref = CubicSpline(r15, M.round15(vals.reshape(len(pts), -1)), axis=0)(xin)
        got = np.asarray(b[0], dtype=float).reshape(len(xin), -1)
        t2 = 64.0 * EPS * np.maximum(np.abs(ref), m0 + 1e-300)
        if not np.all(np.abs(got - ref) <= t2):
            ctx.add("roundtrip-value-mismatch", f"{tag}: a fresh object that read the file "
                    f"differs from the cubic spline through the written (15-digit) table by "
                    f"{float(np.max(np.abs(got - ref))):.3e}")
    if a[1] is not None or b[1] is not None:
        ctx.add("roundtrip-evaluate-raises", f"{tag}: {a[1]!r} / {b[1]!r}")
        return
    d = np.abs(np.asarray(a[0]) - np.asarray(b[0])).reshape(len(xin), -1)
    ctx.rt_ratio = max(getattr(ctx, "rt_ratio", 0.0), float(np.max(d / tol)) if d.size else 0.0)
    if not np.all(d <= tol):
        ctx.add("roundtrip-value-mismatch", f"{tag}: after write+read a fresh object differs "
                f"by {float(np.max(d)):.3e} (allowed {tol.tolist()}) inside the table")


def _choose_table_args(rng, fn):
    c = fn.spec["center"]
    a = c + rng.uniform(-4, -1)
    b = c + rng.uniform(1, 4)
    n = int(rng.integers(8, 31))
    return float(a), float(b), n


def _run_seq(case):
    fn = M.TestFunction(case["fn"])
    adaptive, n0, thr = case["adaptive"], case["n0"], case["thr"]
    factory = lambda: _make_real(fn, adaptive, n0, thr)  # noqa: E731
    return _drive(case, fn, factory, f"seq:R{fn.R}:{'A' if adaptive else 'a'}:"
                  f"{fn.nan['kind']}:{case['pair0']}",
                  [f"R{fn.R}", "adaptive-on" if adaptive else "adaptive-off",
                   f"nan:{fn.nan['kind']}", f"start:{case['start']}"], SHAPES)


def _drive(case, fn, factory, keybase, labels, shapes):
    rng = np.random.default_rng(case["s"])
    adaptive, n0, thr = case["adaptive"], case["n0"], case["thr"]
    real = factory()
    model = M.InterpModel(fn, adaptive, n0, thr)
    ctx = Ctx(fn, case)
    ctx.shapes = shapes
    c, W = fn.spec["center"], fn.spec.get("W", W_DOMAIN)
    p0 = STATE["poison"]
    s0 = STATE["checks"]
    aborted = None

    def sync(ok):
        nonlocal aborted
        probs = state_problems(real)
        if probs:
            aborted = "real object left in an inconsistent state: " + probs[0][0]
            return False
        _adopt(model, real)          # bit-level alignment (after the comparison was made)
        return True

    lo0, up0 = PAIRS[case["pair0"]]
    ok = _op_table(ctx, rng, real, model, fn, "modes", (lo0, up0), f"modes:{lo0}/{up0}")
    sync(ok)
    if case["start"] == "table":
        args = _choose_table_args(rng, fn)
        ok = _op_table(ctx, rng, real, model, fn, "new", args, "new")
        sync(ok)
    if case.get("script") == "roundtrip-edge" and model.has_table and aborted is None:
        # directed prefix: file round trip, then evaluations exactly at the former table
        # ends (out of range by a few ulp where the 15-digit rounding moved an end inwards)
        path = f"/tmp/c18_{os.getpid()}_{case['i']}_s.txt"
        ok = _op_table(ctx, rng, real, model, fn, "write-read", (path,), "write-read")
        sync(ok)
        fe = getattr(model, "former_ends", None)
        for j in range(thr + 2):
            if aborted is not None or fe is None or not model.has_table:
                break
            pts = [e for e, out in ((fe[0], fe[0] < model.xmin), (fe[1], fe[1] > model.xmax))
                   if out]
            if not pts:
                break
            if j % 2 == 0:
                ok = _op_eval(ctx, rng, real, model, fn, 0, shape="scalar", x=float(pts[0]),
                              poscls="outside")
            else:
                ok = _op_eval(ctx, rng, real, model, fn, 0, shape="1d",
                              x=np.array(pts, dtype=float), poscls="outside")
            sync(ok)
    nops = case["nops"]
    k = 0
    while k < nops and aborted is None:
        k += 1
        u = rng.random()
        if not model.has_table:
            if u < 0.40:
                ok = _op_table(ctx, rng, real, model, fn, "new", _choose_table_args(rng, fn),
                               "new")
            elif u < 0.60:
                ok = _op_eval(ctx, rng, real, model, fn, 0)
            elif u < 0.72:
                # the same point again and again (adaptive: reaches the threshold with a
                # zero-width range)
                x0 = float(c + rng.uniform(-3, 3))
                ok = True
                for _ in range(int(rng.integers(2, thr + 2))):
                    ok = _op_eval(ctx, rng, real, model, fn, 0, shape="scalar", x=x0,
                                  poscls="inside", label="evaluate:scalar:repeat:no-table") and ok
                    if not sync(ok) or model.has_table:
                        break
            elif u < 0.82:
                ok = _op_eval(ctx, rng, real, model, fn, int(rng.integers(1, 3)))
            elif u < 0.90:
                lo, up = PAIRS[int(rng.integers(16))]
                ok = _op_table(ctx, rng, real, model, fn, "modes", (lo, up), f"modes:{lo}/{up}")
            elif u < 0.95:
                a, b, n = _choose_table_args(rng, fn)
                ok = _op_table(ctx, rng, real, model, fn, "extend",
                               (a, b, n // 2, n - n // 2), "extend:no-table")
            else:
                kind = "disable" if model.adaptive else "enable"
                ok = _op_table(ctx, rng, real, model, fn, kind, (), kind)
            sync(ok)
            continue
        if u < 0.36:
            ok = _op_eval(ctx, rng, real, model, fn, 0)
        elif u < 0.56:
            ok = _op_eval(ctx, rng, real, model, fn, int(rng.integers(1, 3)))
        elif u < 0.70:
            lo, up = PAIRS[int(rng.integers(16))]
            ok = _op_table(ctx, rng, real, model, fn, "modes", (lo, up), f"modes:{lo}/{up}")
        elif u < 0.79:
            # extension
            side = rng.random()
            new_min = model.xmin - rng.uniform(0.2, 2.5) if side < 0.7 else \
                model.xmin + rng.uniform(0, 0.5)
            new_max = model.xmax + rng.uniform(0.2, 2.5) if side > 0.3 else \
                model.xmax - rng.uniform(0, 0.5)
            new_min = float(max(new_min, c - W + 0.5))
            new_max = float(min(new_max, c + W - 0.5))
            pmin, pmax = int(rng.integers(0, 9)), int(rng.integers(0, 9))
            ok = _op_table(ctx, rng, real, model, fn, "extend", (new_min, new_max, pmin, pmax),
                           f"extend:{pmin}:{pmax}")
        elif u < 0.87:
            # burst of direct evaluations outside the table under NONE/NONE
            ok = True
            if not model.adaptive and rng.random() < 0.7:
                ok = _op_table(ctx, rng, real, model, fn, "enable", (), "enable")
                sync(ok)
            if (model.lower, model.upper) != ("NONE", "NONE") and rng.random() < 0.7:
                lo, up = ("NONE", "NONE") if rng.random() < 0.6 else \
                    PAIRS[int(rng.choice([4, 5, 6, 7, 1, 9, 13]))]
                ok = _op_table(ctx, rng, real, model, fn, "modes", (lo, up), f"modes:{lo}/{up}")
                sync(ok)
            for _ in range(int(rng.integers(2, thr + 2))):
                if aborted:
                    break
                ok = _op_eval(ctx, rng, real, model, fn, 0,
                              shape=str(rng.choice(["scalar", "1d", "1d", "list"])),
                              poscls=str(rng.choice(["below", "above", "outside", "mixed"])))
                sync(ok)
        elif u < 0.90:
            ok = _op_table(ctx, rng, real, model, fn, "new", _choose_table_args(rng, fn), "new")
        elif u < 0.95:
            path = f"/tmp/c18_{os.getpid()}_{case['i']}_{k}.txt"
            ok = _op_table(ctx, rng, real, model, fn, "write-read", (path,), "write-read")
        elif u < 0.98:
            kind = "disable" if model.adaptive else "enable"
            ok = _op_table(ctx, rng, real, model, fn, kind, (), kind)
        else:
            ok = _op_eval(ctx, rng, real, model, fn, int(rng.integers(0, 3)), use_interp=False)
        sync(ok)
    if aborted is None:
        _final_metamorphic(ctx, rng, real, model, factory, "end of sequence")
    ctx.count("state_invariant_checks", STATE["checks"] - s0)
    ctx.count("poisoned_allocations", STATE["poison"] - p0)
    return _finish(ctx, case, aborted, keybase, labels)


def _finish(ctx, case, aborted, keybase, labels):
    sig = zlib.crc32("|".join(ctx.ops).encode())
    nontrivial = any((":below" in o or ":above" in o or ":mixed" in o or ":outside" in o
                      or o.startswith("extend") or o == "write-read") for o in ctx.ops)
    ctx.mon["mode_pairs_x_shapes_observed"] = 0     # filled by finalize
    obs = {"ops": ctx.ops if len(ctx.ops) <= 60 else ctx.ops[:60] + ["..."],
           "combos": sorted(ctx.combos), "acc_ratio": ctx.acc_ratio,
           "val_ratio": ctx.val_ratio, "rt_ratio": getattr(ctx, "rt_ratio", 0.0),
           "unjudged": ctx.unjudged, "aborted": aborted}
    return {"key": f"{keybase}:{sig:08x}", "cls": labels + sorted("ev:" + e for e in ctx.events),
            "nontrivial": bool(nontrivial), "obs": obs, "viol": ctx.viol,
            "inconclusive": None, "mon": ctx.mon}


# ============================================================== real subclasses (anchors)
def _fe_to_array(v, x, R):
    """FreeEnergyValueType -> array x.shape + (R,) (fields first, Veff last)."""
    xs = np.shape(np.asarray(x, dtype=float))
    n = int(np.prod(xs)) if xs else 1
    f = np.asarray(v.fieldsAtMinimum, dtype=float).reshape(n, R - 1)
    e = np.asarray(v.veffValue, dtype=float).reshape(n, 1)
    return np.concatenate((f, e), axis=1).reshape(xs + (R,))


def _sub_setup(case):
    """Returns (fn for the model, factory for the object under test, shapes)."""
    import WallGo
    kind, adaptive, n0, thr = case["sub"], case["adaptive"], case["n0"], case["thr"]
    if kind in ("Jb", "Jf"):
        from WallGo.PotentialTools import JbIntegral, JfIntegral
        base = JbIntegral if kind == "Jb" else JfIntegral
        pristine = base(bUseAdaptiveInterpolation=False)
        fn = M.OpaqueFunction(2, lambda x: pristine._functionImplementation(x), 12.5)
        fn.spec = {"center": 6.0, "W": 5.5}

        def factory():
            o = base(bUseAdaptiveInterpolation=adaptive, initialInterpolationPointCount=n0)
            o._evaluationsUntilAdaptiveUpdate = thr
            return o
        return fn, factory, SHAPES
    # FreeEnergy on a toy potential: nf independent quartic fields, broken phase
    from WallGo import Fields, FreeEnergy
    nf = int(case["nf"])
    lam = [0.5, 0.8][:nf]
    t0sq = [100.0, 144.0][:nf]

    class Pot(WallGo.EffectivePotential):
        fieldCount = nf
        effectivePotentialError = 1e-12

        def evaluate(self, fields, temperature):
            f = np.asarray(fields)
            T = np.asarray(temperature, dtype=float)
            tot = 0.0
            for i in range(nf):
                tot = tot + 0.5 * (T ** 2 - t0sq[i]) * f[..., i] ** 2 \
                    + 0.25 * lam[i] * f[..., i] ** 4
            return tot

    def mk():
        pot = Pot()
        pot.configureDerivatives(WallGo.VeffDerivativeSettings(
            temperatureVariationScale=1.0, fieldValueVariationScale=10.0))
        return FreeEnergy(pot, 5.0, Fields([12.0, 10.0][:nf]),
                          initialInterpolationPointCount=n0)

    class RecFE(FreeEnergy):
        def c18_eval(self, x, use_interp=True):
            return _fe_to_array(self.evaluate(x, use_interp), x, nf + 1)

        def c18_deriv(self, x, order, use_interp=True):
            return _fe_to_array(self.derivative(x, order, use_interp), x, nf + 1)

    pristine = mk()
    pristine.disableAdaptiveInterpolation()

    def call(x):
        x = np.asarray(x, dtype=float)
        r = np.asarray(pristine._functionImplementation(x.reshape(-1)), dtype=float)
        return r.reshape(x.shape + (nf + 1,))
    fn = M.OpaqueFunction(nf + 1, call, 9.5)
    fn.rows_for_empty = int(np.shape(pristine._functionImplementation(np.array([])))[0])
    fn.spec = {"center": 5.5, "W": 3.0}
    fn.fd = (1e-12, 1.0)
    fn.fd_scalar_only = True

    def factory():
        o = mk()
        o.__class__ = RecFE
        if not adaptive:
            o.disableAdaptiveInterpolation()
        o._evaluationsUntilAdaptiveUpdate = thr
        return o
    return fn, factory, ("scalar", "list", "1d")


def _run_sub(case):
    fn, factory, shapes = _sub_setup(case)
    name = case["sub"] if case["sub"] != "FE" else "FreeEnergy"
    res = _drive(case, fn, factory, f"sub:{name}:{'A' if case['adaptive'] else 'a'}:"
                 f"{case['pair0']}", [f"sub:{name}"], shapes)
    if case["sub"] == "FE":
        # FreeEnergy.__call__ documents WallGoError for an evaluation outside the range
        from WallGo import WallGoError
        o = factory()
        o.newInterpolationTable(4.0, 7.0, 8)      # modes ERROR/ERROR from the constructor
        r, e = _call(lambda: o(8.0))
        res["mon"]["evaluate_calls"] = res["mon"].get("evaluate_calls", 0) + 1
        if not isinstance(e, WallGoError):
            res["viol"].append({"mech": "freeenergy-call-outside-range-no-wallgoerror",
                                "msg": f"FreeEnergy(8.0) with table [4,7], modes ERROR/ERROR "
                                f"-> {r if e is None else repr(e)}", "data": {}})
    return res


# ==================================================================== framework interface
def generate(tier, seed):
    rng = np.random.default_rng(18000 + seed)
    cases = []
    reps = 16 if tier == "quick" else 200
    maxops = 12 if tier == "quick" else 40
    for rep in range(reps):
        for R in (1, 2, 3, 4):
            for adaptive in (False, True):
                for pair0 in range(16):
                    u = rng.random()
                    nk = "none" if u < 0.55 else ("interval" if u < 0.70 else
                                                  ("above" if u < 0.85 else "below"))
                    center = float(rng.uniform(-3, 3) if rng.random() < 0.3
                                   else rng.uniform(-40, 40))
                    cases.append({
                        "kind": "seq", "s": int(rng.integers(1 << 31)),
                        "fn": M.random_function_spec(rng, R, center, W_DOMAIN, nk),
                        "adaptive": adaptive, "n0": int(rng.integers(10, 41)),
                        "thr": int(rng.integers(3, 13)),
                        "nops": int(rng.integers(max(4, maxops // 2), maxops + 1)),
                        "pair0": pair0, "start": "table" if rng.random() < 0.8 else "none"})
    for j in range(32 if tier == "quick" else 240):
        center = float(rng.uniform(-40, 40))
        cases.append({
            "kind": "seq", "script": "roundtrip-edge", "s": int(rng.integers(1 << 31)),
            "fn": M.random_function_spec(rng, 1 + j % 4, center, W_DOMAIN, "none"),
            "adaptive": True, "n0": int(rng.integers(10, 41)), "thr": int(rng.integers(3, 7)),
            "nops": 4, "pair0": 5, "start": "table"})
    nsub = 16 if tier == "quick" else 120
    for j in range(nsub):
        for sub in ("Jb", "Jf", "FE"):
            cases.append({"kind": "sub", "sub": sub, "s": int(rng.integers(1 << 31)),
                          "adaptive": bool(j % 2), "n0": int(rng.integers(10, 31)),
                          "thr": int(rng.integers(3, 9)), "nops": 6 if tier == "quick" else 10,
                          "pair0": int(rng.integers(16)), "start": "table",
                          "nf": 1 + (j // 2) % 2})
    # spread the expensive kinds over the chunks
    order = rng.permutation(len(cases))
    cases = [cases[i] for i in order]
    for i, c in enumerate(cases):
        c["i"] = i
    return cases


def run_case(case):
    install_monitors()
    if case["kind"] == "seq":
        return _run_seq(case)
    return _run_sub(case)


def _combo_parts(results):
    full, pairs_shapes = set(), set()
    for r in results:
        for cstr in (r.get("obs") or {}).get("combos", []):
            full.add(cstr)
            p, sh, op, pos = cstr.split("|")
            pairs_shapes.add((p, sh, op))
    return full, pairs_shapes


def finalize(results, tier, seed):
    _, ps = _combo_parts(results)
    return {"viol": [], "mon": {"mode_pairs_x_shapes_observed": len(ps)}}


def summarize(results, tier):
    import collections
    full, ps = _combo_parts(results)
    allps = {(f"{a}/{b}", sh, op) for a, b in PAIRS for sh in SHAPES
             for op in ("eval", "d1", "d2")}
    per_pair = collections.Counter(p for p, _, _ in ps)
    poscls = collections.Counter(c.split("|")[3] for c in full)
    ops = collections.Counter()
    acc = [0.0, 0.0, 0.0]
    val = rt = 0.0
    unj = ab = 0
    mech = collections.Counter()
    nops = []
    for r in results:
        o = r.get("obs") or {}
        for lab in o.get("ops", []):
            ops[lab.split(":")[0]] += 1
        nops.append(len(o.get("ops", [])))
        for k in range(3):
            acc[k] = max(acc[k], (o.get("acc_ratio") or [0, 0, 0])[k])
        val = max(val, o.get("val_ratio") or 0.0)
        rt = max(rt, o.get("rt_ratio") or 0.0)
        unj += o.get("unjudged") or 0
        ab += 1 if o.get("aborted") else 0
        for v in r.get("viol", []):
            mech[v["mech"]] += 1
    return {
        "mode_pairs_observed": len(per_pair),
        "pair_x_shape_x_op_observed": len(ps), "pair_x_shape_x_op_possible": len(allps),
        "pair_x_shape_x_op_missing": sorted("|".join(t) for t in allps - ps)[:40],
        "full_combos_observed(pair|shape|op|position)": len(full),
        "position_classes": dict(poscls),
        "operations_executed": dict(ops),
        "ops_per_sequence_max": max(nops) if nops else 0,
        "acc_ratio_max_in_units_of_Hall_Meyer_bound": [a * k for a, k in zip(acc, M.K_ACC)],
        "acc_safety_factor": M.K_ACC,
        "model_value_residual_over_tolerance_max": val,
        "roundtrip_residual_over_tolerance_max": rt,
        "elements_unjudged_midop_or_undefined": unj,
        "sequences_aborted_on_inconsistent_state": ab,
        "sequences_with_violation_by_mechanism": dict(mech),
    }
