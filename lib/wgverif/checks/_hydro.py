"""Shared workload driver for the hydrodynamics properties (C02, C03, C05, C06, C15).

Builds a *real* WallGo.Hydrodynamics (and HydrodynamicsTemplateModel) on an analytic
equation of state from wgverif.models.eos, installs recording wrappers (harness side) and
measures.  The per-property oracles live in the Cxx modules; this file only observes.

Monitors installed on the instance (never on the class, so nothing leaks between cases):
  * template.findMatching  -> 'fallback' events seen from inside Hydrodynamics.findMatching
  * matchDeflagOrHyb       -> every call: args, result, Hydrodynamics.success afterwards
  * matchDeton             -> call count
  * module-level minimize_scalar in WallGo.hydrodynamics -> extremum-bracket branch
  * module-level root (hybr) in WallGo.hydrodynamics -> convergence status and residual of
    every 2x2 matching solve (attributes a conservation failure to its call site)
"""
from __future__ import annotations

import math

import numpy as np

from wgverif import env  # noqa: F401
from wgverif.models import eos as E
from wgverif.oracles import fluid as F

TMAX, TMIN = 10.0, 0.01


def g2(v):
    return 1.0 / ((1.0 - v) * (1.0 + v))


class ThermoRef:
    """The analytic-EOS interface (ref(phase, T) -> p, e, w, csq; Tnucl) over a *real*
    WallGo.Thermodynamics object, e.g. one traced numerically by WallGoManager.  Only p and
    its first two derivatives are read from the object; w, e, c_s^2 are formed here."""

    def __init__(self, thermo):
        self.t = thermo
        self.Tnucl = float(thermo.Tnucl)
        self.s = 1.0

    def ref(self, phase, T):
        t = self.t
        if phase == "H":
            p, dp, ddp = t.pHighT(T), t.dpHighT(T), t.ddpHighT(T)
        else:
            p, dp, ddp = t.pLowT(T), t.dpLowT(T), t.ddpLowT(T)
        p, dp, ddp = float(p), float(dp), float(ddp)
        return {"p": p, "w": T * dp, "e": T * dp - p, "csq": dp / (T * ddp)}


class HydroProbe:
    @classmethod
    def from_objects(cls, thermo, hyd, rtol, atol, spec=None):
        """Probe over an existing Thermodynamics/Hydrodynamics pair (WallGoManager's)."""
        import WallGo
        import WallGo.hydrodynamics as H
        self = cls.__new__(cls)
        self.spec = spec
        self.eos = ThermoRef(thermo)
        self.Tn = self.eos.Tnucl
        self.rtol, self.atol = rtol, atol
        self.events = []
        self.counts = {"matchDeflagOrHyb": 0, "matchDeton": 0, "template_fallback": 0,
                       "minimize_scalar": 0}
        self.hyd = hyd
        self.tmpl = WallGo.HydrodynamicsTemplateModel(thermo, rtol=rtol, atol=atol)
        self._H = H
        self._install()
        return self

    def __init__(self, spec, rtol, atol):
        import WallGo
        import WallGo.hydrodynamics as H
        self.spec = spec
        self.eos = E.build(spec)
        self.Tn = self.eos.Tnucl
        self.rtol = rtol
        # absoluteTol as WallGo's config states it: an absolute number (temperature units
        # where it bounds a temperature; also handed to hybr as its relative xtol)
        self.atol = atol
        self.events = []
        self.counts = {"matchDeflagOrHyb": 0, "matchDeton": 0, "template_fallback": 0,
                       "minimize_scalar": 0}
        self.hyd = WallGo.Hydrodynamics(self.eos, TMAX, TMIN, rtol, self.atol)
        self.tmpl = WallGo.HydrodynamicsTemplateModel(self.eos, rtol=rtol, atol=self.atol)
        self._H = H
        self._install()

    def _install(self):
        hyd = self.hyd
        real_tm = hyd.template.findMatching
        real_md = hyd.matchDeflagOrHyb
        real_mt = hyd.matchDeton
        probe = self

        def tmFind(vw):
            probe.counts["template_fallback"] += 1
            probe.events.append(("fallback", float(vw)))
            return real_tm(vw)

        def md(vw, vp=None):
            out = real_md(vw, vp)
            probe.counts["matchDeflagOrHyb"] += 1
            probe.last_md = (float(vw), None if vp is None else float(vp),
                             tuple(float(x) for x in out), bool(hyd.success))
            return out

        def mt(vw):
            probe.counts["matchDeton"] += 1
            return real_mt(vw)

        hyd.template.findMatching = tmFind
        hyd.matchDeflagOrHyb = md
        hyd.matchDeton = mt

    # ---------------------------------------------------------------- measurements
    def matching(self, vw):
        """Call the real findMatching; report result + which branch produced it."""
        c0 = dict(self.counts)
        self.last_md = None
        H = self._H
        real_min = H.minimize_scalar
        probe = self

        def counting_min(*a, **k):
            probe.counts["minimize_scalar"] += 1
            return real_min(*a, **k)

        real_root = H.root
        hybr = []

        def recording_root(*a, **k):
            sol = real_root(*a, **k)
            hybr.append((bool(sol.success), float(np.sum(np.asarray(sol.fun) ** 2))))
            return sol

        H.minimize_scalar = counting_min
        H.root = recording_root
        try:
            res = self.hyd.findMatching(vw)
            err = None
        except Exception as exc:  # WallGoError etc. are outcomes, not harness failures
            res, err = None, repr(exc)[:200]
        finally:
            H.minimize_scalar = real_min
            H.root = real_root
        fb = self.counts["template_fallback"] - c0["template_fallback"]
        det = self.counts["matchDeton"] - c0["matchDeton"]
        mins = self.counts["minimize_scalar"] - c0["minimize_scalar"]
        if det:
            branch = "detonation"
        elif fb:
            branch = "template-fallback"
        elif mins:
            branch = "extremum-bracket"
        else:
            branch = "bracketed"
        success = bool(self.hyd.success)
        out = {"vw": float(vw), "branch": branch, "error": err, "success_flag": success,
               "n_md_calls": self.counts["matchDeflagOrHyb"] - c0["matchDeflagOrHyb"],
               "last_hybr_converged": hybr[-1][0] if hybr else None,
               "last_hybr_sumsq": hybr[-1][1] if hybr else None,
               "n_hybr_failed": sum(1 for h in hybr if not h[0])}
        if res is not None and res[0] is not None:
            out.update(vp=float(res[0]), vm=float(res[1]), Tp=float(res[2]), Tm=float(res[3]))
        else:
            out["none"] = True
        return out

    def fluxes(self, m):
        """Independent flux evaluation from the closed-form EOS."""
        Hs = self.eos.ref("H", m["Tp"])
        Ls = self.eos.ref("L", m["Tm"])
        vp, vm = m["vp"], m["vm"]
        return {"F1p": Hs["w"] * g2(vp) * vp, "F1m": Ls["w"] * g2(vm) * vm,
                "F2p": Hs["w"] * g2(vp) * vp * vp + Hs["p"],
                "F2m": Ls["w"] * g2(vm) * vm * vm + Ls["p"],
                "wp": Hs["w"], "wm": Ls["w"], "csqL": Ls["csq"], "csqH": Hs["csq"]}

    def flux_residuals(self, vp, vm, Tp, Tm):
        Hs = self.eos.ref("H", Tp)
        Ls = self.eos.ref("L", Tm)
        f1p, f1m = Hs["w"] * g2(vp) * vp, Ls["w"] * g2(vm) * vm
        f2p = Hs["w"] * g2(vp) * vp * vp + Hs["p"]
        f2m = Ls["w"] * g2(vm) * vm * vm + Ls["p"]
        return (f1p - f1m) / abs(f1p), (f2p - f2m) / abs(f2p)

    def junction_vm(self, vp_unused, Tp, Tm):
        """v- from the two junction relations (own algebra), given T+ and T-."""
        Hs = self.eos.ref("H", Tp)
        Ls = self.eos.ref("L", Tm)
        vpvm = (Hs["p"] - Ls["p"]) / (Hs["e"] - Ls["e"])
        vpovm = (Ls["e"] + Hs["p"]) / (Hs["e"] + Ls["p"])
        return vpvm, vpovm

    def classify(self, m):
        """deflagration / hybrid / detonation from the returned numbers and vJ."""
        if m["vw"] > self.hyd.vJ:
            return "detonation"
        csqL = self.eos.ref("L", m["Tm"])["csq"]
        if m["vw"] ** 2 >= csqL:
            return "hybrid"
        return "deflagration"

    def ref_Tn(self, vw, vp, Tp):
        prof = F.shock_profile(self.eos.ref, vw, vp, Tp)
        tn, mom = F.cross_front(self.eos.ref, prof, 0.3 * self.Tn, prof["T_sh"])
        return tn, mom, prof


def velocities(rng, hyd, n, cb, probe=None):
    """Wall velocities between vMin and 0.99 with corner emphasis.  With a probe, the
    window between the sound speed behind the wall evaluated at T_n and at the actual T-
    (where 'deflagration or hybrid?' depends on which temperature a shortcut uses) is
    sampled explicitly."""
    vmin = max(hyd.vMin, 1e-3) * (1 + 1e-3)
    vJ = hyd.vJ
    out = []
    kinds = []
    cb_window = None
    if probe is not None:
        try:
            m = probe.matching(min(cb, vJ) * 0.999)
            if not m.get("none") and not m["error"] and m["Tm"] > 0:
                cbm = math.sqrt(probe.eos.ref("L", m["Tm"])["csq"])
                lo_, hi_ = sorted((cbm, cb))
                if hi_ - lo_ > 1e-5 and hi_ < vJ:
                    cb_window = (lo_, hi_)
        except Exception:
            cb_window = None
    cs_n = None
    if probe is not None:
        cs_n = math.sqrt(probe.eos.ref("H", probe.Tn)["csq"])
    # window between the template model's Jouguet velocity and the exact one (they differ
    # when the sound speeds depend on temperature): a branch decided with the wrong one of
    # the two only shows there
    tvJ = None
    try:
        tvJ = float(hyd.template.vJ)
    except Exception:
        tvJ = None
    vj_window = None
    if tvJ is not None and np.isfinite(tvJ) and abs(tvJ - vJ) > 1e-4 * vJ:
        vj_window = tuple(sorted((tvJ, vJ)))
    for i in range(n):
        r = rng.random()
        if vj_window is not None and i % 5 == 2:
            f = float(rng.uniform(0.05, 0.95))
            v = vj_window[0] + f * (vj_window[1] - vj_window[0])
            out.append(min(max(v, vmin), 0.99))
            kinds.append("between-template-vJ-and-vJ")
            continue
        if cs_n is not None and cb < cs_n and i % 4 == 3 and cb < vJ:
            # between the sound speeds of the two phases: hybrid by c_b, still "subsonic"
            # by c_s, where a guard written with the wrong one of the two goes unnoticed
            v = float(rng.uniform(cb, min(cs_n, vJ)))
            out.append(min(max(v, vmin), 0.99))
            kinds.append("between-cb-and-cs")
            continue
        if cb_window is not None and i % 4 == 1:
            v = float(rng.uniform(*cb_window))
            out.append(min(max(v, vmin), 0.99))
            kinds.append("between-cb(T-)-and-cb(Tn)")
            continue
        if r < 0.18 and vmin < 0.1:
            v = float(np.exp(rng.uniform(np.log(vmin), np.log(0.1))))
            k = "slow"
        elif r < 0.40:
            v = float(rng.uniform(vmin, max(vmin * 1.01, min(cb, vJ))))
            k = "deflag-range"
        elif r < 0.52:
            v = float(cb * (1 + rng.choice([-1, 1]) * 10 ** rng.uniform(-6, -2)))
            k = "near-cb"
        elif r < 0.66:
            v = float(rng.uniform(min(cb, vJ), vJ))
            k = "hybrid-range"
        elif r < 0.76:
            v = float(vJ * (1 - 10 ** rng.uniform(-5, -1.5)))
            k = "below-vJ"
        elif r < 0.86:
            v = float(min(0.99, vJ * (1 + 10 ** rng.uniform(-6, -2))))
            k = "above-vJ"
        else:
            v = float(rng.uniform(vJ, 0.99)) if vJ < 0.985 else 0.99
            k = "detonation-range"
        v = min(max(v, vmin), 0.99)
        out.append(v)
        kinds.append(k)
    return out, kinds
