"""C16 -- spectral polynomial calculus is exact on the polynomial space of the grid.

Monitor shape.  Every case builds a real ``WallGo.Grid`` (or ``Grid3Scales``) and real
``WallGo.Polynomial`` objects and observes what ``changeBasis / evaluate / derivative /
integrate / matrix / derivMatrix`` return.  Two class-attribute recording wrappers
(installed from here, nothing in /repo is touched) sit on ``Polynomial.chebyshev`` and
``Polynomial.cardinal``: every internal call made by the operations above is compared, at
the call, with the basis function it is documented to return (numpy ``chebvander``; scipy
barycentric Lagrange), so that a wrong restricted basis is located at its source even when
a round trip through the same wrong basis would cancel it.

Oracle.  ``wgverif.oracles.c16_ref``: random members of the grid's polynomial space as
``numpy.polynomial.chebyshev`` series (they carry the factor (1-x^2) resp. (1-x) on grids
without endpoints); node values by Clenshaw evaluation at numpy's own Chebyshev points,
restricted-basis coefficients read off the series (no solve), derivative by ``chebder``,
integrals as pi*c_0 of the product series.  Rank-k references are sums of outer products of
those one-dimensional quantities.  Independence along axes and linearity are metamorphic
relations between runs of the real code on arbitrary (random, full) coefficient arrays.

Operand preservation.  After EVERY call on a Polynomial (changeBasis, evaluate, derivative,
matrix, derivMatrix, integrate in every spelling of axis and weight: omitted / None /
scalar 1 / array) the ``operand_preserved`` monitor checks that the array the caller handed
in (coefficients, weight) is bit-identical, the labels are as documented, the stored
numbers are bit-identical when no basis changed and otherwise equal the oracle's numbers
for the new basis, and -- after an integration -- that evaluate, derivative and the same
integrate call repeated on the same object still give P, P' and the same number.

Tolerances.  err <= K * eps * g(n) * A  with A = sum|c_k| (a bound on max|P|, taken from the
case's own polynomial), g the growth of the rounding error of that operation with the
number of nodes, and one safety factor K (see TOL below: what was observed on the unchanged
tree and the margin left).  For the basis change g carries the 2-norm condition number of
that case's transform, computed on the oracle side.
"""
from __future__ import annotations

import collections
import itertools
import math

import numpy as np

from wgverif import env  # noqa: F401
from wgverif.oracles import c16_ref as R

PROPERTY = "C16"
RULE = ("kind '1d': enumerated over direction (z,pz,pp) x endpoints (with/without) x grid "
        "size (M resp. N = 2..12 every value, plus 13,16,20,21,32,40; the size of the other "
        "direction is drawn different from it) x EVERY admissible polynomial degree of that "
        "space x both input bases; each case runs node check, basis change there and back, "
        "evaluation (random points, grid points, +-1; array and single-point form), "
        "derivative at all nodes incl. boundaries, matrix/derivMatrix, integration against "
        "every weight class in the Gauss-Chebyshev-Lobatto exactness class (top degree 2n-1 "
        "in half of the draws) and the inverse-transpose pairing.  kind 'nd': rank 1..4 "
        "coefficient arrays with a random mix of Array / z / pz / pp axes, endpoints and "
        "bases drawn per axis, (M,N) enumerated over 2..6 x 2..6 (thorough) or drawn from "
        "2..8; reference = sum of <=3 outer products of 1-D oracle quantities; plus "
        "axis-independence (fibre by fibre) and linearity on full random arrays.  A case is "
        "non-trivial when its polynomial is not identically zero (always, by construction: "
        "leading coefficient != 0) and at least one operation was judged; distinct by "
        "(kind, direction, endpoints, size, degree) for 1d and by (M, N, axis layout, "
        "seed class) for nd.")
ASSUMPTIONS = [
    "numpy.polynomial.chebyshev (chebval, chebmul, chebder, chebpts2, chebvander) and "
    "scipy.interpolate.BarycentricInterpolator are the reference",
    "evaluation points are compact coordinates, i.e. taken in [-1,1]",
    "integration weights are finite at every node that is kept (a weight that is infinite "
    "where the quadrature's own factor sqrt(1-x^2) vanishes gives nan by IEEE rules and is "
    "outside the judged class); consequently the halved end weights are never observable",
    "changeBasis is called with a tuple (Array axes named 'Array') whenever the object has "
    "Array axes -- the single-string form relabels Array axes and is not judged there",
    "coefficient arrays are float64",
    "even N is exercised although grid.py comments that N has to be odd (nothing in the "
    "polynomial algebra depends on it); such cases are labelled Neven",
]
CASE_TIMEOUT = 300
CHUNK = 12
EXHAUSTIVE = {"quick": False, "thorough": False}

EPS = R.EPS
# One safety factor for every comparison: tol = K * eps * g(n) * A.
# g(n) is the textbook growth of the rounding error of the operation with the number of
# nodes: (n+1)^2 for evaluating T_n / a Lagrange product near the ends and for an n-term
# quadrature sum, (n+1)^2 * cond_2(transform of this case) for the basis change (solve via
# an explicit inverse), (n+1)^4 for differentiation (entries of the differentiation matrix
# are O(n^2), each built from an n-fold product, and |P'| <= n^2 max|P|).
# Calibration on the unchanged tree (quick seeds 0-4, thorough seeds 0-1, n up to 64): the
# largest err/tol over all comparisons was 0.033 (evaluate), 0.028 (cardinal hook), 0.024
# (basis change), 0.021 (dual), 0.008 (derivative), 0.012 (integrate) -- i.e. K=8 leaves a
# factor >= 30; the per-run maxima are written to the evidence (residual_ratio).  Every mutant
# tried (wrong node, weight, index range, matrix entry, parity, axis) moved results by
# >= 1e-3 relative, >= 1e8 * tol, so the margin costs no sensitivity.
K = 8.0


def g_eval(n):
    return (n + 1.0) ** 2


def g_cb(n, cond):
    return (n + 1.0) ** 2 * cond


def g_der(n):
    return (n + 1.0) ** 4


def g_int(n):
    return (n + 1.0) ** 2


FLOORS = {
    # about half of what seeds 0-4 produce on the unchanged tree (quick: 2590 cases,
    # thorough: ~50000 cases); every deciding monitor is listed, so none can be silent.
    "quick": {"distinct_nontrivial": 1500,
              "mon": {"nodes": 5000, "hook_chebyshev": 20000, "hook_cardinal": 7000,
                      "changebasis": 2000, "roundtrip": 2000, "evaluate": 4000,
                      "evaluate_grid": 1400, "evaluate_single_point": 1000,
                      "derivative": 3000, "integrate": 4000,
                      "integrate_inplace": 2500, "matrix": 1400, "derivmatrix": 1400,
                      "dual": 2800, "axis_independence": 6000, "linearity": 2000,
                      "metadata": 15000, "operand_preserved": 100000},
              "cls": {"1d:z:in": 100, "1d:z:ep": 100, "1d:pz:in": 100, "1d:pz:ep": 100,
                      "1d:pp:in": 100, "1d:pp:ep": 100, "nd:rank1": 80, "nd:rank2": 160,
                      "nd:rank3": 160, "nd:rank4": 160, "nd:mixed-array": 300,
                      "Nodd": 500, "Neven": 500, "Grid3Scales": 100}},
    "thorough": {"distinct_nontrivial": 10000,
                 "mon": {"nodes": 100000, "hook_chebyshev": 400000, "hook_cardinal": 130000,
                         "changebasis": 36000, "roundtrip": 36000, "evaluate": 80000,
                         "evaluate_grid": 26000, "evaluate_single_point": 20000,
                         "derivative": 63000, "integrate": 73000,
                         "integrate_inplace": 46000, "matrix": 26000, "derivmatrix": 26000,
                         "dual": 53000, "axis_independence": 130000, "linearity": 40000,
                         "metadata": 330000, "operand_preserved": 2000000},
                 "cls": {"1d:z:in": 2000, "1d:z:ep": 2000, "1d:pz:in": 2000,
                         "1d:pz:ep": 2000, "1d:pp:in": 2000, "1d:pp:ep": 2000,
                         "nd:rank1": 800, "nd:rank2": 3300, "nd:rank3": 3300,
                         "nd:rank4": 3300, "nd:mixed-array": 6000,
                         "Nodd": 10000, "Neven": 10000, "Grid3Scales": 2000}},
}

SIZES_SMALL = list(range(2, 13))
SIZES_EXTRA_Q = [13, 20, 21, 40]
SIZES_EXTRA_T = [13, 14, 15, 16, 17, 19, 20, 21, 24, 25, 32, 33, 40, 48, 64]


# ------------------------------------------------------------------ hooks on real code
_H = {"viol": [], "mon": collections.Counter(), "branch": set(), "ratio": {}}
_INSTALLED = False


def _hook_reset():
    _H["viol"] = []
    _H["mon"] = collections.Counter()
    _H["branch"] = set()
    _H["ratio"] = {}
    _H.pop("viol_hook_error", None)


def _note_ratio(store, op, err, tol):
    r = err / tol if tol > 0 else (0.0 if err == 0 else math.inf)
    if not (r <= store.get(op, -1.0)):     # also true for nan
        store[op] = float(r) if r == r else math.inf


def _install_hooks():
    """Recording wrappers (record mode: never raise) on the two basis-function methods."""
    global _INSTALLED
    if _INSTALLED:
        return
    from numpy.polynomial import chebyshev as C
    from WallGo.polynomial import Polynomial

    orig_cheb = Polynomial.chebyshev
    orig_card = Polynomial.cardinal

    def chebyshev(self, compactCoord, n, restriction=None):
        out = orig_cheb(self, compactCoord, n, restriction)
        try:
            x = np.asarray(compactCoord, dtype=float)
            nn = np.asarray(n)
            xb, nb = np.broadcast_arrays(x, nn)
            nmax = int(nb.max()) if nb.size else 0
            V = C.chebvander(xb, nmax)
            ref = np.take_along_axis(V, nb[..., None].astype(int), axis=-1)[..., 0]
            if restriction in ("full", "partial"):
                Vp = C.chebvander(np.array([1.0]), nmax)[0][nb.astype(int)]
                if restriction == "partial":
                    ref = ref - Vp
                else:
                    Vm = C.chebvander(np.array([-1.0]), nmax)[0][nb.astype(int)]
                    ref = ref - 0.5 * (Vp + Vm) - 0.5 * (Vp - Vm) * xb
            got = np.asarray(out, dtype=float)
            _H["mon"]["hook_chebyshev"] += 1
            par = ("e" if np.any(nb % 2 == 0) else "") + ("o" if np.any(nb % 2 == 1) else "")
            _H["branch"].add(f"cheb:{restriction}:{par}")
            tol = K * EPS * (nmax + 1.0) ** 2 * 2.0
            if got.shape != ref.shape:
                _H["viol"].append({"mech": f"chebyshev-basis-shape-{restriction}",
                                   "msg": f"Polynomial.chebyshev returned shape {got.shape}"
                                          f", broadcast shape is {ref.shape}", "data": {}})
            else:
                err = float(np.max(np.abs(got - ref))) if got.size else 0.0
                if not np.all(np.isfinite(got)):
                    err = math.inf
                _note_ratio(_H["ratio"], "hook_chebyshev", err, tol)
                if err > tol:
                    k = np.unravel_index(int(np.argmax(np.abs(got - ref))), got.shape) \
                        if np.all(np.isfinite(got)) else (0,) * got.ndim
                    _H["viol"].append({
                        "mech": f"chebyshev-basis-value-{restriction}",
                        "msg": f"Polynomial.chebyshev(restriction={restriction!r}) returned "
                               f"{got[k]!r} for n={int(nb[k])}, x={float(xb[k])!r}; the basis "
                               f"function documented there is {ref[k]!r} (|err|={err:.3e} > "
                               f"{tol:.3e})",
                        "data": {"n": int(nb[k]), "x": float(xb[k]), "got": float(got[k]),
                                 "want": float(ref[k]), "restriction": restriction}})
        except Exception as exc:  # the hook must never change behaviour
            _H["mon"]["hook_error"] += 1
            _H["viol_hook_error"] = repr(exc)[:200]
        return out

    def cardinal(self, compactCoord, n, direction):
        out = orig_card(self, compactCoord, n, direction)
        try:
            x = np.asarray(compactCoord, dtype=float)
            nn = np.asarray(n)
            xb, nb = np.broadcast_arrays(x, nn)
            ng = R.size_n(direction, self.grid.M, self.grid.N)
            L = R.lagrange_basis(ng, xb.ravel())          # (pts, ng+1)
            ref = L[np.arange(xb.size), nb.ravel().astype(int)].reshape(xb.shape)
            got = np.asarray(out, dtype=float)
            _H["mon"]["hook_cardinal"] += 1
            _H["branch"].add(f"card:{direction}")
            tol = K * EPS * (ng + 1.0) ** 2
            if got.shape != ref.shape:
                _H["viol"].append({"mech": f"cardinal-basis-shape-{direction}",
                                   "msg": f"Polynomial.cardinal returned shape {got.shape}, "
                                          f"broadcast shape is {ref.shape}", "data": {}})
            else:
                err = float(np.max(np.abs(got - ref))) if got.size else 0.0
                if not np.all(np.isfinite(got)):
                    err = math.inf
                _note_ratio(_H["ratio"], "hook_cardinal", err, tol)
                if err > tol:
                    k = np.unravel_index(int(np.argmax(np.abs(got - ref))), got.shape) \
                        if np.all(np.isfinite(got)) else (0,) * got.ndim
                    _H["viol"].append({
                        "mech": f"cardinal-basis-value-{direction}",
                        "msg": f"Polynomial.cardinal(direction={direction!r}) returned "
                               f"{got[k]!r} for node index {int(nb[k])}, x={float(xb[k])!r}; "
                               f"the Lagrange cardinal function of the {ng + 1}-node "
                               f"Gauss-Lobatto grid is {ref[k]!r} (|err|={err:.3e} > {tol:.3e})",
                        "data": {"n": int(nb[k]), "x": float(xb[k]), "got": float(got[k]),
                                 "want": float(ref[k]), "direction": direction}})
        except Exception as exc:
            _H["mon"]["hook_error"] += 1
            _H["viol_hook_error"] = repr(exc)[:200]
        return out

    chebyshev.__wrapped__ = orig_cheb
    cardinal.__wrapped__ = orig_card
    Polynomial.chebyshev = chebyshev
    Polynomial.cardinal = cardinal
    _INSTALLED = True


def worker_init():
    env.import_wallgo()
    _install_hooks()


# --------------------------------------------------------------------------- generate
def _other_size(rng, n_this):
    while True:
        o = int(rng.integers(2, 10))
        if o != n_this:
            return o


def _gen_1d(rng, sizes, reps, cases):
    for direction in R.DIRS:
        for size in sizes:                     # size is M (z) or N (pz, pp)
            n = size if direction != "pp" else size - 1
            if n < 1:
                continue
            for ep in (False, True):
                dmin, dmax = R.degree_range(direction, ep, n)
                for deg in range(dmin, dmax + 1):
                    for _ in range(reps):
                        other = _other_size(rng, size)
                        M, N = (size, other) if direction == "z" else (other, size)
                        cases.append({"kind": "1d", "M": M, "N": N, "dir": direction,
                                      "ep": ep, "deg": deg,
                                      "g3": bool(rng.random() < 0.15),
                                      "s": int(rng.integers(1 << 30))})


def _rand_layout(rng, rank, M, N):
    """Random axis layout with at least one polynomial axis."""
    while True:
        axes = []
        for _ in range(rank):
            if rng.random() < 0.3:
                # Array axis; sometimes with a size and direction label that collide with
                # a polynomial axis (as boltzmann.py does: basis 'Array', direction 'z')
                r = rng.random()
                if r < 0.4:
                    axes.append({"t": "A", "size": int(rng.integers(1, 4)), "dir": "Array"})
                elif r < 0.7:
                    axes.append({"t": "A", "size": max(1, M - 1), "dir": "z"})
                else:
                    axes.append({"t": "A", "size": int(rng.integers(1, 4)),
                                 "dir": str(rng.choice(["z", "pz", "pp"]))})
            else:
                axes.append({"t": "P", "dir": str(rng.choice(R.DIRS)),
                             "ep": bool(rng.random() < 0.4),
                             "basis": str(rng.choice(["Cardinal", "Chebyshev"]))})
        if any(a["t"] == "P" for a in axes):
            ok = True
            for a in axes:
                if a["t"] == "P" and R.size_n(a["dir"], M, N) < 1:
                    ok = False
            if ok:
                return axes


def _gen_nd(rng, pairs, per_pair_rank, cases):
    for (M, N) in pairs:
        for rank in (1, 2, 3, 4):
            for _ in range(per_pair_rank[rank]):
                cases.append({"kind": "nd", "M": int(M), "N": int(N), "rank": rank,
                              "axes": _rand_layout(rng, rank, int(M), int(N)),
                              "g3": bool(rng.random() < 0.1),
                              "s": int(rng.integers(1 << 30))})
    return cases


def generate(tier, seed):
    rng = np.random.default_rng(1600 + int(seed))
    cases = []
    if tier == "quick":
        _gen_1d(rng, SIZES_SMALL, 2, cases)
        _gen_1d(rng, SIZES_EXTRA_Q, 1, cases)
        pairs = [(int(rng.integers(2, 9)), int(rng.integers(2, 9))) for _ in range(160)]
        _gen_nd(rng, pairs, {1: 1, 2: 2, 3: 2, 4: 2}, cases)
        nb = 1
    else:
        _gen_1d(rng, SIZES_SMALL, 40, cases)
        _gen_1d(rng, SIZES_EXTRA_T, 4, cases)
        pairs = list(itertools.product(range(2, 7), range(2, 7))) * 28
        pairs += [(int(rng.integers(2, 13)), int(rng.integers(2, 13))) for _ in range(1000)]
        _gen_nd(rng, pairs, {1: 1, 2: 4, 3: 4, 4: 4}, cases)
        nb = 6
    # Boltzmann-solver layouts (Array, z, pz, pp) without endpoints, all 8 basis choices
    for _ in range(nb):
        for bz, bpz, bpp in itertools.product(("Cardinal", "Chebyshev"), repeat=3):
            M, N = int(rng.integers(3, 9)), int(rng.choice([3, 5, 7]))
            cases.append({"kind": "nd", "M": M, "N": N, "rank": 4, "g3": False,
                          "axes": [{"t": "A", "size": int(rng.integers(1, 3)), "dir": "z"},
                                   {"t": "P", "dir": "z", "ep": False, "basis": bz},
                                   {"t": "P", "dir": "pz", "ep": False, "basis": bpz},
                                   {"t": "P", "dir": "pp", "ep": False, "basis": bpp}],
                          "s": int(rng.integers(1 << 30))})
    for i, c in enumerate(cases):
        c["i"] = i
    return cases


# ------------------------------------------------------------------------------ judge
class Judge:
    def __init__(self, ctx):
        self.viol = []
        self.mon = collections.Counter()
        self.ratio = {}
        self.ctx = ctx
        self.skipped = collections.Counter()

    def add(self, mech, msg, **data):
        if len(self.viol) < 40:
            d = dict(self.ctx)
            d.update(data)
            self.viol.append({"mech": mech, "msg": msg, "data": d})

    def call(self, op, fn, what=""):
        """Run the real code; an exception on an admissible input is itself a finding."""
        try:
            return True, fn()
        except Exception as exc:  # noqa: BLE001
            self.add(f"{op}-raises-{type(exc).__name__}",
                     f"{op} raised {exc!r:.300} on an admissible input {what} [{self.ctx}]")
            return False, None

    def cmp(self, mon, mech, got, want, tol, what):
        """Count one monitor evaluation; compare arrays under tol."""
        self.mon[mon] += 1
        want = np.asarray(want, dtype=float)
        try:
            got = np.asarray(got, dtype=float)
        except Exception:
            self.add(mech + "-type", f"{what}: result {type(got).__name__} is not numeric")
            return False
        if got.shape != want.shape:
            self.add(mech + "-shape", f"{what}: result shape {got.shape}, expected "
                     f"{want.shape}", got_shape=list(got.shape), want_shape=list(want.shape))
            return False
        if got.size == 0:
            return True
        if not np.all(np.isfinite(got)):
            err = math.inf
        else:
            err = float(np.max(np.abs(got - want)))
        _note_ratio(self.ratio, mon, err, tol)
        if err > tol:
            if math.isfinite(err):
                k = np.unravel_index(int(np.argmax(np.abs(got - want))), got.shape)
                loc = f"at index {tuple(int(v) for v in k)} got {got[k]!r} want {want[k]!r}"
            else:
                loc = "non-finite result"
            self.add(mech, f"{what}: |err|={err:.3e} > tol {tol:.3e} ({loc})",
                     err=err, tol=tol)
            return False
        return True

    def meta(self, mech, cond, what):
        self.mon["metadata"] += 1
        if not cond:
            self.add(mech, what)
        return cond


def _make_grid(case):
    import WallGo
    M, N = case["M"], case["N"]
    if case.get("g3"):
        try:
            return WallGo.Grid3Scales(M, N, 5.0, 4.0, 1.0, 1.3), "Grid3Scales"
        except Exception:
            pass
    return WallGo.Grid(M, N, 1.7, 1.3), "Grid"


def _tag(direction, ep):
    return f"{direction}-{'endpoints' if ep else 'interior'}"


def _check_nodes(J, grid, direction, ep, n):
    X = R.nodes_full(n)
    K_ = R.kept(direction, ep, n)
    ok, full = J.call("getCompactCoordinates", lambda: grid.getCompactCoordinates(True, direction))
    ok2, kp = J.call("getCompactCoordinates", lambda: grid.getCompactCoordinates(ep, direction))
    ok3, tup = J.call("getCompactCoordinates", lambda: grid.getCompactCoordinates(ep))
    if not (ok and ok2 and ok3):
        return None, None
    full = np.asarray(full, dtype=float)
    kp = np.asarray(kp, dtype=float)
    # both sides take the cosine of an argument <= pi that carries two roundings
    # (k*pi/n resp. linspace): |dx| <= 2*(2*pi*eps) + 2*(eps/2) < 14 eps; 16 eps used.
    # Observed on the unchanged tree: <= 2.5 eps.  A wrong node count moves nodes by O(1/n^2).
    tol = 16 * EPS
    J.cmp("nodes", f"nodes-not-gauss-lobatto-{direction}", full, X, tol,
          f"getCompactCoordinates(True,{direction!r}) vs extrema of T_{n}")
    J.cmp("nodes", f"nodes-not-gauss-lobatto-{_tag(direction, ep)}", kp, X[K_], tol,
          f"getCompactCoordinates({ep},{direction!r}) vs kept extrema of T_{n}")
    J.cmp("nodes", f"nodes-tuple-form-{direction}",
          np.asarray(tup[R.DIRS.index(direction)], dtype=float), X[K_], tol,
          f"getCompactCoordinates({ep})[{R.DIRS.index(direction)}]")
    if full.shape == X.shape:
        J.meta(f"nodes-ends-not-exact-{direction}",
               full[0] == -1.0 and full[-1] == 1.0 and bool(np.all(np.diff(full) > 0)),
               f"full {direction} grid must start at -1, end at +1 exactly and increase: "
               f"{full[:2]}..{full[-2:]}")
    return full, kp


# -------------------------------------------------------------------------- 1-D cases
def _case_1d(case):
    from WallGo.polynomial import Polynomial
    from numpy.polynomial import chebyshev as C
    rng = np.random.default_rng(case["s"])
    M, N, direction, ep, deg = case["M"], case["N"], case["dir"], case["ep"], case["deg"]
    n = R.size_n(direction, M, N)
    tag = _tag(direction, ep)
    ctx = {"M": M, "N": N, "dir": direction, "endpoints": ep, "deg": deg}
    J = Judge(ctx)
    grid, gname = _make_grid(case)
    full, kp = _check_nodes(J, grid, direction, ep, n)
    X = R.nodes_full(n)
    Kp = R.kept(direction, ep, n)
    if full is None or full.shape != X.shape or kp.shape != X[Kp].shape:
        return J, gname, {}
    scale = float(10.0 ** rng.integers(-2, 3))
    c = R.random_member(rng, direction, ep, n, deg, scale)
    A = R.amp(c)
    reps = {b: R.rep(c, b, direction, ep, n) for b in ("Cardinal", "Chebyshev")}
    nco = R.ncoef(direction, ep, n)
    cond = R.transform_cond(direction, ep, n)
    dc = C.chebder(c) if len(c) > 1 else np.zeros(1)
    dwant = C.chebval(X, dc)
    Ad = float(np.sum(np.arange(len(c)) ** 2 * np.abs(c)))   # >= max|P'|
    pts = np.concatenate([rng.uniform(-1, 1, size=5), X, [-1.0, 1.0]])
    pwant = C.chebval(pts, c)
    obs = {"grid": gname, "n": n, "cond": cond, "amp": A}

    track = {}
    tol_cb = K * EPS * g_cb(n, cond) * A
    tol_ev = K * EPS * g_eval(n) * A
    tol_d = K * EPS * g_der(n) * A

    def mk(basis, arr=None):
        a = np.array(reps[basis] if arr is None else arr, dtype=float)
        obj = Polynomial(a, grid, basis, direction, ep)
        # (object kept alive, the caller's array, its pristine copy, is it the series c?)
        track[id(obj)] = (obj, a, a.copy(), arr is None)
        return obj

    def preserved(op, obj, wh, exact, again=None):
        """Operand-preserved monitor, run after EVERY call on a Polynomial: the caller's
        array is untouched, the labels are intact, and the object still represents the
        same polynomial -- bit-identical stored numbers when the operation has no
        documented in-place effect (exact=True), otherwise (in-place basis change) the
        oracle's numbers for the basis it is now labelled with, and the same function
        under evaluate.  again=(callable, first_result, tol): after an integration the
        full battery -- evaluate, derivative, and the very same integrate call repeated
        on the same object must give the same number."""
        _, a, a0, is_series = track[id(obj)]
        J.cmp("operand_preserved", f"{op}-modifies-callers-array", a, a0, 0.0,
              f"the coefficient array handed to Polynomial() was modified by {op} {wh}")
        J.mon["operand_preserved"] += 1
        lab = (isinstance(obj.basis, tuple) and len(obj.basis) == 1
               and obj.basis[0] in ("Cardinal", "Chebyshev")
               and tuple(obj.direction) == (direction,) and tuple(obj.endpoints) == (ep,)
               and obj.grid is grid and obj.rank == 1)
        if not lab:
            J.add(f"{op}-alters-operand-labels-{tag}",
                  f"after {op} the operand is labelled basis={obj.basis} direction="
                  f"{obj.direction} endpoints={obj.endpoints} rank={obj.rank} {wh}")
            return
        if not is_series:
            return
        if exact:
            J.cmp("operand_preserved", f"{op}-alters-operand-{tag}", obj.coefficients, a0,
                  0.0, f"{op} has no documented in-place effect here, yet the stored "
                  f"coefficients of the operand changed {wh}")
        else:
            J.cmp("operand_preserved", f"{op}-alters-operand-{tag}", obj.coefficients,
                  reps[obj.basis[0]], tol_cb,
                  f"after {op} the operand (now labelled {obj.basis[0]}) no longer holds the "
                  f"numbers that represent the same polynomial {wh}")
        if exact and again is None:
            return
        ok_, val_ = J.call("evaluate", lambda: obj.evaluate(pts[None, :]), wh + f" after {op}")
        if ok_:
            J.cmp("operand_preserved", f"{op}-alters-operand-{tag}", val_, pwant,
                  tol_ev + tol_cb * (n + 1.0),
                  f"operand evaluated after {op} is no longer the same polynomial {wh}")
        if again is None:
            return
        fn, first, tol_again = again
        ok_, d_ = J.call("derivative", lambda: obj.derivative(0), wh + f" after {op}")
        if ok_ and isinstance(d_, Polynomial):
            J.cmp("operand_preserved", f"{op}-alters-operand-{tag}", d_.coefficients, dwant,
                  tol_d * (1.0 + cond),
                  f"derivative of the operand after {op} is no longer P' {wh}")
        ok_, second = J.call("integrate", lambda: fn(obj), wh + f" repeated after {op}")
        if ok_:
            J.cmp("operand_preserved", f"{op}-alters-operand-{tag}", second, first, tol_again,
                  f"the same {op} call repeated on the same object gives a different "
                  f"number {wh}")
        J.cmp("operand_preserved", f"{op}-modifies-callers-array", a, a0, 0.0,
              f"the coefficient array handed to Polynomial() was modified by a repeated "
              f"{op} {wh}")

    for b0 in ("Cardinal", "Chebyshev"):
        b1 = "Chebyshev" if b0 == "Cardinal" else "Cardinal"
        what = f"[{gname} M={M} N={N} {tag} deg={deg} input={b0}]"
        ok, p = J.call("Polynomial", lambda: mk(b0), what)
        if not ok:
            continue
        # ---- basis change there and back
        ok, _ = J.call("changeBasis", lambda: p.changeBasis(b1), what)
        if ok:
            preserved("changeBasis", p, what, exact=False)
            J.cmp("changebasis", f"changebasis-to-{b1.lower()}-{tag}", p.coefficients,
                  reps[b1], tol_cb, f"changeBasis({b1!r}) coefficients vs oracle {what}")
            J.meta(f"changebasis-label-{tag}", p.basis == (b1,),
                   f"basis label after changeBasis({b1!r}) is {p.basis} {what}")
            ok, _ = J.call("changeBasis", lambda: p.changeBasis((b0,)), what)
            if ok:
                J.cmp("roundtrip", f"changebasis-roundtrip-{tag}", p.coefficients, reps[b0],
                      tol_cb, f"{b0}->{b1}->{b0} must return the coefficients {what}")
                preserved("changeBasis", p, what + " (there and back)", exact=False)
        # a basis change to the basis the object is already in is a no-op
        p = mk(b0)
        ok, _ = J.call("changeBasis", lambda: p.changeBasis(b0), what + " same basis")
        if ok:
            preserved("changeBasis", p, what + " (same basis)", exact=True)
        # ---- evaluation
        p = mk(b0)
        ok, val = J.call("evaluate", lambda: p.evaluate(pts[None, :]), what)
        if ok:
            J.cmp("evaluate", f"evaluate-{b0.lower()}-{tag}", val, pwant, tol_ev,
                  f"evaluate at 5 random points, the {n + 1} nodes and +-1 {what}")
            preserved("evaluate", p, what, exact=True)
        ok, val = J.call("evaluate", lambda: p.evaluate(np.asarray(kp)[None, :]), what)
        if ok:
            J.cmp("evaluate_grid", f"evaluate-grid-values-{b0.lower()}-{tag}", val,
                  reps["Cardinal"], tol_ev + 4 * EPS * Ad,
                  f"evaluate at the grid's own nodes must return the grid values {what}")
        x0 = float(pts[int(rng.integers(0, 5))])
        ok, val = J.call("evaluate", lambda: p.evaluate(np.array([x0])), what + " single point")
        if ok:
            J.meta(f"evaluate-single-point-type-{tag}", isinstance(val, float),
                   f"evaluate((1,)) must return a float, got {type(val).__name__} {what}")
            J.cmp("evaluate", f"evaluate-{b0.lower()}-{tag}", val, C.chebval(x0, c), tol_ev,
                  f"evaluate at the single point {x0!r} {what}")
            preserved("evaluate", p, what + " single point", exact=True)
        # ---- derivative
        ok, d = J.call("derivative", lambda: p.derivative(0), what)
        if ok:
            good = (isinstance(d, Polynomial) and d.basis == ("Cardinal",)
                    and d.endpoints == (True,) and d.direction == (direction,))
            J.meta(f"derivative-metadata-{tag}", good,
                   f"derivative must come back Cardinal with endpoints: basis="
                   f"{getattr(d, 'basis', None)} endpoints={getattr(d, 'endpoints', None)} "
                   f"direction={getattr(d, 'direction', None)} {what}")
            if isinstance(d, Polynomial):
                J.cmp("derivative", f"derivative-{b0.lower()}-{tag}", d.coefficients, dwant,
                      tol_d, f"derivative at all {n + 1} nodes incl. both ends {what}")
            preserved("derivative", p, what, exact=True)
        ok, d = J.call("derivative", lambda: p.derivative((0,)), what + " tuple axis")
        if ok and isinstance(d, Polynomial):
            J.cmp("derivative", f"derivative-{b0.lower()}-{tag}", d.coefficients, dwant,
                  tol_d, f"derivative(axis=(0,)) {what}")
            preserved("derivative", p, what + " tuple axis", exact=True)
        # ---- matrix / derivMatrix
        ok, Dm = J.call("derivMatrix", lambda: p.derivMatrix(b0, direction, ep), what)
        if ok:
            Dm = np.asarray(Dm, dtype=float)
            if J.meta(f"derivmatrix-shape-{b0.lower()}-{tag}", Dm.shape == (n + 1, nco),
                      f"derivMatrix shape {Dm.shape}, expected {(n + 1, nco)} {what}"):
                J.cmp("derivmatrix", f"derivmatrix-{b0.lower()}-{tag}", Dm @ reps[b0], dwant,
                      tol_d, f"derivMatrix @ coefficients vs exact derivative {what}")
            preserved("derivMatrix", p, what, exact=True)
        ok, Mm = J.call("matrix", lambda: p.matrix(b0, direction, ep), what)
        if ok:
            preserved("matrix", p, what, exact=True)
            Mm = np.asarray(Mm, dtype=float)
            if b0 == "Cardinal":
                J.cmp("matrix", f"matrix-cardinal-{tag}", Mm, np.eye(nco), 0.0,
                      f"matrix('Cardinal') must be the {nco}x{nco} identity {what}")
            else:
                J.cmp("matrix", f"matrix-chebyshev-{tag}", Mm,
                      R.restricted_vander(X[Kp], direction, ep, n),
                      K * EPS * g_eval(n) * 2.0,
                      f"matrix('Chebyshev')[i,j] vs restricted T_j(x_i) {what}")
        # ---- integration over the whole exactness class
        for wclass in R.WCLASSES:
            dqmax = R.weight_spec(direction, ep, n, deg, wclass)
            if dqmax is None:
                J.skipped[f"integrate:{wclass}:empty-class"] += 1
                continue
            dq = dqmax if rng.random() < 0.5 else int(rng.integers(0, dqmax + 1))
            q = rng.integers(-3, 4, size=dq + 1).astype(float)
            if q[-1] == 0:
                q[-1] = 1.0
            w = R.weight_values(q, np.asarray(kp, dtype=float), direction, wclass)
            want = R.exact_integral(c, q, direction, wclass)
            tol_i = K * EPS * (g_int(n) + (g_cb(n, 1.0) if b0 == "Chebyshev" else 0.0)) \
                * R.integral_amp(c, q, direction, wclass)
            axis = [None, 0, (0,)][int(rng.integers(0, 3))]
            p3 = mk(b0)
            iw = f"integrate(axis={axis}, weight=q*{wclass}, deg q={dq}, deg integrand*" \
                 f"sqrt(1-x^2)={deg + dq + (2 if wclass == 'sqrt' else (1 if direction == 'pp' else 0))}" \
                 f" <= {2 * n - 1}) {what}"
            w0 = w.copy()
            ok, res = J.call("integrate", lambda: p3.integrate(axis, w), iw)
            if not ok:
                continue
            J.cmp("operand_preserved", "integrate-modifies-callers-weight", w, w0, 0.0,
                  f"the weight array handed to integrate was modified {iw}")
            J.meta(f"integrate-return-type-{tag}", isinstance(res, float),
                   f"full integration must return a float, got {type(res).__name__} {iw}")
            J.cmp("integrate", f"integrate-{wclass}-{tag}", res, want, tol_i, iw)
            J.meta(f"integrate-label-{tag}", p3.basis == ("Cardinal",),
                   f"after integrate the integrated axis is labelled {p3.basis} {iw}")
            ok, val = J.call("evaluate", lambda: p3.evaluate(pts[None, :]), iw)
            if ok:
                J.cmp("integrate_inplace", f"integrate-alters-function-{tag}", val, pwant,
                      tol_ev + K * EPS * g_cb(n, 1.0) * A,
                      f"object evaluated after integrate() must still be the same "
                      f"polynomial {iw}")
            preserved("integrate", p3, iw, exact=(b0 == "Cardinal"),
                      again=(lambda o, ax_=axis, w_=w: o.integrate(ax_, w_), res, tol_i))
            J.cmp("operand_preserved", "integrate-modifies-callers-weight", w, w0, 0.0,
                  f"the weight array handed to integrate was modified by the repeated "
                  f"call {iw}")
        # every trivial-weight form (omitted / None / scalar 1 / scalar 1.0; axis omitted,
        # None, int, tuple) must equal an explicit array of ones, and leave the operand intact
        p5 = mk(b0)
        ok2, r2 = J.call("integrate", lambda: p5.integrate(weight=np.ones(nco)), what)
        if ok2:
            preserved("integrate", p5, what + " weight=ones", exact=(b0 == "Cardinal"),
                      again=(lambda o: o.integrate(weight=np.ones(nco)), r2,
                             K * EPS * g_int(n) * A * math.pi))
        forms = [("integrate()", lambda o: o.integrate()),
                 ("integrate(None, None)", lambda o: o.integrate(None, None)),
                 ("integrate(0, 1)", lambda o: o.integrate(0, 1)),
                 ("integrate((0,), 1.0)", lambda o: o.integrate((0,), 1.0)),
                 ("integrate(axis=0)", lambda o: o.integrate(axis=0)),
                 ("integrate(weight=None)", lambda o: o.integrate(weight=None))]
        for fi in rng.permutation(len(forms))[:3]:
            fname, ffn = forms[int(fi)]
            p4 = mk(b0)
            fw = what + f" {fname}"
            ok, r1 = J.call("integrate", lambda: ffn(p4), fw)
            if not ok:
                continue
            if ok2:
                J.cmp("integrate", f"integrate-default-weight-{tag}", r1, r2,
                      K * EPS * g_int(n) * A * math.pi,
                      f"{fname} with the trivial weight vs weight=ones {what}")
            J.meta(f"integrate-label-{tag}", p4.basis == ("Cardinal",),
                   f"after {fname} the integrated axis is labelled {p4.basis} {fw}")
            preserved("integrate", p4, fw, exact=(b0 == "Cardinal"),
                      again=(ffn, r1, K * EPS * g_int(n) * A * math.pi))
        # ---- inverse-transpose (dual) transformation: pairing is invariant
        cov = rng.integers(-4, 5, size=nco).astype(float)
        pq = mk(b0, cov)
        tol_du = K * EPS * g_cb(n, cond * cond) * A * max(1.0, float(np.sum(np.abs(cov))))
        ok, _ = J.call("changeBasis", lambda: pq.changeBasis(b1, inverseTranspose=True), what)
        if ok and np.shape(pq.coefficients) == (nco,):
            preserved("changeBasis", pq, what + " inverseTranspose", exact=False)
            J.cmp("dual", f"changebasis-inverse-transpose-pairing-{tag}",
                  float(np.dot(pq.coefficients, reps[b1])), float(np.dot(cov, reps[b0])),
                  tol_du, f"sum_i q_i p_i after q->inverseTranspose, p->normal {what}")
            ok, _ = J.call("changeBasis", lambda: pq.changeBasis(b0, inverseTranspose=True), what)
            if ok:
                J.cmp("dual", f"changebasis-inverse-transpose-roundtrip-{tag}",
                      pq.coefficients, cov, tol_du / max(A, 1e-300),
                      f"inverseTranspose there and back {what}")
    return J, gname, obs


# --------------------------------------------------------------------------- N-D cases
def _axis_info(ax, M, N):
    if ax["t"] == "A":
        return None
    n = R.size_n(ax["dir"], M, N)
    return n


def _case_nd(case):
    from WallGo.polynomial import Polynomial
    from numpy.polynomial import chebyshev as C
    rng = np.random.default_rng(case["s"])
    M, N, axes = case["M"], case["N"], case["axes"]
    rank = len(axes)
    layout = "|".join(("A%d%s" % (a["size"], a["dir"][0])) if a["t"] == "A" else
                      f"{a['dir']}{'e' if a['ep'] else 'i'}{a['basis'][:2]}" for a in axes)
    ctx = {"M": M, "N": N, "layout": layout}
    J = Judge(ctx)
    grid, gname = _make_grid(case)
    nterms = int(rng.integers(1, 4))
    P_axes = [i for i, a in enumerate(axes) if a["t"] == "P"]
    A_axes = [i for i, a in enumerate(axes) if a["t"] == "A"]
    ns = [_axis_info(a, M, N) for a in axes]
    # nodes of every polynomial direction used
    real_nodes = {}
    for i in P_axes:
        a = axes[i]
        full, kp = _check_nodes(J, grid, a["dir"], a["ep"], ns[i])
        if full is None or len(kp) != R.ncoef(a["dir"], a["ep"], ns[i]):
            return J, gname, {"layout": layout}, layout
        real_nodes[i] = np.asarray(kp, dtype=float)
    # one-dimensional ingredients: series[i][r]
    series, degs = {}, {}
    for i in P_axes:
        a = axes[i]
        dmin, dmax = R.degree_range(a["dir"], a["ep"], ns[i])
        if dmax < dmin:
            return J, gname, {"layout": layout}, layout
        dl = [int(rng.integers(dmin, dmax + 1)) for _ in range(nterms)]
        if rng.random() < 0.5:
            dl[0] = dmax
        series[i] = [R.random_member(rng, a["dir"], a["ep"], ns[i], d) for d in dl]
        degs[i] = dl
    avec = {i: rng.integers(-3, 4, size=(nterms, axes[i]["size"])).astype(float)
            + 0.5 for i in A_axes}
    amp_in = sum(np.prod([R.amp(series[i][r]) for i in P_axes]
                         + [float(np.max(np.abs(avec[i][r]))) for i in A_axes])
                 for r in range(nterms))

    def vecs(kind_per_axis):
        """kind_per_axis[i] is a callable (i, r)->vector for P axes; Array axes fixed."""
        out = []
        for i in range(rank):
            if i in A_axes:
                out.append(avec[i])
            else:
                out.append(np.array([kind_per_axis[i](i, r) for r in range(nterms)]))
        return out

    def repvec(basis_of):
        return {i: (lambda i_, r_, b=basis_of[i]: R.rep(series[i_][r_], b, axes[i_]["dir"],
                                                         axes[i_]["ep"], ns[i_]))
                for i in P_axes}

    basis0 = tuple("Array" if a["t"] == "A" else a["basis"] for a in axes)
    direction = tuple(a["dir"] for a in axes)
    endpoints = tuple(False if a["t"] == "A" else a["ep"] for a in axes)
    if rng.random() < 0.3 and A_axes:
        # endpoints flag of an Array axis must be irrelevant
        endpoints = tuple(bool(rng.random() < 0.5) if a["t"] == "A" else a["ep"] for a in axes)
    T0 = R.outer_sum(vecs(repvec({i: basis0[i] for i in P_axes})))
    what = f"[{gname} M={M} N={N} axes={layout} basis={basis0}]"
    conds = {i: R.transform_cond(axes[i]["dir"], axes[i]["ep"], ns[i]) for i in P_axes}

    track = {}

    def mk(arr=None, basis=None):
        a = np.array(T0 if arr is None else arr, dtype=float)
        obj = Polynomial(a, grid, basis0 if basis is None else basis, direction, endpoints)
        track[id(obj)] = (obj, a, a.copy(), arr is None and basis is None)
        return obj

    def preserved(op, obj, wh, want_basis, tol_, again=None):
        """Operand-preserved monitor (see the 1-D version): caller's array untouched,
        labels as documented, stored numbers = the oracle tensor for the bases the object
        is now labelled with (bit-identical to the input when no basis changed), and a
        repeated call gives the same result."""
        _, a, a0, is_ref = track[id(obj)]
        J.cmp("operand_preserved", f"{op}-modifies-callers-array", a, a0, 0.0,
              f"the coefficient array handed to Polynomial() was modified by {op} {wh}")
        J.mon["operand_preserved"] += 1
        if not (tuple(obj.basis) == tuple(want_basis) and tuple(obj.direction) == direction
                and tuple(obj.endpoints) == endpoints and obj.rank == rank):
            J.add(f"{op}-alters-operand-labels-nd",
                  f"after {op} the operand is labelled basis={obj.basis} direction="
                  f"{obj.direction} endpoints={obj.endpoints}; expected {want_basis} {wh}")
            return
        if not is_ref:
            return
        if tuple(want_basis) == basis0:
            J.cmp("operand_preserved", f"{op}-alters-operand-nd", obj.coefficients, a0, 0.0,
                  f"{op} changed no basis, yet the stored coefficients of the operand "
                  f"changed {wh}")
        else:
            Tw = R.outer_sum(vecs(repvec({i: want_basis[i] for i in P_axes})))
            J.cmp("operand_preserved", f"{op}-alters-operand-nd", obj.coefficients, Tw, tol_,
                  f"after {op} the operand (labelled {tuple(want_basis)}) no longer holds "
                  f"the numbers that represent the same polynomial {wh}")
        if again is None:
            return
        fn, first, tol_again = again
        ok_, second = J.call(op, lambda: fn(obj), wh + " repeated on the same object")
        if ok_:
            f1 = first.coefficients if isinstance(first, Polynomial) else first
            f2 = second.coefficients if isinstance(second, Polynomial) else second
            J.cmp("operand_preserved", f"{op}-alters-operand-nd", f2, f1, tol_again,
                  f"the same {op} call repeated on the same object gives a different "
                  f"result {wh}")
            J.cmp("operand_preserved", f"{op}-modifies-callers-array", a, a0, 0.0,
                  f"the coefficient array handed to Polynomial() was modified by a "
                  f"repeated {op} {wh}")

    def multi(ops):
        """error-growth factor for an operation touching axes ops={i: g_i}"""
        s = sum(ops.values())
        if len(ops) > 1:
            s *= float(np.prod([ns[i] + 1.0 for i in ops]))
        return s

    ok, p = J.call("Polynomial", lambda: mk(), what)
    if not ok:
        return J, gname, {"layout": layout}, layout
    obs = {"grid": gname, "layout": layout, "shape": list(T0.shape), "terms": nterms,
           "amp": float(amp_in)}

    # ---- (a) basis change to a random target, and back
    flips = [i for i in P_axes if rng.random() < 0.6]
    if not flips:
        flips = [P_axes[int(rng.integers(0, len(P_axes)))]]
    target = list(basis0)
    for i in flips:
        target[i] = "Chebyshev" if basis0[i] == "Cardinal" else "Cardinal"
    target = tuple(target)
    arg = target
    if not A_axes and len(set(target)) == 1 and rng.random() < 0.5:
        arg = target[0]                       # single-string form
    tol = K * EPS * multi({i: g_cb(ns[i], conds[i]) for i in flips}) * amp_in
    ok, _ = J.call("changeBasis", lambda: p.changeBasis(arg), what + f" -> {arg}")
    if ok:
        Tt = R.outer_sum(vecs(repvec({i: target[i] for i in P_axes})))
        J.cmp("changebasis", "changebasis-nd", p.coefficients, Tt, tol,
              f"changeBasis({arg}) vs oracle tensor {what}")
        J.meta("changebasis-label-nd", tuple(p.basis) == target,
               f"basis label after changeBasis({arg}) is {p.basis} {what}")
        preserved("changeBasis", p, what + f" -> {arg}", target, tol)
        ok, _ = J.call("changeBasis", lambda: p.changeBasis(basis0), what + " back")
        if ok:
            J.cmp("roundtrip", "changebasis-roundtrip-nd", p.coefficients, T0, tol,
                  f"{basis0}->{target}->{basis0} {what}")

    # ---- (b) evaluation along a subset of the polynomial axes (any order)
    for rep_ in range(2):
        k = int(rng.integers(1, len(P_axes) + 1)) if rep_ == 0 else len(P_axes)
        S = [int(v) for v in rng.permutation(P_axes)[:k]]
        if rep_ == 1 and rng.random() < 0.5:
            S = sorted(S)
        npts = int(rng.integers(1, 5))
        coords = rng.uniform(-1, 1, size=(len(S), npts))
        for j, i in enumerate(S):              # put a node and an end point among them
            if rng.random() < 0.5:
                coords[j, 0] = real_nodes[i][int(rng.integers(0, len(real_nodes[i])))]
            if rng.random() < 0.3:
                coords[j, -1] = float(rng.choice([-1.0, 1.0]))
        rest = [i for i in range(rank) if i not in S]
        full_eval = (len(rest) == 0)
        p = mk()

        def want_eval(cc):
            out = []
            for kpt in range(cc.shape[1]):
                vv = []
                for i in range(rank):
                    if i in S:
                        j = S.index(i)
                        vv.append(np.array([[C.chebval(cc[j, kpt], series[i][r])]
                                            for r in range(nterms)]))
                    elif i in A_axes:
                        vv.append(avec[i])
                    else:
                        vv.append(np.array([R.rep(series[i][r], basis0[i], axes[i]["dir"],
                                                  axes[i]["ep"], ns[i]) for r in range(nterms)]))
                t = R.outer_sum(vv)
                out.append(np.squeeze(t, axis=tuple(S)) if S else t)
            return np.array(out)

        tol = K * EPS * multi({i: g_eval(ns[i]) for i in S}) * amp_in
        axarg = None if (full_eval and S == sorted(S) and rng.random() < 0.5) else tuple(S)
        ok, val = J.call("evaluate", lambda: p.evaluate(coords, axarg),
                         what + f" axes={axarg} coords{coords.shape}")
        if ok:
            J.cmp("evaluate", "evaluate-nd", val, want_eval(coords), tol,
                  f"evaluate(coords{coords.shape}, axes={axarg}) {what}")
            preserved("evaluate", p, what + f" axes={axarg}", basis0, 0.0)
        # single-point form, documented shape (len(axes),)
        c1 = coords[:, 0].copy()
        try:
            J.mon["evaluate_single_point"] += 1
            val = p.evaluate(c1, axarg)
            w1 = want_eval(c1[:, None])[0]
            if full_eval:
                J.meta("evaluate-single-point-type-nd", isinstance(val, float),
                       f"evaluate of all axes at one point must return a float, got "
                       f"{type(val).__name__} {what}")
            J.cmp("evaluate", "evaluate-nd-single-point", val, w1, tol,
                  f"evaluate(coords shape ({len(S)},), axes={axarg}) {what}")
        except Exception as exc:  # noqa: BLE001
            if not full_eval and isinstance(exc, TypeError):
                J.add("evaluate-single-point-partial-axes-raises",
                      f"evaluate(compactCoord of documented shape (len(axes),)={c1.shape}, "
                      f"axes={axarg}) on a rank-{rank} array raises {exc!r:.200} instead of "
                      f"returning the array over the remaining axes {what}")
            else:
                J.add(f"evaluate-raises-{type(exc).__name__}",
                      f"evaluate single point raised {exc!r:.300} {what} axes={axarg}")

    # ---- (c) derivative along one axis or a tuple of axes
    k = int(rng.integers(1, len(P_axes) + 1))
    S = sorted(int(v) for v in rng.permutation(P_axes)[:k])
    axarg = S[0] if (len(S) == 1 and rng.random() < 0.5) else tuple(S)
    p = mk()
    ok, d = J.call("derivative", lambda: p.derivative(axarg), what + f" axis={axarg}")
    if ok:
        def dvec(i_, r_):
            s_ = series[i_][r_]
            return C.chebval(R.nodes_full(ns[i_]), C.chebder(s_) if len(s_) > 1 else np.zeros(1))
        kinds = repvec({i: basis0[i] for i in P_axes})
        for i in S:
            kinds[i] = dvec
        want = R.outer_sum(vecs(kinds))
        tol = K * EPS * multi({i: g_der(ns[i]) for i in S}) * amp_in
        wb = tuple("Cardinal" if i in S else basis0[i] for i in range(rank))
        we = tuple(True if i in S else endpoints[i] for i in range(rank))
        good = isinstance(d, Polynomial) and tuple(d.basis) == wb and tuple(d.endpoints) == we \
            and tuple(d.direction) == direction
        J.meta("derivative-metadata-nd", good,
               f"derivative(axis={axarg}) labels: basis={getattr(d, 'basis', None)} endpoints="
               f"{getattr(d, 'endpoints', None)}; expected {wb} / {we} {what}")
        if isinstance(d, Polynomial):
            J.cmp("derivative", "derivative-nd", d.coefficients, want, tol,
                  f"derivative(axis={axarg}) vs exact derivative at all nodes {what}")
        preserved("derivative", p, what + f" axis={axarg}", basis0, 0.0)

    # ---- (d) integration along one axis / several / all
    k = int(rng.integers(1, len(P_axes) + 1))
    S = sorted(int(v) for v in rng.permutation(P_axes)[:k])
    specs, okc = {}, True
    for i in S:
        a = axes[i]
        avail = [(wc, R.weight_spec(a["dir"], a["ep"], ns[i], max(degs[i]), wc))
                 for wc in R.WCLASSES]
        avail = [(wc, dq) for wc, dq in avail if dq is not None]
        if not avail:
            okc = False
            break
        wc, dqmax = avail[int(rng.integers(0, len(avail)))]
        dq = dqmax if rng.random() < 0.5 else int(rng.integers(0, dqmax + 1))
        q = rng.integers(-3, 4, size=dq + 1).astype(float)
        if q[-1] == 0:
            q[-1] = 1.0
        specs[i] = (wc, q)
    if not okc:
        J.skipped["integrate:nd:empty-class"] += 1
    else:
        shape = T0.shape
        w = np.ones([1] * rank)
        for i in S:
            wc, q = specs[i]
            sh = [1] * rank
            sh[i] = shape[i]
            w = w * R.weight_values(q, real_nodes[i], axes[i]["dir"], wc).reshape(sh)
        rest = [i for i in range(rank) if i not in S]
        # a factor living on the remaining axes (pointwise in the stored numbers)
        bfac = {}
        for i in rest:
            if rng.random() < 0.5:
                bfac[i] = rng.integers(1, 4, size=shape[i]).astype(float)
                sh = [1] * rank
                sh[i] = shape[i]
                w = w * bfac[i].reshape(sh)
        if rng.random() < 0.3:
            w = np.broadcast_to(w, shape).copy()
        if len(S) == 1 and rng.random() < 0.5:
            axarg = S[0]
        elif not rest and rng.random() < 0.5:
            axarg = None
        else:
            axarg = tuple(S)
        kinds = repvec({i: ("Cardinal" if i in S else basis0[i]) for i in P_axes})

        def ivec_factory(i_):
            wc, q = specs[i_]
            return lambda ii, r_: np.array([R.exact_integral(series[ii][r_], q,
                                                             axes[ii]["dir"], wc)])
        for i in S:
            kinds[i] = ivec_factory(i)
        vv = vecs(kinds)
        for i, b in bfac.items():
            vv[i] = vv[i] * b[None, :]
        want = R.outer_sum(vv)
        want = np.squeeze(want, axis=tuple(S))
        ampi = amp_in * float(np.prod([R.amp(specs[i][1]) * math.pi * 2.0 for i in S])) \
            * float(np.prod([3.0 for _ in bfac]))
        tol = K * EPS * multi({i: g_int(ns[i]) + g_cb(ns[i], 1.0) for i in S}) * ampi
        p = mk()
        iw = f"integrate(axis={axarg}, weight{w.shape}; classes " \
             f"{ {i: specs[i][0] for i in S} }) {what}"
        w0 = np.array(w)
        ok, res = J.call("integrate", lambda: p.integrate(axarg, w), iw)
        if ok:
            J.cmp("operand_preserved", "integrate-modifies-callers-weight", w, w0, 0.0,
                  f"the weight array handed to integrate was modified {iw}")
            if not rest:
                J.meta("integrate-return-type-nd", isinstance(res, float),
                       f"integration over all axes must return a float, got "
                       f"{type(res).__name__} {iw}")
                J.cmp("integrate", "integrate-nd", res, want, tol, iw)
            else:
                wb = tuple(basis0[i] for i in rest)
                wd = tuple(direction[i] for i in rest)
                we = tuple(endpoints[i] for i in rest)
                good = isinstance(res, Polynomial) and tuple(res.basis) == wb and \
                    tuple(res.direction) == wd and tuple(res.endpoints) == we
                J.meta("integrate-metadata-nd", good,
                       f"integrate(axis={axarg}) must keep the remaining axes' labels "
                       f"{wb}/{wd}/{we}: got {getattr(res, 'basis', None)}/"
                       f"{getattr(res, 'direction', None)}/{getattr(res, 'endpoints', None)} {iw}")
                if isinstance(res, Polynomial):
                    J.cmp("integrate", "integrate-nd", res.coefficients, want, tol, iw)
            # in-place basis change must not alter the represented function
            wbasis = tuple("Cardinal" if i in S else basis0[i] for i in range(rank))
            J.meta("integrate-label-nd", tuple(p.basis) == wbasis,
                   f"after integrate(axis={axarg}) the object is labelled {p.basis}, "
                   f"expected {wbasis} {iw}")
            Tc = R.outer_sum(vecs(repvec({i: wbasis[i] for i in P_axes})))
            tol_c = K * EPS * multi({i: g_cb(ns[i], conds[i]) for i in S}) * amp_in
            J.cmp("integrate_inplace", "integrate-alters-function-nd", p.coefficients, Tc,
                  tol_c, f"object after integrate() must represent the same polynomial {iw}")
            preserved("integrate", p, iw, wbasis, tol_c,
                      again=(lambda o: o.integrate(axarg, w), res, tol))
        # trivial weight in every accepted spelling: equals an explicit array of ones and
        # leaves the operand intact
        forms = [("omitted", lambda o: o.integrate(axarg)),
                 ("None", lambda o: o.integrate(axarg, None)),
                 ("1", lambda o: o.integrate(axarg, 1)),
                 ("1.0", lambda o: o.integrate(axis=axarg, weight=1.0))]
        fname, ffn = forms[int(rng.integers(0, len(forms)))]
        pa, pb = mk(), mk()
        fw = f"integrate(axis={axarg}, weight {fname}) {what}"
        tol_t = K * EPS * multi({i: g_int(ns[i]) + g_cb(ns[i], 1.0) for i in S}) * amp_in \
            * math.pi ** len(S)
        ok, r1 = J.call("integrate", lambda: ffn(pa), fw)
        ok2, r2 = J.call("integrate", lambda: pb.integrate(axarg, np.ones(shape)), fw + " ones")
        if ok and ok2:
            c1 = r1.coefficients if isinstance(r1, Polynomial) else r1
            c2 = r2.coefficients if isinstance(r2, Polynomial) else r2
            J.cmp("integrate", "integrate-default-weight-nd", c1, c2, tol_t,
                  f"trivial weight vs explicit array of ones {fw}")
        if ok:
            wbasis = tuple("Cardinal" if i in S else basis0[i] for i in range(rank))
            preserved("integrate", pa, fw, wbasis,
                      K * EPS * multi({i: g_cb(ns[i], conds[i]) for i in S}) * amp_in,
                      again=(ffn, r1, tol_t))

    # ---- (e) independence along axes and (f) linearity, on full random arrays
    shape = T0.shape
    Z1 = rng.normal(size=shape)
    Z2 = rng.normal(size=shape)
    al, be = float(rng.integers(-3, 4)) + 0.5, float(rng.uniform(-2, 2))
    i = P_axes[int(rng.integers(0, len(P_axes)))]
    a = axes[i]
    n_i = ns[i]
    b_i = basis0[i]
    b_o = "Chebyshev" if b_i == "Cardinal" else "Cardinal"
    tgt = tuple(b_o if j == i else basis0[j] for j in range(rank))
    xs = rng.uniform(-1, 1, size=(1, 3))
    wq = rng.integers(-2, 3, size=3).astype(float)
    wsh = [1] * rank
    wsh[i] = shape[i]
    w_i = R.weight_values(wq, real_nodes[i], a["dir"], "sqrt").reshape(wsh)
    Zmax = float(max(np.max(np.abs(Z1)), np.max(np.abs(Z2)), 1.0))
    ampZ = 2.0 * shape[i] * Zmax * (abs(al) + abs(be) + 1.0)

    def ops_on(arr, rank1=False):
        """the four operations along axis i only, on the real code"""
        if rank1:
            mkp = lambda: Polynomial(np.array(arr, dtype=float), grid, (b_i,), (a["dir"],),
                                     (a["ep"],))
            ax, tg, ww = 0, (b_o,), w_i.reshape(-1)
        else:
            mkp = lambda: mk(arr)
            ax, tg, ww = i, tgt, w_i
        out = {}
        q_ = mkp()
        q_.changeBasis(tg)
        out["changeBasis"] = np.array(q_.coefficients)
        out["derivative"] = np.array(mkp().derivative(ax).coefficients)
        out["evaluate"] = np.array(mkp().evaluate(xs, (ax,)))
        r_ = mkp().integrate(ax, ww)
        out["integrate"] = np.array(r_.coefficients if isinstance(r_, Polynomial) else r_)
        return out

    gops = {"changeBasis": g_cb(n_i, conds[i]) * (n_i + 1.0), "derivative": g_der(n_i),
            "evaluate": g_eval(n_i) * (n_i + 1.0),
            "integrate": (g_int(n_i) + g_cb(n_i, 1.0)) * (n_i + 1.0) * 3.0 * math.pi * 3.0}
    ok, full1 = J.call("axis-ops", lambda: ops_on(Z1), what + f" random array, axis {i}")
    ok2, full2 = J.call("axis-ops", lambda: ops_on(Z2), what + f" random array, axis {i}")
    ok3, fullc = J.call("axis-ops", lambda: ops_on(al * Z1 + be * Z2), what)
    if ok and ok2 and ok3:
        for op in ("changeBasis", "derivative", "evaluate", "integrate"):
            tol = K * EPS * gops[op] * ampZ
            J.cmp("linearity", f"linearity-{op}", fullc[op], al * full1[op] + be * full2[op],
                  tol, f"{op}(a*P+b*Q) vs a*{op}(P)+b*{op}(Q) along axis {i} {what}")
        # fibre by fibre
        others = [range(shape[j]) for j in range(rank) if j != i]
        allidx = list(itertools.product(*others))
        pick = [allidx[int(v)] for v in rng.permutation(len(allidx))[:4]]
        for idx in pick:
            sl = list(idx)
            sl.insert(i, slice(None))
            fib = Z1[tuple(sl)]
            okf, one = J.call("axis-ops-rank1", lambda: ops_on(fib, rank1=True), what)
            if not okf:
                break
            for op in ("changeBasis", "derivative", "evaluate", "integrate"):
                tol = K * EPS * gops[op] * ampZ
                if op == "evaluate":
                    got = full1[op][(slice(None),) + tuple(idx)] if full1[op].ndim == rank \
                        else full1[op]
                elif op == "integrate":
                    got = full1[op][tuple(idx)] if rank > 1 else full1[op]
                else:
                    got = full1[op][tuple(sl)]
                J.cmp("axis_independence", f"axis-independence-{op}", got, one[op], tol,
                      f"{op} along axis {i} of the rank-{rank} array, fibre {idx}, vs the "
                      f"same operation on that fibre alone {what}")
    return J, gname, obs, layout


# --------------------------------------------------------------------------- run_case
def run_case(case):
    _hook_reset()
    if case["kind"] == "1d":
        J, gname, obs = _case_1d(case)
        n = R.size_n(case["dir"], case["M"], case["N"])
        key = f"1d:{case['dir']}:{int(case['ep'])}:{n}:{case['deg']}"
        cls = [f"1d:{case['dir']}:{'ep' if case['ep'] else 'in'}",
               "Nodd" if case["N"] % 2 else "Neven", f"n:{min(n, 13) if n <= 12 else '13+'}",
               gname]
    else:
        J, gname, obs, layout = _case_nd(case)
        key = f"nd:{case['M']}:{case['N']}:{layout}:{case['s'] % 11}"
        cls = [f"nd:rank{len(case['axes'])}", "Nodd" if case["N"] % 2 else "Neven", gname]
        if any(a["t"] == "A" for a in case["axes"]):
            cls.append("nd:mixed-array")
        for a in case["axes"]:
            if a["t"] == "P":
                cls.append(f"nd:{a['dir']}:{'ep' if a['ep'] else 'in'}:{a['basis'][:4]}")
        cls = sorted(set(cls))
    mon = collections.Counter(J.mon)
    mon.update(_H["mon"])
    viol = list(J.viol)
    seen = set()
    for v in _H["viol"]:                     # one per mechanism and case is enough
        if v["mech"] not in seen:
            seen.add(v["mech"])
            v = dict(v)
            v["data"] = dict(v["data"], **J.ctx)
            v["msg"] += f" [{J.ctx}]"
            viol.append(v)
    ratio = dict(J.ratio)
    ratio.update(_H["ratio"])
    obs = dict(obs)
    obs["ratio"] = {k: float(f"{v:.3g}") for k, v in ratio.items()}
    obs["branches"] = sorted(_H["branch"])
    if J.skipped:
        obs["skipped"] = dict(J.skipped)
    judged = sum(v for k, v in J.mon.items() if k != "metadata")
    inconc = None
    if _H["mon"].get("hook_error"):
        inconc = "hook oracle failed: " + str(_H.get("viol_hook_error"))
    return {"key": key, "cls": cls, "nontrivial": judged > 0, "obs": obs, "viol": viol,
            "inconclusive": inconc, "mon": dict(mon)}


# -------------------------------------------------------------------------- summarize
def summarize(results, tier):
    per = collections.defaultdict(list)
    branches = set()
    skipped = collections.Counter()
    sizes = collections.defaultdict(set)
    for r in results:
        o = r.get("obs") or {}
        for k, v in (o.get("ratio") or {}).items():
            if isinstance(v, (int, float)):
                per[k].append(float(v))
            else:
                per[k].append(math.inf)
        branches.update(o.get("branches") or [])
        for k, v in (o.get("skipped") or {}).items():
            skipped[k] += v
        c = r.get("case") or {}
        if c.get("kind") == "1d":
            sizes[f"{c['dir']}:{'ep' if c['ep'] else 'in'}"].add(
                R.size_n(c["dir"], c["M"], c["N"]))
    rr = {}
    for k, v in per.items():
        a = np.array(v)
        rr[k] = {"n_cases": int(a.size), "max": float(np.max(a)),
                 "p99": float(np.percentile(a, 99)), "median": float(np.median(a))}
    return {
        "residual_ratio": {"_meaning": "per case: max over that case's comparisons of "
                           "|err| / tol, tol = K*eps*g(n)*A with K=%g; must stay < 1" % K,
                           **rr},
        "basis_function_branches_seen": sorted(branches),
        "integration_skipped_empty_exactness_class": dict(skipped),
        "sizes_n_enumerated_1d": {k: sorted(v) for k, v in sorted(sizes.items())},
        "enumerated_exhaustively": "1d: every n=size of the direction in the listed sets x "
                                   "every admissible degree x both bases x with/without "
                                   "endpoints; polynomials themselves are random draws",
    }
