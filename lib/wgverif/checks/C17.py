"""C17 — grid coordinate maps are monotone bijections with consistent Jacobians.

Monitor shape: a class-invariant wrapper (wgverif.oracles.c17_monitor) is installed on the
*real* WallGo.Grid / Grid3Scales after ``__init__``, ``changePositionFalloffScale`` and
``changeMomentumFalloffScale``.  The workload constructs real grids and applies random
histories of rescale calls to one object (direct calls, calls through the real
``EOM._updateGrid`` body, and calls that the grid must reject); after every call the
invariant is evaluated on the object as the code left it:

  clause of the property                           oracle
  -----------------------------------------------  ------------------------------------------
  strictly increasing in each direction            exact on the cached arrays; Jacobian > 0;
                                                   between probe points via the quadrature
  compact origin -> wall centre                    exact equality with the centre *passed in*
  reported Jacobian = derivative of the map        (a) 40-digit mpmath five-term map (validated
                                                   against the real map point by point), its
                                                   mp.diff and the documented f/(1-chi^2);
                                                   (b) model-free: map(b)-map(a) = quadrature
                                                   of the reported Jacobian on [a,b]
  inverse map undoes it                            both round trips, three directions
  three-scale slope at the centre = L/r            reported J(0) vs L/r from the call arguments
  rescaling == constructing anew                   bit-equality of every cached array, every
                                                   scalar attribute and of the methods on probe
                                                   points with a grid constructed from the
                                                   *shadow* record of the call arguments

Tolerances are forward rounding bounds evaluated for the very point (c17_model), times
K=4; exact clauses use equality.  Observed residual/tolerance ratios are written to the
evidence (summarize) so that the calibration can be audited.
"""
from __future__ import annotations

import math
import types

import numpy as np

from wgverif import env  # noqa: F401

PROPERTY = "C17"
RULE = ("one case = one real grid object (Grid3Scales 70 %, Grid 30 %; Spectral/Uniform "
        "50/50; M in 3..100, N in 3..41) with log-uniform scales over four decades (L, T in "
        "1e-2..1e2; tails from 1e-4 above their lower bound L(1/2+s)/r up to 1e3 L; r in "
        "(0.05,0.95); smoothing in (1e-3,0.9); centre in +-10 L or 0) and a history of 0..6 "
        "(quick) / 0..20 (thorough) calls drawn from: changePositionFalloffScale with fresh "
        "or jittered scales, changeMomentumFalloffScale, the real EOM._updateGrid body "
        "driving the grid (tails 1.05 s above the bound, gamma-scaled mean free path), and "
        "calls the grid must reject.  The invariant is evaluated after every call.  A case "
        "is non-trivial when at least one accepted construction was judged; distinct by "
        "(class, spacing, M, N, decade of L, r, decade of s, tail regimes, history "
        "signature).")
ASSUMPTIONS = [
    "the maps are judged on the open compact intervals, probes down to 1-|chi| = 1e-5; the "
    "endpoints chi=+-1 (points at infinity, dropped by the solver) are recorded, not judged",
    "float64 evaluation error of the closed forms is admitted up to 4x a first-order forward "
    "rounding bound computed for each point; loss of accuracy of Grid3Scales.decompactify "
    "for small aIn/aOut (observed up to 1e-6 relative) is therefore reported in the evidence, "
    "not as a violation",
    "a rescale call that raises is required to leave the grid as it was",
    "EOM._updateGrid is executed as the unbound real function on a stand-in object that "
    "carries only grid, meanFreePathScale and includeOffEq (everything the body reads)",
]
CASE_TIMEOUT = 300
CHUNK = 5
EXHAUSTIVE = {"quick": False, "thorough": False}
NCASES = {"quick": 420, "thorough": 5000}
MAXHIST = {"quick": 6, "thorough": 20}
MAXFULL = {"quick": 8, "thorough": 5}       # events per case judged with the mp/quadrature oracles
FLOORS = {
    # calibrated on seeds 0-4 (unchanged tree and tree with the two proposed fixes): each
    # floor is ~0.6 x the smallest count seen; class counts are cases carrying the label
    "quick": {"distinct_nontrivial": 300,
              "mon": {"invariant_evaluations": 1200, "fresh_equivalence": 1000,
                      "monotone_arrays": 3000, "origin_checks": 1000, "cache_checks": 1000,
                      "centre_slope": 600, "oracle_selfcheck": 900,
                      "jacobian_mp_points": 50000, "jacobian_mpdiff_points": 2500,
                      "ftc_intervals": 50000, "round_trip_points": 80000,
                      "rejected_calls": 60},
              "cls": {"g3": 200, "g1": 70, "Uniform": 120, "Spectral": 120,
                      "event:eom": 60, "event:pos": 170, "event:mom": 120,
                      "event:rejected": 50, "tail-near-bound": 90, "tail-long": 60,
                      "a-small": 25, "a-large": 60, "smoothing-small": 45,
                      "centre-far": 60, "hist:4+": 90, "hist:0": 30}},
    "thorough": {"distinct_nontrivial": 5000,
                 "mon": {"invariant_evaluations": 40000, "fresh_equivalence": 36000,
                         "monotone_arrays": 100000, "origin_checks": 36000,
                         "cache_checks": 36000, "centre_slope": 10000,
                         "oracle_selfcheck": 14000, "jacobian_mp_points": 700000,
                         "jacobian_mpdiff_points": 40000, "ftc_intervals": 700000,
                         "round_trip_points": 1000000, "rejected_calls": 3000},
                 "cls": {"g3": 3000, "g1": 1000, "Uniform": 1800, "Spectral": 1800,
                         "event:eom": 1500, "event:pos": 2500, "event:mom": 2500,
                         "event:rejected": 1500, "tail-near-bound": 1500, "tail-long": 1200,
                         "a-small": 400, "a-large": 900, "smoothing-small": 700,
                         "centre-far": 900, "hist:4+": 2000, "hist:0": 300}},
}


def worker_init():
    env.import_wallgo()
    from wgverif.oracles import c17_monitor
    c17_monitor.install()


# --------------------------------------------------------------------------- generator
def _lower_bound(L, s, r):
    # same float expression as the admissibility assertion of Grid3Scales
    return L * (1 / 2 + s) / r


def _tail(rng, L, s, r, regime=None):
    lb = _lower_bound(L, s, r)
    top = max(1e3 * L / lb - 1.0, 2.0)
    regime = regime or rng.choice(["near", "mid", "long", "any"], p=[0.3, 0.2, 0.2, 0.3])
    if regime == "near":
        ex = 10 ** rng.uniform(-4, -2)
    elif regime == "mid":
        ex = 10 ** rng.uniform(-2, 0.5)
    elif regime == "long":
        ex = 10 ** rng.uniform(math.log10(top) - 1, math.log10(top))
    else:
        ex = 10 ** rng.uniform(-4, math.log10(top))
    t = float(lb * (1.0 + ex))
    while not t > lb:
        t = float(np.nextafter(t, math.inf))
    return t


def _centre(rng, L):
    u = rng.random()
    if u < 0.15:
        return 0.0
    if u < 0.25:
        return float(rng.choice([-1, 1]) * L * 10 ** rng.uniform(-6, -2))
    return float(rng.uniform(-10, 10) * L)


def _scale(rng):
    return float(10 ** rng.uniform(-2, 2))


def _history(rng, kind, p0, nmax):
    n = int(rng.choice([0, 1, 2, 3, 4, 5, 6][:nmax + 1])) if nmax <= 6 else \
        int(rng.choice([0, 1, 2, 3, 5, 8, 12, 16, 20]))
    hist = []
    L = p0["wallThickness"] if kind == "g3" else p0["positionFalloff"]
    # current scales, as far as the generator knows them (None after an 'eom' op, which
    # computes its own): needed for rescales *close to the current values*
    cur = None
    if kind == "g3":
        cur = {"tIn": p0["tailLengthInside"], "tOut": p0["tailLengthOutside"],
               "L": p0["wallThickness"], "c": p0["wallCenter"]}
    curT = p0["momentumFalloffT"]

    def tiny():
        return float(rng.choice([0.0, 10 ** rng.uniform(-13, -4)]))

    for _ in range(n):
        u = rng.random()
        if u < 0.10 and kind == "g3" and cur is not None:
            # near-identity rescale (a solver iteration that has almost converged): every
            # scale changes by a relative 0..1e-4, the centre by a fraction of the
            # *thickness* (it may be far from the origin).  Admissible by construction:
            # thickness shrinks, tails grow.
            Ln = cur["L"] * (1 - tiny())
            cn = cur["c"] + cur["L"] * float(rng.choice([-1, 1])) * 10 ** rng.uniform(-6, -1)
            cur = {"tIn": cur["tIn"] * (1 + tiny()), "tOut": cur["tOut"] * (1 + tiny()),
                   "L": Ln, "c": float(cn)}
            L = Ln
            hist.append({"op": "pos3", **cur, "kw": bool(rng.random() < 0.3), "near": True})
            continue
        if u < 0.14 and kind == "g3":
            # thin wall far from the origin, then moved by a few per cent of its thickness
            Lf = _scale(rng)
            s_, r_ = p0["smoothing"], p0["ratioPointsWall"]
            cf = float(rng.choice([-1, 1]) * Lf * 10 ** rng.uniform(1, 4))
            cur = {"tIn": _tail(rng, Lf, s_, r_), "tOut": _tail(rng, Lf, s_, r_), "L": Lf,
                   "c": cf}
            L = Lf
            hist.append({"op": "pos3", **cur, "kw": False, "far": True})
            continue
        if u < 0.28:
            Tn_ = _scale(rng) if rng.random() < 0.7 else float(curT * (1 + tiny()))
            curT = Tn_
            hist.append({"op": "mom", "T": Tn_, "kw": bool(rng.random() < 0.3)})
        elif kind == "g1":
            L = _scale(rng) if rng.random() < 0.5 else float(L * 10 ** rng.uniform(-0.5, 0.5))
            hist.append({"op": "pos1", "L": L, "kw": bool(rng.random() < 0.3)})
        elif u < 0.70:
            L = _scale(rng) if rng.random() < 0.5 else float(L * 10 ** rng.uniform(-0.5, 0.5))
            s, r = p0["smoothing"], p0["ratioPointsWall"]
            cur = {"tIn": _tail(rng, L, s, r), "tOut": _tail(rng, L, s, r), "L": L,
                   "c": _centre(rng, L)}
            hist.append({"op": "pos3", **cur, "kw": bool(rng.random() < 0.3)})
        elif u < 0.88:
            # the real EOM._updateGrid body computes thickness, centre and tails itself;
            # widths/offsets/velocity/mean free path are drawn so that the tails it will
            # ask for stay within the quantified domain (<= 1e3 L): gamma * mfp <= 1e3 L
            nf = int(rng.integers(1, 4))
            w = (10 ** rng.uniform(-1.5, 1.5)) * 10 ** rng.uniform(-0.3, 0.3, nf)
            off = np.concatenate([[0.0], rng.uniform(-2, 2, nf - 1)])
            Lg = float((np.max((1 - off) * w) - np.min((-1 - off) * w)) / 2)
            v = float(rng.choice([rng.uniform(0.01, 0.7), 1 - 10 ** rng.uniform(-3, -0.5)]))
            gam = 1 / math.sqrt(1 - v * v)
            hist.append({"op": "eom", "widths": w.tolist(), "offsets": off.tolist(), "v": v,
                         "mfp": float(Lg * 10 ** rng.uniform(-1, math.log10(1e3 / gam))),
                         "offEq": bool(rng.random() < 0.6)})
            L = Lg
            cur = None
        else:
            s, r = p0["smoothing"], p0["ratioPointsWall"]
            Lb = _scale(rng)
            lb = _lower_bound(Lb, s, r)
            which = int(rng.integers(0, 3))
            good = _tail(rng, Lb, s, r)
            bad = float(lb * (1 - 10 ** rng.uniform(-6, -0.3)))
            if which == 0:
                hist.append({"op": "bad3", "tIn": bad, "tOut": good, "L": Lb, "c": 0.0})
            elif which == 1:
                hist.append({"op": "bad3", "tIn": good, "tOut": bad, "L": Lb, "c": 0.0})
            else:
                hist.append({"op": "bad3", "tIn": good, "tOut": good,
                             "L": float(-Lb if rng.random() < 0.5 else 0.0), "c": 0.0})
    return hist


def generate(tier, seed):
    rng = np.random.default_rng(1700 + seed)
    cases = []
    for i in range(NCASES[tier]):
        kind = "g3" if rng.random() < 0.7 else "g1"
        spacing = "Spectral" if rng.random() < 0.5 else "Uniform"
        M = int(rng.choice([rng.integers(3, 12), rng.integers(12, 45), rng.integers(45, 101)],
                           p=[0.25, 0.5, 0.25]))
        N = int(rng.choice([rng.integers(3, 8), 2 * rng.integers(2, 10) + 1, rng.integers(8, 42)]))
        if kind == "g3":
            L = _scale(rng)
            r = float(rng.uniform(0.05, 0.95))
            s = float(10 ** rng.uniform(-3, math.log10(0.9)))
            if rng.random() < 0.15:          # the shipped defaults
                r, s = 0.5, 0.1
            reg = None
            if rng.random() < 0.15:          # symmetric tails as built by WallGoManager
                t = _tail(rng, L, s, r)
                tin, tout = t, t
            else:
                tin, tout = _tail(rng, L, s, r, reg), _tail(rng, L, s, r, reg)
            p0 = {"M": M, "N": N, "tailLengthInside": tin, "tailLengthOutside": tout,
                  "wallThickness": L, "momentumFalloffT": _scale(rng), "ratioPointsWall": r,
                  "smoothing": s, "wallCenter": _centre(rng, L), "spacing": spacing}
        else:
            p0 = {"M": M, "N": N, "positionFalloff": _scale(rng),
                  "momentumFalloffT": _scale(rng), "spacing": spacing}
        cases.append({"i": i, "kind": kind, "p0": p0,
                      "defaults": bool(rng.random() < 0.2),
                      "hist": _history(rng, kind, p0, MAXHIST[tier]),
                      "maxfull": MAXFULL[tier], "s": int(rng.integers(1 << 30))})
    return cases


# ------------------------------------------------------------------------------ driver
def _bucket(x, w=1.0):
    return int(math.floor(math.log10(abs(x)) / w)) if x else -99


def _regimes(sh, g):
    out = set()
    if sh["cls"] != "Grid3Scales":
        return out
    L, s, r = sh["wallThickness"], sh["smoothing"], sh["ratioPointsWall"]
    lb = _lower_bound(L, s, r)
    for t in (sh["tailLengthInside"], sh["tailLengthOutside"]):
        ex = t / lb - 1
        if ex < 1e-2:
            out.add("tail-near-bound")
        if t > 30 * L:
            out.add("tail-long")
    if min(float(g.aIn), float(g.aOut)) < 1e-2:
        out.add("a-small")
    if max(float(g.aIn), float(g.aOut)) > 10:
        out.add("a-large")
    if s < 1e-2:
        out.add("smoothing-small")
    if s > 0.5:
        out.add("smoothing-large")
    if abs(sh["wallCenter"]) > 3 * L:
        out.add("centre-far")
    if sh["wallCenter"] == 0:
        out.add("centre-zero")
    if sh["tailLengthInside"] != sh["tailLengthOutside"]:
        out.add("tails-asymmetric")
    return out


def run_case(case):
    from wgverif.oracles import c17_monitor as mon
    Grid, Grid3Scales = mon.install()
    from WallGo.equationOfMotion import EOM
    from WallGo.containers import WallParams

    rng = np.random.default_rng(case["s"])
    nev = 1 + len(case["hist"])
    full = set(range(nev))
    if nev > case["maxfull"]:
        full = {0, nev - 1} | set(int(v) for v in rng.choice(np.arange(1, nev - 1),
                                                             case["maxfull"] - 2, replace=False))
    ctxs = []
    state = {"k": 0}

    def listener(obj, event, raised):
        k = state["k"]
        lvl = "full" if k in full else "exact"
        c = mon.evaluate(obj, f"#{k} {event}", raised, level=lvl,
                         rng=np.random.default_rng([case["s"], k]))
        c.level = lvl
        ctxs.append(c)

    cls = {case["kind"], case["p0"]["spacing"]}
    p0 = case["p0"]
    events = []
    mon.STATE.listener = listener
    try:
        try:
            if case["kind"] == "g3":
                if case["defaults"] and (p0["ratioPointsWall"], p0["smoothing"]) == (0.5, 0.1) \
                        and p0["wallCenter"] == 0.0 and p0["spacing"] == "Spectral":
                    g = Grid3Scales(p0["M"], p0["N"], p0["tailLengthInside"],
                                    p0["tailLengthOutside"], p0["wallThickness"],
                                    p0["momentumFalloffT"])
                    cls.add("ctor-defaults")
                elif case["defaults"]:
                    g = Grid3Scales(**p0)
                else:
                    g = Grid3Scales(*[p0[k] for k in mon.G3_KEYS])
            else:
                g = Grid(**p0) if case["defaults"] else Grid(*[p0[k] for k in mon.G1_KEYS])
        except AssertionError as exc:
            return {"key": f"rejected-ctor:{case['i']}", "cls": "inadmissible-constructor",
                    "nontrivial": False, "obs": {"raised": repr(exc)[:120]}, "viol": [],
                    "inconclusive": None, "mon": {"rejected_constructions": 1}}
        events.append("init")
        for h in case["hist"]:
            state["k"] += 1
            op = h["op"]
            try:
                if op == "mom":
                    g.changeMomentumFalloffScale(newScale=h["T"]) if h["kw"] else \
                        g.changeMomentumFalloffScale(h["T"])
                elif op == "pos1":
                    g.changePositionFalloffScale(newScale=h["L"]) if h["kw"] else \
                        g.changePositionFalloffScale(h["L"])
                elif op in ("pos3", "bad3"):
                    if h.get("kw"):
                        g.changePositionFalloffScale(wallCenter=h["c"], wallThickness=h["L"],
                                                     tailLengthOutside=h["tOut"],
                                                     tailLengthInside=h["tIn"])
                    else:
                        g.changePositionFalloffScale(h["tIn"], h["tOut"], h["L"], h["c"])
                elif op == "eom":
                    stub = types.SimpleNamespace(grid=g, meanFreePathScale=h["mfp"],
                                                 includeOffEq=h["offEq"])
                    EOM._updateGrid(stub, WallParams(widths=np.array(h["widths"]),
                                                     offsets=np.array(h["offsets"])), h["v"])
                events.append(op)
                if op == "bad3":
                    cls.add("rejected-call-was-accepted")
            except AssertionError:
                events.append(op + ":raised")
    finally:
        mon.STATE.listener = None

    # the listener must have seen every call (monitor liveness)
    viol, monc, ratios, obs = [], {}, {}, {}
    seen = {}
    for c in ctxs:
        for k, v in c.mon.items():
            monc[k] = monc.get(k, 0) + v
        for k, v in c.ratio.items():
            ratios[k] = max(ratios.get(k, 0.0), v)
        for v in c.viol:
            if v["mech"] in seen:
                seen[v["mech"]]["data"]["events_violating"] += 1
            else:
                v["data"]["events_violating"] = 1
                seen[v["mech"]] = v
                viol.append(v)
        for k in ("map_rel_err", "map_rel_err_grid", "jac_rel_err", "centre_slope_rel",
                  "ftc_rel_mismatch"):
            if k in c.obs:
                obs[k] = max(obs.get(k, 0.0), c.obs[k])
        if "endpoints" in c.obs:
            obs["endpoints_-1_+1(z,z,pz,pz,pp)"] = c.obs["endpoints"]
        if "model_mismatch" in c.obs:
            obs.setdefault("model_mismatch", c.obs["model_mismatch"])
        if c.raised is None and c.sh is not None:
            cls |= _regimes(c.sh, c.g)
    inconclusive = None
    if len(ctxs) != nev:
        inconclusive = f"monitor saw {len(ctxs)} of {nev} calls"
    for e in events[1:]:
        base = e.split(":")[0]
        cls.add({"mom": "event:mom", "pos1": "event:pos", "pos3": "event:pos",
                 "eom": "event:eom", "bad3": "event:rejected"}[base])
    nh = len(case["hist"])
    cls.add("hist:0" if nh == 0 else ("hist:1-3" if nh <= 3 else "hist:4+"))
    sh = g.__dict__.get(mon.SHADOW, {})
    obs.update({"events": events, "ratios": {k: float(f"{v:.3g}") for k, v in ratios.items()},
                "final_params": {k: v for k, v in sh.items()},
                "full_events": sorted(full)})
    if case["kind"] == "g3":
        obs["aIn_aOut"] = [float(g.aIn), float(g.aOut)]
        Lk = p0["wallThickness"]
        key = (f"g3:{p0['spacing'][0]}:{p0['M']}:{p0['N']}:{_bucket(Lk)}:"
               f"{p0['ratioPointsWall']:.2f}:{_bucket(p0['smoothing'], 0.5)}:"
               f"{_bucket(p0['tailLengthInside'] / Lk, 0.5)}:{_bucket(p0['tailLengthOutside'] / Lk, 0.5)}:"
               + ",".join(e[:2] for e in events[1:]))
    else:
        key = (f"g1:{p0['spacing'][0]}:{p0['M']}:{p0['N']}:{_bucket(p0['positionFalloff'], 0.25)}:"
               f"{_bucket(p0['momentumFalloffT'], 0.25)}:" + ",".join(e[:2] for e in events[1:]))
    return {"key": key, "cls": sorted(cls), "nontrivial": monc.get("fresh_equivalence", 0) > 0,
            "obs": obs, "viol": viol, "inconclusive": inconclusive, "mon": monc}


# ---------------------------------------------------------------------------- evidence
def summarize(results, tier):
    import collections
    by = collections.defaultdict(list)
    relerr, jacerr, cslope, relgrid, ftcrel = [], [], [], [], []
    mism = 0
    mech = collections.Counter()
    worst_case = {}
    for r in results:
        o = r.get("obs") or {}
        for k, v in (o.get("ratios") or {}).items():
            v = float("inf") if v in ("inf", "nan") else float(v)
            by[k].append(v)
            if v >= worst_case.get(k, (0, None))[0]:
                worst_case[k] = (v, r["case"].get("i"))
        if "map_rel_err" in o:
            relerr.append(o["map_rel_err"])
        if "jac_rel_err" in o:
            jacerr.append(o["jac_rel_err"])
        if "map_rel_err_grid" in o:
            relgrid.append(o["map_rel_err_grid"])
        if "ftc_rel_mismatch" in o:
            ftcrel.append(o["ftc_rel_mismatch"])
        if "centre_slope_rel" in o:
            cslope.append(o["centre_slope_rel"])
        if "model_mismatch" in o:
            mism += 1
        for v in r.get("viol", []):
            mech[v["mech"]] += 1

    def stats(a):
        a = np.asarray([x for x in a if isinstance(x, (int, float))], dtype=float)
        if a.size == 0:
            return None
        return {"n": int(a.size), "median": float(np.median(a)),
                "p99": float(np.percentile(a, 99)), "max": float(np.max(a))}

    return {
        "residual_over_tolerance": {k: dict(stats(v), worst_case=worst_case[k][1])
                                    for k, v in sorted(by.items())},
        "real_map_relative_error_vs_40digit_reference": stats(relerr),
        "real_map_relative_error_at_grid_points": stats(relgrid),
        "map_difference_vs_integrated_jacobian_relative": stats(ftcrel),
        "note_map_accuracy": "errors are relative to max(|z - centre|, L); they come from "
                             "cancellation in decompactify for small aIn/aOut / long tails and "
                             "are within the forward rounding bound, hence not violations",
        "reported_jacobian_relative_error_vs_reference": stats(jacerr),
        "centre_slope_relative_deviation": stats(cslope),
        "cases_where_reference_model_did_not_match_real_map": mism,
        "cases_violating_by_mechanism": dict(mech),
        "tolerance_rule": "4 x first-order forward rounding bound evaluated per point "
                          "(c17_model); exact clauses by equality",
    }
