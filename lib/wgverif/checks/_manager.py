"""Harness for workloads that go through the real WallGoManager (C01, C04, C07, C08, C09).

build(spec, settings) registers a zoo model (wgverif.models.potentials) with a fresh
WallGoManager, applies configuration overrides and runs
setupThermodynamicsHydrodynamics().  Out-of-equilibrium runs use synthetic collision
files written on the fly (relaxation-time form, see collisions_dir()).
"""
from __future__ import annotations

import math
import os
import shutil
import tempfile

import numpy as np

from wgverif import env  # noqa: F401
from wgverif.models import potentials as P


def phase_guesses(pot, Tn):
    ph = pot.phases(Tn)
    if ph["high"] is None or ph["low"] is None:
        return None
    return pot.to_code(ph["high"]), pot.to_code(ph["low"])


def apply_config(manager, cfg):
    """cfg: flat dict of overrides, e.g. {"M": 25, "N": 7, "errTol": 1e-3, ...}."""
    c = manager.config
    if "M" in cfg:
        c.configGrid.spatialGridSize = int(cfg["M"])
    if "N" in cfg:
        c.configGrid.momentumGridSize = int(cfg["N"])
    for k in ("errTol", "pressRelErrTol", "maxIterations", "conserveEnergyMomentum",
              "vwMaxDeton", "nbrPointsMinDeton", "nbrPointsMaxDeton"):
        if k in cfg:
            setattr(c.configEOM, k, cfg[k])
    if "hydro_rtol" in cfg:
        c.configHydrodynamics.relativeTol = cfg["hydro_rtol"]
    if "hydro_atol" in cfg:
        c.configHydrodynamics.absoluteTol = cfg["hydro_atol"]
    if "phaseTracerTol" in cfg:
        c.configThermodynamics.phaseTracerTol = cfg["phaseTracerTol"]
    if "thermo_tmin" in cfg:
        c.configThermodynamics.tmin = cfg["thermo_tmin"]
    if "thermo_tmax" in cfg:
        c.configThermodynamics.tmax = cfg["thermo_tmax"]


def particles_for(pot, spec):
    """Out-of-equilibrium particles listed in spec["particles"] as
    [{"coupling": y2/2, "field": i, "statistics": "Fermion", "dofs": 12}, ...]."""
    out = []
    for i, p in enumerate(spec.get("particles", [])):
        out.append(P.make_particle(pot, p.get("name", f"p{i}"), i, p["coupling"], p["field"],
                                   p.get("statistics", "Fermion"), p.get("dofs", 12)))
    return out


def build(spec, cfg=None, setup=True):
    """Returns dict(manager, pot, model, Tn, phaseInfo, scales)."""
    import WallGo
    pot = P.build_potential(spec)
    s = spec.get("s", 1.0)
    Tn = spec["Tn_over_s"] * s
    model = P.ZooModel(pot, particles_for(pot, spec))
    manager = WallGo.WallGoManager()
    manager.setVerbosity(50)
    if cfg:
        apply_config(manager, cfg)
    manager.registerModel(model)
    ph = pot.phases(Tn)
    if ph["high"] is None or ph["low"] is None:
        raise ValueError("phases do not exist at Tn")
    # guesses need not be exact: perturb them by 1 % of the field scale (in physical
    # fields, so that relabelled runs receive the *same* physical guess)
    fs = pot.field_scale(Tn)
    hi = pot.to_code(ph["high"] + 0.01 * fs)
    lo = pot.to_code(ph["low"] - 0.01 * fs)
    phaseInfo = WallGo.PhaseInfo(temperature=Tn,
                                 phaseLocation1=WallGo.Fields(hi),
                                 phaseLocation2=WallGo.Fields(lo))
    Tc = pot.Tc()
    tscale = (Tc - Tn) if np.isfinite(Tc) and Tc > Tn else 0.1 * Tn
    tscale = float(spec.get("tscale_over_s", tscale / s) * s)
    fscale = np.full(pot.fieldCount, fs) if pot.fieldCount > 1 else float(fs)
    if "fscale_over_s" in spec:
        f = np.asarray(spec["fscale_over_s"], dtype=float) * s
        fscale = f if pot.fieldCount > 1 else float(f.ravel()[0])
    scales = WallGo.VeffDerivativeSettings(temperatureVariationScale=tscale,
                                           fieldValueVariationScale=fscale)
    out = {"manager": manager, "pot": pot, "model": model, "Tn": Tn, "phaseInfo": phaseInfo,
           "scales": scales}
    if setup:
        manager.setupThermodynamicsHydrodynamics(phaseInfo, scales)
    return out


def collisions_dir(particle_names, N, kappa=0.3, basis="Cardinal", seed=0, noise=0.0):
    """Write synthetic collision files collisions_<a>_<b>.hdf5 for basis size N:
    a relaxation-time operator  C[a,alpha,beta,b,j,k] = -kappa delta_ab delta_alpha_j
    delta_beta_k (plus optional small dense noise) in the Cardinal basis.
    Returns the directory (caller removes it)."""
    import h5py
    d = tempfile.mkdtemp(prefix="wgcoll_")
    rng = np.random.default_rng(seed)
    n = N - 1
    for a in particle_names:
        for b in particle_names:
            arr = np.zeros((n, n, n, n))
            if a == b:
                for i in range(n):
                    for j in range(n):
                        arr[i, j, i, j] = -kappa
            if noise:
                arr += noise * kappa * rng.standard_normal(arr.shape)
            with h5py.File(os.path.join(d, f"collisions_{a}_{b}.hdf5"), "w") as f:
                md = f.create_group("metadata")
                md.attrs["Basis Size"] = N
                md.attrs["Basis Type"] = basis
                f.create_dataset(f"{a}, {b}", data=arr)
    return d


def wall_settings(cfg):
    import WallGo
    return WallGo.WallSolverSettings(
        bIncludeOffEquilibrium=bool(cfg.get("offEq", False)),
        meanFreePathScale=float(cfg.get("meanFreePathScale", 50.0)),
        wallThicknessGuess=float(cfg.get("wallThicknessGuess", 5.0)))


def results_summary(res):
    """JSON-friendly digest of a WallGoResults."""
    def arr(x):
        return None if x is None else np.asarray(x, dtype=float).tolist()
    out = {"success": bool(res.success), "solutionType": str(res.solutionType),
           "message": res.message, "wallVelocity": res.wallVelocity,
           "wallVelocityLTE": getattr(res, "wallVelocityLTE", None)}
    for k in ("temperaturePlus", "temperatureMinus", "velocityJouguet"):
        out[k] = getattr(res, k, None)
    for k in ("wallWidths", "wallOffsets"):
        out[k] = arr(getattr(res, k, None))
    return out
