"""C12 - Boltzmann solution reflects the physics, not the discretisation choices.

Monitor shape.  The real ``BoltzmannSolver`` is driven directly on ``Grid3Scales`` with
synthetic, non-singular collision arrays.  Harness-side wrappers sit on the class
attributes ``buildLinearEquations``, ``solveBoltzmannEquations`` and ``setBackground``:

* ``solveBoltzmannEquations`` carries a *contract*: the returned deviation must satisfy the
  operator/source that ``buildLinearEquations`` handed out during that very call
  (normwise backward error <= K_BE * n * eps), have the documented shape, and come from
  exactly one assembly.  The wrapper also estimates kappa_1(operator) (LAPACK gecon on an LU
  made by the harness) - that number scales every forward comparison below.
* ``setBackground``: the solver's private copy is the caller's background boosted by the
  relativistic velocity addition; the caller's object is left untouched.
* ``buildLinearEquations``: counted; repeated assembly on an unchanged solver must return
  the same operator (fingerprint).

Oracles (all independent of the code under test):

  (1) homogeneous background  -> source and deviation at rounding level relative to the
      same configuration with a varying background;
  (2) the solve contract above (both derivative modes);
  (3) four basis combinations: deltaF converted to grid values with numpy.polynomial (not
      WallGo's Polynomial), moments / truncation error / linearisation criteria from the real
      getDeltas(); the collision array is moved with its own changeBasis;
  (4) finite-difference vs spectral: source, and Liouville operator applied to a smooth
      test deviation, for M = 20,40,80(,160) per background type: second-order scheme must
      show at least order 2/3 and be below 5e-2 at the finest grid;
  (5) auxiliary: unit rescaling leaves deltaF on the compact grid unchanged; on backgrounds
      that are polynomials in chi the source equals -(Liouville operator)[f_eq] obtained by
      complex-step differentiation of the Bose/Fermi distribution, and operator @ coefficients
      of a polynomial test deviation equals the closed-form L g + T^2 C g;
      EOM.getBoltzmannFiniteDifference (run on a stub holding the solver) equals a directly
      constructed finite-difference solver and leaves the original solver untouched.

  (6) history (kind=hist): the grid object a solver was constructed on is rescaled *in place*
      afterwards (Grid / Grid3Scales changePositionFalloffScale - tails, thickness, centre -
      and changeMomentumFalloffScale; far, near-identity, and sequences of 3-4 rescales with
      a solve in between, which is what the EOM loop does on every iteration).  The solver
      that existed before the rescale then gets the background sampled on the grid as it is
      now and must (a) satisfy the linear system assembled independently
      (oracles.c12_ref.reference_system: own Lobatto differentiation matrices, complex-step
      source) for the ACTUAL grid - whose coordinates and Jacobians are taken from a grid
      constructed from scratch with the same parameters (plain Grid: also the documented
      closed form); (b) agree with an identically configured solver constructed after the
      rescale on the same grid object, and that one with a solver on the from-scratch grid;
      (c) agree, deltaF and all derived quantities, with the Cardinal/Cardinal solver built
      after the rescale (basis independence across the rescale); (d) on polynomial-in-chi
      backgrounds pass the closed-form exactness oracles of (5).  A failure of (a) with a
      clean control is attributed by re-assembling the reference with the Jacobians /
      momenta the grid object had at earlier stages.  Monitors on Grid._cacheCoordinates and
      BoltzmannSolver.__init__ count assemblies that really happened on a grid refreshed
      after the solver's construction (floor: build_on_grid_rescaled_after_construction).

Tolerances are propagated per case (see the K_* constants and their calibration notes).

Deviations from DESIGN section 4-C12 (kept here because DESIGN.md is not mine to edit):
* "condition-number-scaled 1e-9" is realised as K_FWD*eps*kappa_1 for deltaF and, for the
  derived quantities, as that bound times a sensitivity measured on the real getDeltas with
  perturbed deviations (rule 2.3-2); ill-conditioned ratios would be counted, not judged
  (none occurred).
* the homogeneous clause is judged against the rounding model eps*M^2/a at source level
  and kappa_1 times that at deltaF level (instead of a flat 1e-10), in both derivative modes;
* item (5) and the setBackground contract are additions: without them the mutants "T^2
  dropped", "dm^2/dchi sign in the source" and "boost skipped" listed in DESIGN survive,
  because they change every basis and both derivative modes alike;
* violations of (4) are attributed by single-term probes; the mechanism string
  ``fd-velocity-gradient-taken-from-temperature-profile`` is only used when the
  finite-difference source is blind to the velocity gradient *and* agrees with the spectral
  one once the plasma-frame velocity profile is an affine copy of the temperature profile.
"""
from __future__ import annotations

import collections
import copy
import math
import types
import zlib

import numpy as np

from wgverif import env  # noqa: F401
from wgverif.oracles import c12_ref as R

PROPERTY = "C12"
RULE = ("kind=basis: random (M in 10..40, N in {3,5,7}(,11 thorough), 1-3 particles of random "
        "statistics and field-dependent masses, 1-2 fields, tanh background of type "
        "T-only / v-only / field-only / combined with random amplitudes, widths, offsets, "
        "Grid3Scales tails/ratio/smoothing, temperature scale 0.1..300, collision array = "
        "diagonal relaxation rates + dense noise incl. cross-species blocks, generated in the "
        "Cardinal or (via numpy) the Chebyshev basis); each case runs the 4 basis combinations, "
        "a unit-rescaled copy, the homogeneous limit, and EOM.getBoltzmannFiniteDifference. "
        "kind=conv: finite-difference vs spectral series over M for one background type. "
        "kind=phys: polynomial-in-chi backgrounds, exactness of source and operator. "
        "kind=hist: solvers (random basis pair, sometimes also Cardinal/Cardinal and finite "
        "difference; 60 % already solved once) are constructed on a Grid3Scales (2/3) or plain "
        "Grid (1/3), then the grid object is rescaled in place following a plan cycled over "
        "pos / pos-near / mom / mom-near / both / seq (factors 0.4-2.5, near-identity 1+-1e-6.."
        "1e-2, Grid3Scales: tails / thickness / centre / all), background tanh (3/4) or "
        "polynomial (1/4) resampled on the current grid; system size <= 500 quick / 1300. "
        "A case is non-trivial when the reference deviation is non-zero and the operator is "
        "admissibly conditioned (kappa_1 <= 1e8); distinct by (kind, background type, M, N, "
        "particle statistics, number of fields, collision home basis, case seed).")
# (hist cases add grid class, plan and operations through the case seed in the key)
ASSUMPTIONS = [
    "collision operators are synthetic (all shipped .hdf5 are git-LFS pointers): "
    "diagonal relaxation + dense noise, non-singular by construction and checked via kappa_1",
    "backgrounds are tanh walls (or cubic polynomials in chi for the exactness cases); "
    "grid sizes bounded by dense-solve cost (system size <= 1300 quick / 2600 thorough)",
    "grid nodes, d xi/d chi and d p_z/d rho_z are taken from the real Grid3Scales (C17 judges "
    "the grid itself)",
    "finite-difference convergence is judged with a test deviation quadratic in rho_z so that "
    "the 3-point momentum stencil is exact and only the spatial refinement is measured",
    "history cases: the collision kernel is a given dimensionless array on the momentum nodes "
    "and stays the same when the momentum falloff scale of the grid is changed (the shipped "
    "pipeline never changes that scale after loading collisions; the solver treats the array "
    "as an input either way); 'the actual current grid' is represented by a Grid/Grid3Scales "
    "constructed from scratch with the current parameters",
]
CASE_TIMEOUT = 900
CHUNK = 1
EXHAUSTIVE = {"quick": False, "thorough": False}
_HIST_CLS = ("hist:pos", "hist:pos-near", "hist:mom", "hist:mom-near", "hist:both", "hist:seq")
FLOORS = {
    "quick": {"distinct_nontrivial": 140,
              "mon": {"solve_contract": 600, "build_calls": 1400, "setBackground_contract": 600,
                      "basis_pairs_deltaF": 170, "basis_derived_judged": 5000,
                      "homogeneous": 112, "unit_scaling": 56, "eom_fd": 56,
                      "fd_series_points": 42, "source_exact": 28, "operator_exact": 84,
                      # history dimension (observed on seeds 0-4: 74-80 rescales, 190-200
                      # assemblies on a grid refreshed after the solver's construction)
                      "hist_rescale_calls": 60, "hist_grid_state_changed": 60,
                      "hist_grid_vs_fresh_grid": 60,
                      "build_on_grid_rescaled_after_construction": 130,
                      "hist_refsys_judged": 110, "hist_early_vs_fresh": 55,
                      "hist_fresh_grid_solver": 40, "hist_basis_across_rescale": 42,
                      "hist_derived_judged": 8000, "hist_exactness": 8},
              "cls": {"basis:T": 12, "basis:v": 12, "basis:field": 12, "basis:combined": 12,
                      "conv:T": 3, "conv:v": 3, "conv:field": 3, "conv:combined": 3,
                      "phys": 28, "hist": 40, "hist:Grid": 10, "hist:Grid3Scales": 24,
                      "hist:bg:T": 9, "hist:bg:v": 9, "hist:bg:field": 9, "hist:bg:combined": 9,
                      **{c: 6 for c in _HIST_CLS}}},
    "thorough": {"distinct_nontrivial": 900,
                 "mon": {"solve_contract": 3000, "build_calls": 7000,
                         "setBackground_contract": 3000, "basis_pairs_deltaF": 1100,
                         "basis_derived_judged": 20000, "homogeneous": 760,
                         "unit_scaling": 380, "eom_fd": 380, "fd_series_points": 300,
                         "source_exact": 280, "operator_exact": 850,
                         "hist_rescale_calls": 300, "hist_grid_state_changed": 300,
                         "hist_grid_vs_fresh_grid": 300,
                         "build_on_grid_rescaled_after_construction": 650,
                         "hist_refsys_judged": 550, "hist_early_vs_fresh": 275,
                         "hist_fresh_grid_solver": 200, "hist_basis_across_rescale": 210,
                         "hist_derived_judged": 40000, "hist_exactness": 40},
                 "cls": {"basis:T": 90, "basis:v": 90, "basis:field": 90,
                         "basis:combined": 90, "conv:T": 18, "conv:v": 18, "conv:field": 18,
                         "conv:combined": 18, "phys": 280, "hist": 200, "hist:Grid": 50,
                         "hist:Grid3Scales": 120, "hist:bg:T": 45, "hist:bg:v": 45,
                         "hist:bg:field": 45, "hist:bg:combined": 45,
                         **{c: 30 for c in _HIST_CLS}}},
}

EPS = R.EPS
BASES = ("Cardinal", "Chebyshev")
BG_TYPES = ("T", "v", "field", "combined")

# ---------------------------------------------------------------- tolerances (calibration)
# Calibration runs: quick seeds 0-4 and thorough seeds 0-1 on a scratch copy of /repo with the
# one-line F2 repair (the unchanged tree differs only in the finite-difference source).
# Backward error of LU with partial pivoting is ~ eps in practice, <= c*n*eps in the usual
# model.  Observed max of eta/(n*eps) = 0.018.  K_BE = 8 is the textbook model's constant.
K_BE = 8.0
# Forward agreement of two solves of the same problem: <= K_FWD * eps * kappa_1.  Observed
# max of err/(eps*kappa_1) = 0.11 (median 5e-3); 32 leaves ~300x.  The unit rescaling uses
# powers of two, for which the observed difference is exactly 0 in > 99 % of the cases.
K_FWD = 32.0
KAPPA_MAX = 1e8      # above this the collision operator is not "non-singular" in float64
# Derived quantities: tolerance = K_DER * (measured sensitivity to a relative perturbation of
# deltaF) * (deltaF tolerance); sensitivity from structured + random perturbation draws on
# the real getDeltas.  Observed max of |difference|/tolerance = 8e-4 (all seven quantities).
K_DER = 8.0
E_PROBE = 1e-6
# Rounding of (derivative matrix) @ (constant profile): observed max|D 1| <= 1.3*eps*M^2 for
# M <= 40 (3.5 at M = 160).  A homogeneous source is that noise where a varying background
# with relative amplitude a has a*O(1): ratio <= K_HOM*eps*M^2/a (reference = the same
# configuration with all three profiles varying).  Observed max of ratio*a/(eps*M^2) = 0.14
# -> K_HOM = 64 leaves > 400x; deltaF-level ratio observed <= 4.5e-13.
K_HOM = 64.0
# Finite differences: second-order stencils.  Observed on the tree with F2 repaired:
# order 1.92-2.25, finest-grid difference <= 6.5e-3 (M=80) / 1.7e-3 (M=160).
FD_MIN_ORDER = 0.66   # DESIGN: "below 0.4x from M=20 to M=80"
FD_MAX_FINEST = 5e-2  # DESIGN: "below 5e-2 at M=80"
# Exactness on polynomial data: rounding of the spectral derivative relative to the
# derivative itself is eps*M^2/a (see K_HOM); row-wise rounding of operator @ coefficients.
# Observed max of difference/tolerance: source 8e-3, Liouville 7e-2, collision 3e-3.
K_SRC = 64.0
K_OP = 64.0
# Reference system (own Lobatto differentiation matrices + complex-step source, see
# oracles.c12_ref.reference_system) vs the deviation returned by the real solver: normwise
# backward error eta <= K_REF*eps*M^2*(1 + 1/a).  Terms: spectral derivative of a profile of
# relative variation a -> eps*M^2/a (as K_HOM); derivative-matrix entries and the evaluation
# of d f_eq (exp(x) - 2s + exp(-x) cancels for soft bosons) -> a floor that does not shrink
# with a.  Observed on the unchanged tree (kind=hist, quick seeds 0-4 + thorough seeds 0-1,
# 720 cases, every stage of every history): eta <= 1.1e-13 absolute, max of
# eta/(eps*M^2*(1+1/a)) = 0.8, median 2e-3  ->  64 leaves 80x.  A Jacobian that is off by a
# relative delta shows up as eta ~ 0.8*delta, so near-identity rescales down to ~1e-9 are seen.
K_REF = 64.0


def worker_init():
    env.import_wallgo()
    _install_monitors()


# ------------------------------------------------------------------------- monitors
class _Rec:
    def __init__(self):
        self.active = False
        self.events = []
        self.nbuild = 0
        self.last = None
        self.mon = collections.Counter()
        self.fp = {}


REC = _Rec()


def _fingerprint(op, src):
    return (zlib.crc32(np.ascontiguousarray(op).view(np.uint8)),
            zlib.crc32(np.ascontiguousarray(src).view(np.uint8)))


def _state_token(solver):
    # the grid epoch (number of coordinate refreshes of the shared grid object, see
    # _install_monitors) is part of the state: a rescaled grid legitimately changes the
    # assembled system of an otherwise untouched solver
    return (id(solver.background), id(solver.collisionArray), solver.basisM, solver.basisN,
            solver.derivatives, solver.collisionMultiplier, id(solver.offEqParticles),
            solver.collisionArray.getBasisType() if solver.collisionArray is not None else None,
            getattr(solver.grid, "_c12_epoch", None))


def _kappa1(op):
    import scipy.linalg as sla
    lu, _ = sla.lu_factor(op, check_finite=False)
    anorm = float(np.abs(op).sum(axis=0).max())
    rcond = sla.lapack.dgecon(lu, anorm, norm="1")[0]
    return float("inf") if rcond <= 0 else float(1.0 / rcond)


def _judge_solve(solver, df, last, nbuilds):
    ev = {"hook": "solve", "viol": []}
    P = len(solver.offEqParticles)
    M, N = solver.grid.M, solver.grid.N
    want = (P, M - 1, N - 1, N - 1)
    ev["mode"] = solver.derivatives
    if nbuilds != 1 or last is None:
        ev["viol"].append({"mech": "solve-not-from-one-assembly",
                           "msg": f"solveBoltzmannEquations triggered {nbuilds} calls of "
                           "buildLinearEquations (expected exactly 1)", "data": {}})
        return ev
    op, src = last[0], last[1]
    df = np.asarray(df)
    n = int(op.shape[0])
    ev["n"] = n
    if df.shape != want:
        ev["viol"].append({"mech": "solve-shape", "msg": f"deltaF shape {df.shape} != {want}",
                           "data": {}})
        return ev
    x = df.reshape(-1)
    res = op @ x - src
    nrmA = float(np.abs(op).sum(axis=1).max())
    den = nrmA * float(np.abs(x).max()) + float(np.abs(src).max())
    eta = float(np.abs(res).max()) / den if den > 0 else 0.0
    tol = K_BE * n * EPS
    ev.update(eta=eta, tol=tol, src_inf=float(np.abs(src).max()), x_inf=float(np.abs(x).max()),
              opnorm=nrmA)
    if not np.all(np.isfinite(x)) or not (eta <= tol):
        ev["viol"].append({
            "mech": "solve-backward-error",
            "msg": f"returned deltaF does not satisfy the assembled system: backward error "
                   f"{eta:.3e} > {tol:.3e} (n={n}, mode={solver.derivatives}, "
                   f"bases {solver.basisM}/{solver.basisN})",
            "data": {"eta": eta, "tol": tol, "n": n}})
    ev["kappa"] = _kappa1(op)
    return ev


def _judge_setbg(solver, given, snap):
    ev = {"hook": "setBackground", "viol": []}
    v0, T0, F0, vw0, vm0 = snap
    same = (np.array_equal(given.velocityProfile, v0) and np.array_equal(given.temperatureProfile, T0)
            and np.array_equal(np.asarray(given.fieldProfiles), F0)
            and given.velocityWall == vw0 and given.velocityMid == vm0)
    if not same or solver.background is given:
        ev["viol"].append({"mech": "setBackground-alters-caller-background",
                           "msg": "setBackground changed (or aliased) the background object it "
                                  "was given", "data": {}})
        return ev
    b = solver.background
    vexp = R.boost(v0, vm0)
    vwexp = R.boost(vw0, vm0)
    err = float(np.max(np.abs(np.asarray(b.velocityProfile) - vexp)))
    errw = abs(float(b.velocityWall) - float(vwexp))
    ev.update(err=err, errw=errw)
    tol = 8 * EPS
    if not (err <= tol and errw <= tol and np.array_equal(b.temperatureProfile, T0)
            and np.array_equal(np.asarray(b.fieldProfiles), F0)):
        ev["viol"].append({
            "mech": "background-not-boosted-to-plasma-frame",
            "msg": f"solver.background after setBackground: |v - boost(v, vMid)| = {err:.3e}, "
                   f"|vWall - boost(0, vMid)| = {errw:.3e} (vMid = {vm0:.4f}); temperature / "
                   "field profiles must be copied unchanged", "data": {"err": err, "errw": errw}})
    return ev


def _install_monitors():
    from WallGo.boltzmann import BoltzmannSolver as BS
    from WallGo.grid import Grid
    if getattr(BS, "_c12_wrapped", False):
        return
    o_build, o_solve, o_setbg = BS.buildLinearEquations, BS.solveBoltzmannEquations, BS.setBackground
    o_init, o_cache = BS.__init__, Grid._cacheCoordinates

    # history monitors: every refresh of a grid's cached coordinates / Jacobians (constructor
    # and each change*FalloffScale call, Grid3Scales included - it inherits the method)
    # advances an epoch stored on the grid object; a solver remembers the epoch of its grid
    # at construction.  An assembly with grid epoch > construction epoch is the
    # "grid rescaled in place after the solver was built" situation of the EOM loop.
    def _cacheCoordinates(self):
        out = o_cache(self)
        self._c12_epoch = getattr(self, "_c12_epoch", 0) + 1
        return out

    def __init__(self, grid, *a, **k):
        o_init(self, grid, *a, **k)
        self._c12_epoch0 = getattr(grid, "_c12_epoch", None)

    def buildLinearEquations(self):
        out = o_build(self)
        if REC.active:
            REC.nbuild += 1
            REC.last = out
            REC.mon["build_calls"] += 1
            e0, e1 = getattr(self, "_c12_epoch0", None), getattr(self.grid, "_c12_epoch", None)
            if e0 is not None and e1 is not None and e1 > e0:
                REC.mon["build_on_grid_rescaled_after_construction"] += 1
            tok = _state_token(self)
            fp = _fingerprint(out[0], out[1])
            old = REC.fp.get(id(self))
            if old is not None and old[0] == tok and old[1] != fp:
                REC.events.append({"hook": "build", "viol": [{
                    "mech": "assembly-not-repeatable",
                    "msg": "two buildLinearEquations calls on an unchanged solver returned "
                           "different operator/source", "data": {}}]})
            # the solver object is kept alive for the session so that id()s (of it, its
            # background and its collision array) cannot be recycled into a false match
            REC.fp[id(self)] = (tok, fp, self)
            REC.mon["build_repeat_checked"] += int(old is not None and old[0] == tok)
        return out

    def solveBoltzmannEquations(self):
        if not REC.active:
            return o_solve(self)
        n0 = REC.nbuild
        REC.last = None
        df = o_solve(self)
        REC.events.append(_judge_solve(self, df, REC.last, REC.nbuild - n0))
        REC.mon["solve_contract"] += 1
        REC.last = None
        return df

    def setBackground(self, background):
        if not REC.active:
            return o_setbg(self, background)
        snap = (np.array(background.velocityProfile, copy=True),
                np.array(background.temperatureProfile, copy=True),
                np.array(np.asarray(background.fieldProfiles), copy=True),
                background.velocityWall, background.velocityMid)
        out = o_setbg(self, background)
        REC.events.append(_judge_setbg(self, background, snap))
        REC.mon["setBackground_contract"] += 1
        return out

    BS.buildLinearEquations = buildLinearEquations
    BS.solveBoltzmannEquations = solveBoltzmannEquations
    BS.setBackground = setBackground
    BS.__init__ = __init__
    Grid._cacheCoordinates = _cacheCoordinates
    BS._c12_wrapped = True


class _Session:
    """Collects monitor events for one case."""

    def __enter__(self):
        REC.active = True
        REC.events = []
        REC.nbuild = 0
        REC.last = None
        REC.mon = collections.Counter()
        REC.fp = {}
        return self

    def __exit__(self, *a):
        REC.active = False
        REC.last = None
        REC.fp = {}

    @staticmethod
    def drain():
        ev, REC.events = REC.events, []
        return ev


# ------------------------------------------------------------------------- generators
def _gen_bg(rng, bgtype, nf, kind):
    def shape():
        if kind == "tanh":
            return {"w": float(rng.uniform(0.7, 1.5)), "x0": float(rng.uniform(-0.3, 0.3))}
        b = float(rng.uniform(-0.3, 0.3))
        return {"pc": [b, 1.5, -b, -0.5]}

    def amp():
        return float(rng.choice([-1, 1]) * rng.uniform(0.01, 0.08))

    varT = bgtype in ("T", "combined")
    varv = bgtype in ("v", "combined")
    varf = bgtype in ("field", "combined")
    bg = {"kind": kind, "type": bgtype}
    bg["T"] = dict(shape(), a=amp() if varT else 0.0)
    bg["v"] = dict(shape(), v0=float(rng.uniform(-0.8, -0.2)), a=amp() if varv else 0.0)
    if kind == "poly":
        bg["v"]["c0"] = float(rng.uniform(-0.03, 0.03))
    fl = []
    for i in range(nf):
        hi = float(rng.uniform(0.5, 2.0))
        lo = float(rng.choice([0.0, rng.uniform(0.0, 0.4)])) if varf else hi
        if varf and i > 0 and rng.random() < 0.3:
            hi, lo = lo, hi      # second field grows across the wall
        fl.append(dict(shape(), hi=hi, lo=lo))
    bg["fields"] = fl
    return bg


def _gen_cfg(rng, bgtype, kind, N, P, M):
    nf = int(rng.integers(1, 3))
    parts = []
    for a in range(P):
        c = [float(rng.uniform(0.1, 1.0)) if (i == 0 or rng.random() < 0.6) else 0.0
             for i in range(nf)]
        parts.append({"stat": str(rng.choice(["Fermion", "Boson"])), "c": c,
                      "m0": float(rng.choice([0.0, rng.uniform(0.05, 0.5)]))})
    # a massless boson at zero momentum would have a singular f_eq; p_par starts at 0 on the
    # grid but p_z never vanishes for odd N, keep bosons massive anyway (admissible domain)
    for p in parts:
        if p["stat"] == "Boson" and p["m0"] == 0.0:
            p["m0"] = float(rng.uniform(0.05, 0.5))
    cfg = {
        "M": int(M), "N": int(N), "nf": nf, "parts": parts,
        "T0": float(10 ** rng.uniform(-1, 2.5)),
        "ell": float(rng.uniform(2.0, 20.0)),           # wall thickness * T0
        "tailIn": float(rng.uniform(2.0, 6.0)), "tailOut": float(rng.uniform(2.0, 6.0)),
        "ratio": float(rng.uniform(0.4, 0.6)), "smoothing": float(rng.uniform(0.05, 0.2)),
        "bg": _gen_bg(rng, bgtype, nf, kind),
        "coll": {"gam": float(10 ** rng.uniform(-1.3, 0.0)),
                 "noise": float(rng.uniform(0.005, 0.05)),
                 "home": str(rng.choice(BASES)),
                 "mult": float(1.0 if rng.random() < 0.6 else rng.uniform(0.5, 2.0)),
                 "s": int(rng.integers(1 << 30))},
    }
    return cfg


def _pick_sizes(rng, tier):
    cap = 1300 if tier == "quick" else 2600
    Ns = [3, 5, 7] if tier == "quick" else [3, 5, 7, 7, 11]
    while True:
        N = int(rng.choice(Ns))
        P = int(rng.choice([1, 2, 3], p=[0.5, 0.3, 0.2]))
        mmax = min(40, cap // (P * (N - 1) ** 2) + 1)
        if mmax >= 10:
            return N, P, int(rng.integers(10, mmax + 1))


def generate(tier, seed):
    rng = np.random.default_rng(12000 + seed)
    cases = []
    nb = 16 if tier == "quick" else 100        # per background type
    for bgtype in BG_TYPES:
        for _ in range(nb):
            N, P, M = _pick_sizes(rng, tier)
            cases.append({"kind": "basis", "cfg": _gen_cfg(rng, bgtype, "tanh", N, P, M),
                          "scale": float(2.0 ** int(rng.choice([-6, -5, -4, -3, -2, -1,
                                                                 1, 2, 3, 4, 5, 6, 7, 8]))),
                          "hom_bases": [str(rng.choice(BASES)), str(rng.choice(BASES))],
                          "s": int(rng.integers(1 << 30))})
    nc = 4 if tier == "quick" else 20
    Ms = [20, 40, 80] if tier == "quick" else [20, 40, 80, 160]
    for bgtype in BG_TYPES:
        for _ in range(nc):
            N = int(rng.choice([3, 3, 3, 5]))
            P = 1 if N == 5 else int(rng.choice([1, 2]))   # keeps M=160 systems <= 2544
            cfg = _gen_cfg(rng, bgtype, "tanh", N, P, Ms[0])
            cases.append({"kind": "conv", "cfg": cfg, "Ms": Ms,
                          "g": {"q": [float(x) for x in rng.uniform(-1, 1, size=3)],
                                "k": float(rng.uniform(1.0, 4.0)), "ph": float(rng.uniform(0, 6.28)),
                                "w": [1.0, float(rng.uniform(-0.5, 0.5))]},
                          "s": int(rng.integers(1 << 30))})
    nph = 32 if tier == "quick" else 300
    for i in range(nph):
        N = int(rng.choice([3, 5, 7]))
        P = int(rng.choice([1, 2]))
        mmax = min(40, 1300 // (P * (N - 1) ** 2) + 1)
        M = int(rng.integers(10, mmax + 1))
        bgtype = BG_TYPES[i % 4]
        cases.append({"kind": "phys", "cfg": _gen_cfg(rng, bgtype, "poly", N, P, M),
                      "bases": [str(rng.choice(BASES)), str(rng.choice(BASES))],
                      "g": {"q": [float(x) for x in rng.uniform(-1, 1, size=3)],
                            "r": [float(x) for x in rng.uniform(-1, 1, size=int(min(3, N - 1)))],
                            "w": [float(x) for x in rng.uniform(-1, 1, size=int(min(2, N - 1)))]},
                      "s": int(rng.integers(1 << 30))})
    # kind=hist is appended after the older kinds so that their random streams (and the
    # calibration notes that refer to them) stay what they were
    nh = 12 if tier == "quick" else 60          # per background type
    for b, bgtype in enumerate(BG_TYPES):
        for j in range(nh):
            cases.append(_gen_hist(rng, tier, bgtype, HIST_PLANS[j % len(HIST_PLANS)],
                                   "Grid" if (j + b) % 3 == 0 else "Grid3Scales",
                                   "poly" if (j // len(HIST_PLANS) + j + b) % 4 == 0 else "tanh"))
    for i, c in enumerate(cases):
        c["i"] = i
    return cases


HIST_PLANS = ("pos", "pos-near", "mom", "mom-near", "both", "seq")


def _hist_step(rng, gridKind, st, op, near, cfg, span):
    """Next grid state (units: background length L, background temperature T0)."""
    def fac():
        if near:
            return 1.0 + float(rng.choice([-1, 1])) * 10.0 ** float(rng.uniform(-6.0, -2.0))
        f = float(np.exp(rng.uniform(-np.log(span), np.log(span))))
        return f if abs(np.log(f)) > 0.05 else 1.3

    st = dict(st)
    which = "-"
    if op == "mom":
        st["Tmom"] *= fac()
    elif gridKind == "Grid":
        st["L"] *= fac()
        which = "falloff"
    else:
        which = str(rng.choice(["tails", "thickness", "centre", "all"], p=[0.2, 0.3, 0.1, 0.4]))
        if which in ("tails", "all"):
            st["tailIn"] *= fac()
            st["tailOut"] *= fac()
        if which in ("thickness", "all"):
            st["L"] *= fac()
        if which in ("centre", "all"):
            st["c"] += (fac() - 1.0) if near else float(rng.uniform(-1.0, 1.0))
        # admissible domain of Grid3Scales: tails > L (1/2 + smoothing) / ratio (10 % margin;
        # EOM itself keeps 1.05 on the smoothing only)
        bound = 1.1 * st["L"] * (0.5 + cfg["smoothing"]) / cfg["ratio"]
        st["tailIn"] = max(st["tailIn"], bound)
        st["tailOut"] = max(st["tailOut"], bound)
    return {"op": op, "which": which, "near": bool(near), "state": st}


def _gen_hist(rng, tier, bgtype, plan, gridKind, bgkind):
    cap = 500 if tier == "quick" else 1300
    while True:
        N = int(rng.choice([3, 5, 7]))
        P = int(rng.choice([1, 2, 3], p=[0.5, 0.3, 0.2]))
        mmax = min(32, cap // (P * (N - 1) ** 2) + 1)
        if mmax >= 8:
            M = int(rng.integers(8, mmax + 1))
            break
    cfg = _gen_cfg(rng, bgtype, bgkind, N, P, M)
    cfg["gridKind"] = gridKind
    st = {"tailIn": cfg["tailIn"], "tailOut": cfg["tailOut"], "L": 1.0, "c": 0.0, "Tmom": 1.0}
    if plan in ("pos", "pos-near", "mom", "mom-near"):
        ops = [(plan[:3], plan.endswith("near"), 2.5)]
    elif plan == "both":
        first = str(rng.choice(["pos", "mom"]))
        ops = [(first, bool(rng.random() < 0.3), 2.0),
               ("mom" if first == "pos" else "pos", bool(rng.random() < 0.3), 2.0)]
    else:
        ops = [(str(rng.choice(["pos", "pos", "mom"])), bool(rng.random() < 0.4), 1.6)
               for _ in range(int(rng.integers(3, 5)))]
        if all(o[0] == "mom" for o in ops):
            ops[0] = ("pos", ops[0][1], 1.6)
    steps = []
    for op, near, span in ops:
        stp = _hist_step(rng, gridKind, st, op, near, cfg, span)
        st = stp["state"]
        steps.append(stp)
    # solvers constructed before the first rescale: one spectral solver in a random basis
    # pair, plus (sometimes) the Cardinal/Cardinal one and a finite-difference one
    early = [[str(rng.choice(BASES)), str(rng.choice(BASES)), "Spectral"]]
    if rng.random() < 0.4 and early[0][:2] != ["Cardinal", "Cardinal"]:
        early.append(["Cardinal", "Cardinal", "Spectral"])
    if rng.random() < 0.35:
        early.append(["Cardinal", "Cardinal", "Finite Difference"])
    return {"kind": "hist", "cfg": cfg, "plan": plan, "steps": steps, "early": early,
            "warm": bool(rng.random() < 0.6),           # solved once on the initial grid
            "keep_coll": bool(rng.random() < 0.7),      # collision array attached before the
                                                        # rescale stays (as in WallGoManager)
            "interleave": bool(rng.random() < 0.6),     # setBackground + solve at every stage
            "g": {"q": [float(x) for x in rng.uniform(-1, 1, size=3)],
                  "r": [float(x) for x in rng.uniform(-1, 1, size=int(min(3, N - 1)))],
                  "w": [float(x) for x in rng.uniform(-1, 1, size=int(min(2, N - 1)))]},
            "s": int(rng.integers(1 << 30))}


# ------------------------------------------------------------------------------ setups
class Setup:
    """Materialises one configuration with the real WallGo classes."""

    def __init__(self, cfg, M=None, T0=None, homogeneous=False, gridState=None):
        import WallGo
        cfg = copy.deepcopy(cfg)
        if homogeneous:
            cfg["bg"]["T"]["a"] = 0.0
            cfg["bg"]["v"]["a"] = 0.0
            for f in cfg["bg"]["fields"]:
                f["lo"] = f["hi"]
        self.cfg = cfg
        self.M = int(M if M is not None else cfg["M"])
        self.N = int(cfg["N"])
        self.T0 = float(T0 if T0 is not None else cfg["T0"])
        self.L = cfg["ell"] / self.T0
        # self.L / self.T0 are the length and temperature scales of the *background*; the
        # grid's own scales start out equal to them (state0) and may be moved by the history
        # cases, either in place or - gridState - by building the grid from other values
        self.gridKind = cfg.get("gridKind", "Grid3Scales")
        self.grid = self.newGrid(gridState or self.state0())
        self.prof = R.Profiles(cfg["bg"], self.T0, self.L)
        self.parts_spec = cfg["parts"]
        T0sq = self.T0 ** 2

        def mk(spec):
            cs, m0 = list(spec["c"]), spec["m0"]

            def msq(fields):
                tot = T0sq * m0
                for i, c in enumerate(cs):
                    if c != 0.0:
                        tot = tot + c * fields.getField(i) ** 2
                return tot + 0.0 * fields.getField(0)
            return msq

        self.particles = [WallGo.Particle(f"p{a}", a, mk(sp), None, sp["stat"], 12)
                          for a, sp in enumerate(self.parts_spec)]
        self.resample()
        # collision kernel acting on grid values (Cardinal), then the "home" representation
        cs = cfg["coll"]
        rng = np.random.default_rng(cs["s"])
        P, n = len(self.particles), self.N - 1
        C = cs["noise"] * cs["gam"] * rng.standard_normal((P, n, n, P, n, n))
        for a in range(P):
            d = cs["gam"] * (1.0 + 0.5 * rng.random((n, n))) * (1.0 + 0.5 * a)
            for j in range(n):
                for k in range(n):
                    C[a, j, k, a, j, k] += d[j, k]
        self.Ccard = C
        self.home = cs["home"]
        self.Chome = C if self.home == "Cardinal" else R.collision_cardinal_to_chebyshev(C, self.N)
        self.mult = cs["mult"]

    def state0(self):
        """Grid scales in units of the background's L (lengths) and T0 (momenta)."""
        return {"tailIn": self.cfg["tailIn"], "tailOut": self.cfg["tailOut"], "L": 1.0,
                "c": 0.0, "Tmom": 1.0}

    def newGrid(self, st):
        from WallGo.grid import Grid
        from WallGo.grid3Scales import Grid3Scales
        if self.gridKind == "Grid":
            return Grid(self.M, self.N, st["L"] * self.L, st["Tmom"] * self.T0)
        return Grid3Scales(self.M, self.N, st["tailIn"] * self.L, st["tailOut"] * self.L,
                           st["L"] * self.L, st["Tmom"] * self.T0,
                           ratioPointsWall=self.cfg["ratio"], smoothing=self.cfg["smoothing"],
                           wallCenter=st["c"] * self.L)

    def rescaleInPlace(self, op, st):
        """The in-place grid mutations offered by the classes (what EOM does per iteration)."""
        if op == "mom":
            self.grid.changeMomentumFalloffScale(st["Tmom"] * self.T0)
        elif self.gridKind == "Grid":
            self.grid.changePositionFalloffScale(st["L"] * self.L)
        else:
            self.grid.changePositionFalloffScale(st["tailIn"] * self.L, st["tailOut"] * self.L,
                                                 st["L"] * self.L, st["c"] * self.L)

    def resample(self):
        """Background = the analytic profiles sampled on the grid as it is *now*."""
        import WallGo
        chi = self.grid.getCompactCoordinates(endpoints=True)[0]
        xi = self.grid.getCoordinates(endpoints=True)[0]
        self.chiFull, self.xiFull = chi, xi
        T = self.prof.T(chi, xi) * np.ones_like(chi)
        v = self.prof.vWallFrame(chi, xi) * np.ones_like(chi)
        F = np.stack([f * np.ones_like(chi) for f in self.prof.fields(chi, xi)], axis=1)
        self.background = WallGo.BoltzmannBackground(self.prof.velocityMid(), v,
                                                     WallGo.Fields(F), T)
        return self.background

    def collisionArray(self, basisN):
        """Fresh CollisionArray in its home basis, moved to basisN by the code's own
        changeBasis (no-op when equal)."""
        from WallGo.collisionArray import CollisionArray
        from WallGo.polynomial import Polynomial
        poly = Polynomial(np.array(self.Chome, copy=True), self.grid,
                          ("Array", "Cardinal", "Cardinal", "Array", self.home, self.home),
                          CollisionArray.AXIS_TYPES, endpoints=False)
        ca = CollisionArray.newFromPolynomial(poly, self.particles)
        return ca.changeBasis(basisN)

    def solver(self, basisM, basisN, derivatives="Spectral"):
        import WallGo
        s = WallGo.BoltzmannSolver(self.grid, basisM, basisN, derivatives,
                                   collisionMultiplier=self.mult)
        s.updateParticleList(self.particles)
        s.setBackground(self.background)
        s.setCollisionArray(self.collisionArray(basisN))
        return s

    def minAmplitude(self):
        return _min_amplitude(self.cfg["bg"])


def _min_amplitude(bg):
    """smallest relative variation among the profiles that vary: the derivative of a profile
    of size p and relative variation a is a*p*O(1), the rounding of (derivative matrix) @
    profile is eps*M^2*p, hence relative noise eps*M^2/a."""
    amps = []
    if bg["T"]["a"] != 0:
        amps.append(abs(bg["T"]["a"]))
    if bg["v"]["a"] != 0:
        if bg["kind"] == "poly":     # plasma-frame profile c0 + a*p(chi), |p| <= 1.3
            amps.append(abs(bg["v"]["a"]) / (abs(bg["v"].get("c0", 0.0)) + 1.3 * abs(bg["v"]["a"])))
        else:                        # conservative: relative to the wall-frame velocity
            amps.append(abs(bg["v"]["a"]) / abs(bg["v"]["v0"]))
    for f in bg["fields"]:
        if f["hi"] != f["lo"]:
            amps.append(abs(f["hi"] - f["lo"]) / max(abs(f["hi"]), abs(f["lo"])))
    return min(amps) if amps else 0.0


def _derived(res):
    d = res.Deltas
    return {"D00": np.array(d.Delta00.coefficients, dtype=float),
            "D02": np.array(d.Delta02.coefficients, dtype=float),
            "D20": np.array(d.Delta20.coefficients, dtype=float),
            "D11": np.array(d.Delta11.coefficients, dtype=float),
            "trunc": np.array(float(res.truncationError)),
            "crit1": np.array(res.linearizationCriterion1, dtype=float),
            "crit2": np.array(res.linearizationCriterion2, dtype=float)}


def _collect(viol, _unused=None, extra_ctx=""):
    """Drain monitor events into the case's violation list; return the solve events."""
    solves = []
    for ev in _Session.drain():
        for v in ev["viol"]:
            v = dict(v)
            if extra_ctx:
                v["msg"] = v["msg"] + " [" + extra_ctx + "]"
            viol.append(v)
        if ev["hook"] == "solve":
            solves.append(ev)
    return solves


class CodeRaised(Exception):
    """The code under test raised on an admissible input (decided by where the innermost
    frames of the traceback live)."""


def _raised_in_wallgo(exc):
    import traceback
    frames = traceback.extract_tb(exc.__traceback__)
    inner = [f.filename for f in frames]
    # innermost frame that belongs to either the harness or WallGo decides
    for fn in reversed(inner):
        if "/WallGo/" in fn:
            return True
        if "/wgverif/" in fn:
            return False
    return False


def _guarded(fn, viol, ctx):
    """Run fn(); an exception raised from inside WallGo becomes a violation (the solver is
    total on this domain), anything else is a harness error and propagates."""
    try:
        return fn()
    except Exception as exc:  # noqa: BLE001
        if not _raised_in_wallgo(exc):
            raise
        _Session.drain()
        viol.append({"mech": "boltzmann-solver-raises",
                     "msg": f"{type(exc).__name__}: {str(exc)[:200]} [{ctx}]", "data": {}})
        raise CodeRaised(ctx) from exc


def _run(setup, bM, bN, mode, viol, ctx, solver=None):
    """One real solver run under the monitors (on a freshly constructed solver, or on the
    one handed in - the history cases keep solvers alive across grid rescales)."""
    s = solver if solver is not None else _guarded(lambda: setup.solver(bM, bN, mode), viol, ctx)
    res = _guarded(s.getDeltas, viol, ctx)
    solves = _collect(viol, None, ctx)
    sv = solves[-1] if solves else {}
    coef = np.asarray(res.deltaF, dtype=float)
    out = {"solver": s, "coef": coef, "derived": _derived(res),
           "kappa": sv.get("kappa", float("nan")), "eta": sv.get("eta", float("nan")),
           "n": sv.get("n"), "src_inf": sv.get("src_inf", float("nan")),
           "nsolve": len(solves)}
    if coef.shape == (len(setup.particles), setup.M - 1, setup.N - 1, setup.N - 1):
        out["vals"] = R.coeffs_to_values(coef, setup.M, setup.N, bM, bN)
    else:
        out["vals"] = None
    return out


# ----------------------------------------------------------------------- kind = basis
def _sensitivities(run, setup, rng):
    """|d q| per unit relative (max-norm) perturbation of deltaF, for every derived
    quantity, measured on the real getDeltas with the Cardinal/Cardinal solver."""
    s = run["solver"]
    f0 = run["vals"]
    sc = float(np.abs(f0).max())
    P, M1, n, _ = f0.shape
    pz = np.asarray(setup.grid.pzValues)
    alt = ((-1.0) ** np.arange(M1))[:, None, None] * ((-1.0) ** np.arange(n))[None, :, None] \
        * ((-1.0) ** np.arange(n))[None, None, :]
    draws = [np.ones(f0.shape), np.sign(pz)[None, None, :, None] * np.ones(f0.shape),
             alt[None] * np.ones(f0.shape),
             rng.choice([-1.0, 1.0], size=f0.shape), rng.uniform(-1, 1, size=f0.shape)]
    dummy = []
    q0 = _derived(_guarded(lambda: s.getDeltas(np.array(f0, copy=True)), dummy, "getDeltas(deltaF)"))
    S = {k: np.zeros_like(v) for k, v in q0.items()}
    for u in draws:
        q = _derived(_guarded(lambda u=u: s.getDeltas(f0 + E_PROBE * sc * u), dummy,
                              "getDeltas(deltaF)"))
        for k in S:
            with np.errstate(all="ignore"):
                S[k] = np.fmax(S[k], np.abs(q[k] - q0[k]) / E_PROBE)
    _Session.drain()
    return q0, S


def _judge_derived(q0, S, tau, others, mon, viol, monname, mech_of, reflabel, ctx):
    """Derived quantities of ``others`` (label -> _derived dict) against the reference values
    q0, tolerance K_DER * (measured sensitivity S) * (deltaF tolerance tau) + 64 eps |q0|."""
    der_obs = {}
    for name in q0:
        tolq = K_DER * S[name] * tau + 64 * EPS * np.abs(q0[name])
        with np.errstate(all="ignore"):
            judged = np.isfinite(q0[name]) & np.isfinite(tolq) \
                & (tolq <= 1e-4 * np.abs(q0[name]))
        if name.startswith("D"):
            # moments: judge against the per-position scale, skip nothing
            judged = np.isfinite(tolq)
        nj = int(np.sum(judged))
        mon[monname + "_judged"] += nj * len(others)
        mon[monname + "_illconditioned"] += int(np.size(judged) - nj) * len(others)
        worstq = 0.0
        for label, der in others.items():
            with np.errstate(all="ignore"):
                e = np.abs(der[name] - q0[name])
                ratio = np.where(judged, e / np.where(tolq > 0, tolq, 1.0), 0.0)
                ratio = np.where(judged & ~np.isfinite(e), np.inf, ratio)
            rmax = float(np.max(ratio)) if ratio.size else 0.0
            worstq = max(worstq, rmax)
            if rmax > 1.0:
                idx = np.unravel_index(int(np.argmax(ratio)), ratio.shape) if ratio.ndim else ()
                viol.append({
                    "mech": mech_of(name),
                    "msg": f"{name} from getDeltas differs between {reflabel} and "
                           f"{label}: {np.asarray(der[name])[idx]!r} vs "
                           f"{np.asarray(q0[name])[idx]!r}, tolerance "
                           f"{float(np.asarray(tolq)[idx]):.3e} {ctx}",
                    "data": {"name": name, "ratio": rmax}})
                break
        der_obs[name] = {"judged": nj, "of": int(np.size(judged)), "worst_ratio": worstq}
    return der_obs


def _case_basis(case):
    from WallGo.equationOfMotion import EOM
    cfg = case["cfg"]
    rng = np.random.default_rng(case["s"])
    viol, obs = [], {}
    bgtype = cfg["bg"]["type"]
    with _Session():
        setup = Setup(cfg)
        M, N, P = setup.M, setup.N, len(setup.particles)
        obs.update(M=M, N=N, P=P, bg=bgtype, home=setup.home,
                   stats=[p["stat"] for p in cfg["parts"]], nf=cfg["nf"])
        runs = {}
        for bM in BASES:
            for bN in BASES:
                runs[bM, bN] = _run(setup, bM, bN, "Spectral", viol, f"bases {bM}/{bN}")
        ref = runs["Cardinal", "Cardinal"]
        kap = {k: r["kappa"] for k, r in runs.items()}
        obs["kappa"] = {f"{k[0][:4]}/{k[1][:4]}": v for k, v in kap.items()}
        obs["eta_max"] = max(r["eta"] for r in runs.values())
        obs["n"] = ref["n"]
        mon = REC.mon
        if any(r["vals"] is None for r in runs.values()):
            return _finish(case, obs, viol, "basis:" + bgtype, None, nontrivial=False)
        kmax = max(kap.values())
        if not np.isfinite(kmax) or kmax > KAPPA_MAX:
            return _finish(case, obs, viol, "basis:" + bgtype,
                           f"inadmissible: kappa_1 = {kmax:.2e} > {KAPPA_MAX:g}", False)
        fscale = float(np.abs(ref["vals"]).max())
        obs["deltaF_inf"] = fscale
        if not fscale > 0:
            return _finish(case, obs, viol, "basis:" + bgtype, "reference deltaF is zero", False)

        # ---- (3) deltaF as a function on the grid
        tau = K_FWD * EPS * kmax
        obs["tau_deltaF"] = tau
        worst = 0.0
        bad_axes = set()
        for k, r in runs.items():
            if k == ("Cardinal", "Cardinal"):
                continue
            err = float(np.abs(r["vals"] - ref["vals"]).max()) / fscale
            mon["basis_pairs_deltaF"] += 1
            worst = max(worst, err)
            if not (err <= tau):
                if k[0] != "Cardinal":
                    bad_axes.add("position")
                if k[1] != "Cardinal":
                    bad_axes.add("momentum")
                obs.setdefault("basis_err", {})[f"{k[0]}/{k[1]}"] = err
        obs["basis_err_max"] = worst
        obs["basis_ratio"] = worst / (EPS * kmax)
        if bad_axes:
            # attribute to the axis whose basis change alone already breaks agreement
            only_pos = "Chebyshev/Cardinal" in obs["basis_err"]
            only_mom = "Cardinal/Chebyshev" in obs["basis_err"]
            which = "+".join(a for a, f in (("position", only_pos), ("momentum", only_mom)) if f) \
                or "combined-only"
            viol.append({"mech": f"deltaF-depends-on-{which}-basis",
                         "msg": f"deltaF on the grid differs between basis choices: "
                                f"{obs['basis_err']} (relative to max|deltaF|), tolerance "
                                f"{tau:.2e} = {K_FWD:g}*eps*kappa_1 (kappa_1={kmax:.2e}); "
                                f"M={M} N={N} P={P} bg={bgtype} home={setup.home}",
                         "data": {"err": obs["basis_err"], "tol": tau}})
        else:
            # ---- derived quantities (only meaningful when deltaF itself agrees)
            q0, S = _sensitivities(ref, setup, rng)
            others = {f"{k[0]}/{k[1]}": r["derived"] for k, r in runs.items()
                      if k != ("Cardinal", "Cardinal")}
            obs["derived"] = _judge_derived(
                q0, S, tau, others, mon, viol, "basis_derived",
                lambda name: f"{_DER_MECH[name]}-depends-on-basis",
                "Cardinal/Cardinal", f"while deltaF itself agrees to {worst:.2e}; "
                f"M={M} N={N} P={P} bg={bgtype}")

        # ---- (5a) unit rescaling: same compact grid, temperatures/fields * s, lengths / s
        s_ = case["scale"]
        setup2 = Setup(cfg, T0=setup.T0 * s_)
        r2 = _run(setup2, "Cardinal", "Chebyshev", "Spectral", viol, "rescaled units")
        r1 = runs["Cardinal", "Chebyshev"]
        if r2["vals"] is not None and np.isfinite(r2["kappa"]) and r2["kappa"] <= KAPPA_MAX:
            tol2 = K_FWD * EPS * max(r1["kappa"], r2["kappa"])
            err2 = float(np.abs(r2["vals"] - r1["vals"]).max()) / fscale
            mon["unit_scaling"] += 1
            obs["scaling"] = {"s": s_, "err": err2, "tol": tol2}
            if not (err2 <= tol2):
                viol.append({"mech": "deltaF-not-invariant-under-unit-rescaling",
                             "msg": f"temperatures, fields, momenta x{s_:.4g}, lengths /{s_:.4g}: "
                                    f"dimensionless deltaF on the same compact grid changes by "
                                    f"{err2:.3e} (relative), tolerance {tol2:.2e}",
                             "data": obs["scaling"]})

        # ---- (1) homogeneous limit of the same configuration
        hb = tuple(case["hom_bases"])
        setup_h = Setup(cfg, homogeneous=True)
        rh = _run(setup_h, hb[0], hb[1], "Spectral", viol, "homogeneous")
        # reference: the same configuration with *all three* profiles varying, so that the
        # rounding noise of each (derivative matrix @ constant profile) has its own term
        # of relative size >= amin to be compared with
        if bgtype == "combined":
            setup_a = setup
            rr, amin = runs[hb], setup.minAmplitude()
        else:
            setup_a = Setup(_variant(cfg, ("T", "v", "field")))
            rr = _run(setup_a, hb[0], hb[1], "Spectral", viol, "all-varying reference")
            amin = setup_a.minAmplitude()
        if rh["vals"] is not None and rr["vals"] is not None:
            mon["homogeneous"] += 1
            tol_src = K_HOM * EPS * M * M / amin
            tol_df = tol_src * max(1.0, min(max(kap[hb], rr["kappa"]), KAPPA_MAX))
            r_src = rh["src_inf"] / rr["src_inf"]
            r_df = float(np.abs(rh["vals"]).max()) / float(np.abs(rr["vals"]).max())
            obs["hom"] = {"src_ratio": r_src, "df_ratio": r_df, "tol_src": tol_src,
                          "tol_df": tol_df, "model_units": r_src * amin / (EPS * M * M)}
            if not (r_src <= tol_src and r_df <= tol_df):
                viol.append({"mech": "homogeneous-background-nonzero-deviation",
                             "msg": f"constant T, v, fields: |source|/|source(varying)| = "
                                    f"{r_src:.3e} (rounding model {tol_src:.2e}), |deltaF|/"
                                    f"|deltaF(varying)| = {r_df:.3e} (model {tol_df:.2e}); bases "
                                    f"{hb[0]}/{hb[1]} M={M} N={N}", "data": obs["hom"]})

        # ---- (5c) EOM.getBoltzmannFiniteDifference on a stub that holds the real solver
        s0 = runs["Cardinal", "Chebyshev"]["solver"]
        c_before = np.array(s0.collisionArray.polynomialData.coefficients, copy=True)
        resfd = _guarded(lambda: EOM.getBoltzmannFiniteDifference(
            types.SimpleNamespace(boltzmannSolver=s0)), viol, "EOM.getBoltzmannFiniteDifference")
        _collect(viol, None, "EOM.getBoltzmannFiniteDifference")
        direct = _run(setup, "Cardinal", "Cardinal", "Finite Difference", viol, "finite difference")
        mon["eom_fd"] += 1
        untouched = (s0.derivatives == "Spectral" and s0.basisN == "Chebyshev"
                     and s0.collisionArray.getBasisType() == "Chebyshev"
                     and np.array_equal(s0.collisionArray.polynomialData.coefficients, c_before))
        if not untouched:
            viol.append({"mech": "getBoltzmannFiniteDifference-alters-solver",
                         "msg": "EOM.getBoltzmannFiniteDifference changed the spectral solver it "
                                "copies (derivatives/basis/collision array)", "data": {}})
        fd = np.asarray(resfd.deltaF, dtype=float)
        if direct["vals"] is not None and fd.shape == direct["vals"].shape \
                and np.isfinite(direct["kappa"]) and direct["kappa"] <= KAPPA_MAX:
            tol3 = K_FWD * EPS * direct["kappa"]
            err3 = float(np.abs(fd - direct["vals"]).max()) / float(np.abs(direct["vals"]).max())
            obs["eom_fd"] = {"err": err3, "tol": tol3}
            if not (err3 <= tol3):
                viol.append({"mech": "getBoltzmannFiniteDifference-differs-from-fd-solver",
                             "msg": f"deltaF from EOM.getBoltzmannFiniteDifference differs from a "
                                    f"directly built finite-difference solver by {err3:.3e} "
                                    f"(tolerance {tol3:.2e})", "data": obs["eom_fd"]})
            obs["fd_vs_spectral_deltaF"] = float(np.abs(direct["vals"] - ref["vals"]).max()) / fscale

        # ---- (1) again, in finite-difference mode
        rhf = _run(setup_h, "Cardinal", "Cardinal", "Finite Difference", viol, "homogeneous FD")
        rrf = direct if bgtype == "combined" else _run(
            setup_a, "Cardinal", "Cardinal", "Finite Difference", viol, "all-varying reference FD")
        if rhf["vals"] is not None and rrf["vals"] is not None and np.isfinite(rrf["kappa"]):
            mon["homogeneous"] += 1
            tol_src = K_HOM * EPS * M * M / amin
            tol_df = tol_src * max(1.0, min(rrf["kappa"], KAPPA_MAX))
            r_src = rhf["src_inf"] / rrf["src_inf"]
            r_df = float(np.abs(rhf["vals"]).max()) / float(np.abs(rrf["vals"]).max())
            obs["hom_fd"] = {"src_ratio": r_src, "df_ratio": r_df, "tol_src": tol_src,
                             "tol_df": tol_df, "model_units": r_src * amin / (EPS * M * M)}
            if not (r_src <= tol_src and r_df <= tol_df):
                viol.append({"mech": "homogeneous-background-nonzero-deviation",
                             "msg": f"finite-difference mode, constant T, v, fields: |source|/"
                                    f"|source(varying)| = {r_src:.3e} (rounding model {tol_src:.2e}), "
                                    f"|deltaF|/|deltaF(varying)| = {r_df:.3e} (model {tol_df:.2e}); "
                                    f"M={M} N={N}", "data": obs["hom_fd"]})
        return _finish(case, obs, viol, "basis:" + bgtype, None, True)


_DER_MECH = {"D00": "moments", "D02": "moments", "D20": "moments", "D11": "moments",
             "trunc": "truncation-error", "crit1": "linearization-criterion1",
             "crit2": "linearization-criterion2"}


def _finish(case, obs, viol, cls, inconclusive, nontrivial):
    cfg = case["cfg"]
    key = (f"{case['kind']}:{cfg['bg']['type']}:{cfg['M']}:{cfg['N']}:"
           f"{''.join(p['stat'][0] for p in cfg['parts'])}:{cfg['nf']}:{cfg['coll']['home'][:4]}:"
           f"{case['s'] % 9973}")
    # one violation per mechanism per case is enough
    seen, out = set(), []
    for v in viol:
        if v["mech"] not in seen:
            seen.add(v["mech"])
            out.append(v)
    return {"key": key, "cls": cls, "nontrivial": bool(nontrivial and not inconclusive),
            "obs": obs, "viol": out, "inconclusive": inconclusive, "mon": dict(REC.mon)}


# ------------------------------------------------------------------------ kind = conv
def _test_values(grid, g, P):
    chi, rz, rp = grid.getCompactCoordinates()
    a = (1 - chi ** 2) * (g["q"][0] + g["q"][1] * chi + g["q"][2] * chi ** 2
                          + np.sin(g["k"] * chi + g["ph"]))
    b = 1 - rz ** 2                       # quadratic: 3-point stencils in rho_z are exact
    c = (1 - rp) * (g["w"][0] + g["w"][1] * rp)
    base = a[:, None, None] * b[None, :, None] * c[None, None, :]
    return np.stack([(1.0 + 0.5 * p) * base for p in range(P)])


def _fd_pair(setup, g, viol, want_solve=False):
    """source and Liouville@g for the two derivative modes on the same configuration."""
    out = {}
    P = len(setup.particles)
    gv = _test_values(setup.grid, g, P)
    for mode in ("Spectral", "Finite Difference"):
        s = _guarded(lambda: setup.solver("Cardinal", "Cardinal", mode), viol, mode)
        if want_solve:
            _guarded(s.solveBoltzmannEquations, viol, mode)
        _, src, liou, _ = _guarded(s.buildLinearEquations, viol, mode)
        Lg = np.einsum("azbcdxyw,dxyw->azbc", liou, gv, optimize=True)
        out[mode] = (np.array(src, copy=True), Lg)
        _collect(viol, None, f"{mode} M={setup.M}")
    sp, fd = out["Spectral"], out["Finite Difference"]
    nS, nL = np.linalg.norm(sp[0]), np.linalg.norm(sp[1])
    dS = float(np.linalg.norm(fd[0] - sp[0]) / nS) if nS > 0 else float("nan")
    dL = float(np.linalg.norm(fd[1] - sp[1]) / nL) if nL > 0 else float("nan")
    return dS, dL, float(np.linalg.norm(fd[0])), float(nS)


def _variant(cfg, keep):
    """cfg with only the profile(s) in ``keep`` varying."""
    c = copy.deepcopy(cfg)
    if "T" not in keep:
        c["bg"]["T"]["a"] = 0.0
    elif c["bg"]["T"]["a"] == 0.0:
        c["bg"]["T"]["a"] = 0.05
    if "v" not in keep:
        c["bg"]["v"]["a"] = 0.0
    elif c["bg"]["v"]["a"] == 0.0:
        c["bg"]["v"]["a"] = 0.05
    for f in c["bg"]["fields"]:
        if "field" not in keep:
            f["lo"] = f["hi"]
        elif f["lo"] == f["hi"]:
            f["lo"] = 0.2 * f["hi"]
    return c


def _attribute_source_failure(cfg, g, M):
    """Which of the three source terms disagrees between the derivative modes, and does the
    disagreement disappear when the plasma-frame velocity profile is an affine copy of the
    temperature profile (the signature of the velocity gradient being taken from T)?"""
    import WallGo
    dummy = []
    bad = []
    detail = {}
    for term in ("T", "v", "field"):
        st = Setup(_variant(cfg, (term,)), M=M)
        dS, _, nfd, nsp = _fd_pair(st, g, dummy)
        detail[term] = {"dS": dS, "fd_norm": nfd, "sp_norm": nsp}
        if not (dS <= FD_MAX_FINEST):
            bad.append(term)
    aligned = None
    if "v" in bad:
        c = _variant(cfg, ("T",))
        c["T0"] = 1.0
        st = Setup(c, M=M)
        Tprof = np.asarray(st.background.temperatureProfile)
        vm = st.prof.velocityMid()
        vpl = Tprof - 1.0                    # plasma-frame velocity = T + const
        vwallframe = (vpl + vm) / (1.0 + vpl * vm)
        st.background = WallGo.BoltzmannBackground(vm, vwallframe, st.background.fieldProfiles,
                                                   Tprof)
        aligned, _, _, _ = _fd_pair(st, g, dummy)
        detail["aligned"] = aligned
    _Session.drain()
    return bad, aligned, detail


def _order(d, Ms):
    if not (d[0] > 0 and d[-1] > 0):
        return float("inf") if d[-1] == 0 else float("nan")
    return math.log(d[0] / d[-1]) / math.log(Ms[-1] / Ms[0])


def _case_conv(case):
    cfg, Ms, g = case["cfg"], case["Ms"], case["g"]
    bgtype = cfg["bg"]["type"]
    viol, obs = [], {"bg": bgtype, "Ms": Ms, "N": cfg["N"], "P": len(cfg["parts"])}
    with _Session():
        mon = REC.mon
        dS, dL = [], []
        for M in Ms:
            st = Setup(cfg, M=M)
            a, b, _, _ = _fd_pair(st, g, viol, want_solve=(M == Ms[0]))
            dS.append(a)
            dL.append(b)
            mon["fd_series_points"] += 1
        obs.update(dS=dS, dL=dL, order_S=_order(dS, Ms), order_L=_order(dL, Ms))
        if not (np.all(np.isfinite(dS)) and np.all(np.isfinite(dL))):
            return _finish(case, obs, viol, "conv:" + bgtype,
                           "spectral source or Liouville term vanishes", False)

        def fails(d):
            if d[-1] <= 1e-9:
                return False
            return not (d[-1] <= FD_MAX_FINEST and _order(d, Ms) >= FD_MIN_ORDER)

        if fails(dS):
            bad, aligned, detail = _attribute_source_failure(cfg, g, Ms[-1])
            obs["attribution"] = detail
            blind_to_v = "v" in detail and detail["v"]["fd_norm"] <= 1e-6 * detail["v"]["sp_norm"]
            if "v" in bad and blind_to_v and aligned is not None and aligned <= FD_MAX_FINEST:
                mech = "fd-velocity-gradient-taken-from-temperature-profile"
                why = ("single-term probes at M=%d: terms %s disagree (v-only: |S_fd| = %.2e vs "
                       "|S_spectral| = %.2e); the disagreement vanishes (%.2e) when the "
                       "plasma-frame velocity profile is T + const, i.e. the finite-difference "
                       "branch differentiates the temperature profile where the velocity "
                       "profile is meant" % (Ms[-1], "+".join(bad), detail["v"]["fd_norm"],
                                             detail["v"]["sp_norm"], aligned))
            else:
                mech = "fd-source-does-not-converge[" + "+".join(bad or ["none-single"]) + "]"
                why = f"single-term probes at M={Ms[-1]}: {detail}"
            viol.append({"mech": mech,
                         "msg": f"finite-difference vs spectral source, background {bgtype}: "
                                f"relative difference {['%.3e' % x for x in dS]} for M={Ms} "
                                f"(order {obs['order_S']:.2f}; required: order >= {FD_MIN_ORDER}, "
                                f"<= {FD_MAX_FINEST:g} at the finest grid). {why}",
                         "data": {"dS": dS, "Ms": Ms, "attribution": detail}})
        if fails(dL):
            viol.append({"mech": "fd-liouville-does-not-converge",
                         "msg": f"finite-difference vs spectral Liouville operator applied to a "
                                f"smooth test deviation, background {bgtype}: relative difference "
                                f"{['%.3e' % x for x in dL]} for M={Ms} (order "
                                f"{obs['order_L']:.2f})", "data": {"dL": dL, "Ms": Ms}})
        return _finish(case, obs, viol, "conv:" + bgtype, None, True)


# ------------------------------------------------------------------------ kind = phys
def _case_phys(case):
    cfg = case["cfg"]
    bM, bN = case["bases"]
    viol, obs = [], {"bg": cfg["bg"]["type"], "M": cfg["M"], "N": cfg["N"], "bases": [bM, bN],
                     "P": len(cfg["parts"])}
    with _Session():
        mon = REC.mon
        st = Setup(cfg)
        s = _guarded(lambda: st.solver(bM, bN, "Spectral"), viol, "phys")
        built = _guarded(s.buildLinearEquations, viol, "phys")
        _collect(viol, None, "phys")
        dxidchi, dpzdrz, _ = s.grid.getCompactificationDerivatives()
        _, pz, pp = s.grid.getCoordinates()
        why = _phys_oracles(cfg, st, s, built, bM, bN, case["g"],
                            {"dxidchi": dxidchi, "dpzdrz": dpzdrz, "pz": pz, "pp": pp},
                            viol, obs, mon)
        if why:
            return _finish(case, obs, viol, "phys", why, False)
        return _finish(case, obs, viol, "phys", None, True)


def _phys_oracles(cfg, st, s, built, bM, bN, gq, gridq, viol, obs, mon):
    """Exactness oracles for backgrounds that are polynomials in chi: source against
    -(Liouville)[f_eq] by complex step, operator parts against the closed form applied to a
    polynomial test deviation.  ``gridq`` holds the Jacobians and momenta of the grid the
    system is supposed to describe.  Returns a reason string when nothing can be judged."""
    op, src, liou, coll = built
    M, N, P = st.M, st.N, len(st.particles)
    dxidchi, dpzdrz, pz, pp = gridq["dxidchi"], gridq["dpzdrz"], gridq["pz"], gridq["pp"]
    chi, rz, rp = R.nodes(M, N)
    gc = s.grid.getCompactCoordinates()
    if max(np.abs(gc[0] - chi).max(), np.abs(gc[1] - rz).max(), np.abs(gc[2] - rp).max()) > 4 * EPS:
        return "grid nodes are not the documented Gauss-Lobatto points (C17's business)"
    # ---- source = -(Liouville)[f_eq]
    S = np.asarray(src).reshape(P, M - 1, N - 1, N - 1)
    worst = 0.0
    # rounding model: each of the three gradient terms carries noise eps*M^2/a_term
    # relative to its own size (a_term = relative variation of that profile); the sizes
    # come from the reference evaluated on single-term variants of the background
    term_profs = []
    for term in ("T", "v", "field"):
        cv = _variant(cfg, (term,))
        term_profs.append((R.Profiles(cv["bg"], st.T0, st.L), _min_amplitude(cv["bg"])))
    for a, spec in enumerate(cfg["parts"]):
        ref = R.source_reference(st.prof, spec, chi, dxidchi, pz, pp)
        scale = np.zeros(ref.shape[1:])
        for pr, am in term_profs:
            scale = scale + np.abs(R.source_reference(pr, spec, chi, dxidchi, pz, pp)).max(axis=0) / am
        scale = scale[None] + 1e-6 * scale.max()
        tol = K_SRC * EPS * M * M
        err = float(np.max(np.abs(S[a] - ref) / scale))
        worst = max(worst, err / tol)
        mon["source_exact"] += 1
        if not (err <= tol):
            viol.append({"mech": "source-differs-from-liouville-of-equilibrium",
                         "msg": f"source term vs -(P_wall d/dxi - gamma_w/2 dm^2/dxi d/dp_z) f_eq "
                                f"(complex-step derivative, polynomial background type "
                                f"{cfg['bg']['type']}, {spec['stat']}): difference / (sum of "
                                f"term sizes / their relative amplitudes) = {err:.3e} > "
                                f"{tol:.2e} = {K_SRC:g}*eps*M^2; max relative difference "
                                f"{float(np.abs(S[a] - ref).max() / np.abs(ref).max()):.3e}; "
                                f"bases {bM}/{bN} M={M} N={N}",
                         "data": {"err": err, "tol": tol}})
            break
    obs["source_ratio"] = worst
    # ---- operator on a polynomial test deviation
    g = R.TestDeviation(gq["q"], gq["r"], gq["w"], [1.0 + 0.5 * a for a in range(P)])
    gv = g.values(chi, rz, rp)
    coef = R.values_to_coeffs(gv, M, N, bM, bN)
    Lref, Cref = R.operator_reference(st.prof, cfg["parts"], st.Ccard, st.mult, g, M, N,
                                      dxidchi, dpzdrz, pz, pp)
    x = coef.reshape(-1)
    n = x.size
    opx = (op @ x).reshape(Lref.shape)
    Lx = (liou.reshape(n, n) @ x).reshape(Lref.shape)
    Cx = (coll.reshape(n, n) @ x).reshape(Lref.shape)
    kb = R.basis_condition(M, N, bM, bN)
    rowL = (np.abs(liou.reshape(n, n)) @ np.abs(x)).reshape(Lref.shape)
    rowC = (np.abs(coll.reshape(n, n)) @ np.abs(x)).reshape(Lref.shape)
    floor = 1e-300
    checks = (("liouville", Lx, Lref, rowL), ("collision", Cx, Cref, rowC),
              ("total", opx, Lref + Cref, rowL + rowC))
    obs["operator_ratio"] = {}
    for name, got, want, row in checks:
        # rounding: derivative-matrix entries carry ~M*eps relative error, the change of
        # basis of g adds kappa(basis)*eps
        tol = K_OP * EPS * (M + kb) * (row + floor) + K_OP * EPS * M * np.abs(row).max()
        ratio = float(np.max(np.abs(got - want) / tol))
        obs["operator_ratio"][name] = ratio
        mon["operator_exact"] += 1
        if not (ratio <= 1.0):
            rel = float(np.abs(got - want).max() / np.abs(want).max())
            viol.append({"mech": f"operator-{name}-part-differs-from-closed-form",
                         "msg": f"{name} part of buildLinearEquations applied to a polynomial "
                                f"deviation vs closed form dchi/dxi[P_wall dg/dchi - gamma_w/2 "
                                f"dm^2/dchi drz/dpz dg/drz] + mult*T^2*C g: relative "
                                f"difference {rel:.3e} ({ratio:.1e} x rounding model); bases "
                                f"{bM}/{bN} M={M} N={N} P={P} home={st.home}",
                         "data": {"rel": rel, "ratio": ratio}})
    return None


# ------------------------------------------------------------------------ kind = hist
_GRIDQ = ("xi", "pz", "pp", "dxidchi", "dpzdrz", "dppdrp")


def _grid_quantities(grid):
    xi, pz, pp = grid.getCoordinates()
    dx, dpz, dpp = grid.getCompactificationDerivatives()
    return {k: np.array(v, dtype=float, copy=True)
            for k, v in zip(_GRIDQ, (xi, pz, pp, dx, dpz, dpp))}


def _gridq_differ(a, b, k_eps):
    """names of the grid quantities that differ by more than k_eps*eps*max|.|"""
    bad = []
    for q in _GRIDQ:
        sc = float(np.abs(b[q]).max())
        if not (a[q].shape == b[q].shape and float(np.abs(a[q] - b[q]).max()) <= k_eps * EPS * sc):
            bad.append(q)
    return bad


def _refsys_eta(setup, f, gq):
    """Normwise backward error of the grid function f against the reference system
    assembled (oracles.c12_ref.reference_system) for the background the solver was given
    and the grid quantities gq."""
    bg = setup.background
    msq = np.array([p.msqVacuum(bg.fieldProfiles) for p in setup.particles], dtype=float)
    stats = [-1.0 if p["stat"] == "Fermion" else 1.0 for p in setup.parts_spec]
    op, src = R.reference_system(bg.temperatureProfile, bg.velocityProfile, bg.velocityMid,
                                 msq, stats, setup.Ccard, setup.mult, setup.M, setup.N, gq)
    x = np.asarray(f, dtype=float).reshape(-1)
    res = op @ x - src
    den = float(np.abs(op).sum(axis=1).max()) * float(np.abs(x).max()) + float(np.abs(src).max())
    return float(np.abs(res).max()) / den if den > 0 else 0.0


def _attribute_stale_grid(setup, f, snaps, tol):
    """Which quantities of an *earlier* state of the grid object make the deviation f a
    solution?  snaps[k] = grid quantities after k rescales (0 = at solver construction)."""
    cur = snaps[-1]
    for k in range(len(snaps) - 2, -1, -1):
        old = snaps[k]
        for tag, names in (("compactification-jacobians", ("dxidchi", "dpzdrz")),
                           ("momentum-coordinates", ("pz", "pp")),
                           ("jacobians-and-momenta", ("dxidchi", "dpzdrz", "pz", "pp"))):
            gq = dict(cur)
            for q in names:
                gq[q] = old[q]
            if any(not np.array_equal(gq[q], cur[q]) for q in names) \
                    and _refsys_eta(setup, f, gq) <= tol:
                return tag, k
    return None, None


def _case_hist(case):
    import WallGo
    cfg = case["cfg"]
    rng = np.random.default_rng(case["s"])
    bgtype, plan = cfg["bg"]["type"], case["plan"]
    steps = case["steps"]
    viol, obs = [], {"bg": bgtype, "bgkind": cfg["bg"]["kind"], "plan": plan,
                     "grid": cfg["gridKind"], "M": cfg["M"], "N": cfg["N"],
                     "P": len(cfg["parts"]), "early": case["early"], "warm": case["warm"],
                     "ops": [f"{t['op']}:{t['which']}:{'near' if t['near'] else 'far'}"
                             for t in steps]}
    cls = ["hist", "hist:" + plan, "hist:" + cfg["gridKind"], "hist:bg:" + bgtype]
    with _Session():
        mon = REC.mon
        setup = Setup(cfg)
        M, N = setup.M, setup.N
        grid = setup.grid
        snaps = [_grid_quantities(grid)]
        amin = setup.minAmplitude()
        # rounding model of the reference system, see K_REF
        tol_ref = K_REF * EPS * M * M * (1.0 + 1.0 / amin)
        obs["tol_ref"] = tol_ref
        alive = [setup.background]          # replaced backgrounds stay referenced (id reuse)

        # ---- solvers constructed on the grid as it is *before* any rescale
        earlies = []
        for bM, bN, mode in case["early"]:
            def mk(bM=bM, bN=bN, mode=mode):
                sv = WallGo.BoltzmannSolver(grid, bM, bN, mode, collisionMultiplier=setup.mult)
                sv.updateParticleList(setup.particles)
                if case["warm"]:
                    sv.setBackground(setup.background)
                    sv.setCollisionArray(setup.collisionArray(bN))
                    sv.solveBoltzmannEquations()
                return sv
            earlies.append(_guarded(mk, viol, f"early solver {bM}/{bN} {mode}"))
        _collect(viol, None, "solve on the initial grid")

        # ---- the grid object is rescaled in place, possibly several times
        stage_etas = []
        pristine = None
        for k, stp in enumerate(steps):
            last = k == len(steps) - 1
            _guarded(lambda stp=stp: setup.rescaleInPlace(stp["op"], stp["state"]), viol,
                     f"rescale {stp['op']} step {k}")
            mon["hist_rescale_calls"] += 1
            now = _grid_quantities(grid)
            moved = [q for q in _GRIDQ if not np.array_equal(now[q], snaps[-1][q])]
            mon["hist_grid_state_changed"] += int(bool(moved))
            snaps.append(now)
            alive.append(setup.resample())
            # a grid built from scratch with the same parameters is the yardstick for "the
            # actual current grid" (plain Grid: additionally the documented closed form)
            pristine = Setup(cfg, gridState=stp["state"])
            pq = _grid_quantities(pristine.grid)
            mon["hist_grid_vs_fresh_grid"] += 1
            bad = _gridq_differ(now, pq, 8)
            if bad:
                viol.append({"mech": "grid-rescaled-in-place-differs-from-grid-built-with-same-parameters",
                             "msg": f"after {cfg['gridKind']} {stp['op']} rescale (step {k}, "
                                    f"{stp['which']}) the cached {bad} differ from a grid constructed "
                                    f"with the same parameters", "data": {"bad": bad}})
                return _finish(case, obs, viol, cls, None, True)
            if cfg["gridKind"] == "Grid":
                cf = R.plain_grid_closed_form(M, N, stp["state"]["L"] * setup.L,
                                              stp["state"]["Tmom"] * setup.T0)
                bad = [q for q in cf if not float(np.abs(now[q] - cf[q]).max())
                       <= 64 * EPS * float(np.abs(cf[q]).max())]
                if bad:
                    viol.append({"mech": "grid-quantities-differ-from-documented-compactification",
                                 "msg": f"Grid after {stp['op']} rescale (step {k}): {bad} differ from "
                                        f"chi = xi/sqrt(xi^2+L^2), rho_z = tanh(p_z/2T), rho_par = "
                                        f"1-2exp(-p_par/T) and their derivatives", "data": {"bad": bad}})
                    return _finish(case, obs, viol, cls, None, True)
            if last or not case["interleave"]:
                continue
            # intermediate stage, as in the EOM loop: new background, solve again
            for sv, (bM, bN, mode) in zip(earlies, case["early"]):
                def again(sv=sv, bN=bN):
                    sv.setBackground(setup.background)
                    if sv.collisionArray is None or not case["keep_coll"]:
                        sv.setCollisionArray(setup.collisionArray(bN))
                    return sv.solveBoltzmannEquations()
                df = np.asarray(_guarded(again, viol, f"stage {k} {bM}/{bN} {mode}"), dtype=float)
                if mode == "Spectral" and df.shape == (len(setup.particles), M - 1, N - 1, N - 1):
                    eta = _refsys_eta(setup, R.coeffs_to_values(df, M, N, bM, bN), pq)
                    mon["hist_refsys_judged"] += 1
                    stage_etas.append(eta)
                    if not (eta <= tol_ref):
                        # control: the same configuration on a solver constructed now
                        dfc = np.asarray(_guarded(
                            lambda bM=bM, bN=bN: setup.solver(bM, bN, "Spectral").solveBoltzmannEquations(),
                            viol, f"stage {k} control"), dtype=float)
                        eta_ctl = _refsys_eta(setup, R.coeffs_to_values(dfc, M, N, bM, bN), pq)
                        if eta_ctl <= tol_ref:
                            tag, kk = _attribute_stale_grid(
                                setup, R.coeffs_to_values(df, M, N, bM, bN), snaps, tol_ref)
                            viol.append(_stale_violation(tag, kk, eta, tol_ref, k, len(steps),
                                                         bM, bN, cfg, stp))
                        else:
                            viol.append({"mech": "solution-violates-reference-system",
                                         "msg": f"stage {k}: deltaF of the {bM}/{bN} spectral solver "
                                                f"has backward error {eta:.3e} (a freshly built one: "
                                                f"{eta_ctl:.3e}) > {tol_ref:.2e} against the "
                                                f"independently assembled system",
                                         "data": {"eta": eta, "tol": tol_ref}})
            _collect(viol, None, f"stage {k}")

        # ---- final stage: early solvers (new background) vs solvers constructed now
        pq = _grid_quantities(pristine.grid)
        runs_e, runs_f = [], {}
        for sv, (bM, bN, mode) in zip(earlies, case["early"]):
            def prep(sv=sv, bN=bN):
                sv.setBackground(setup.background)
                if sv.collisionArray is None or not case["keep_coll"]:
                    sv.setCollisionArray(setup.collisionArray(bN))
            _guarded(prep, viol, f"early {bM}/{bN} {mode} after the rescale")
            runs_e.append(_run(setup, bM, bN, mode, viol,
                               f"solver {bM}/{bN} {mode} built before the rescale", solver=sv))
        for bM, bN, mode in [["Cardinal", "Cardinal", "Spectral"]] + case["early"]:
            if (bM, bN, mode) not in runs_f:
                runs_f[bM, bN, mode] = _run(setup, bM, bN, mode, viol,
                                            f"solver {bM}/{bN} {mode} built after the rescale")
        ref = runs_f["Cardinal", "Cardinal", "Spectral"]
        rp = _run(pristine, "Cardinal", "Cardinal", "Spectral", viol, "solver on a grid built "
                  "from scratch with the final parameters")
        allruns = runs_e + list(runs_f.values()) + [rp]
        obs["n"] = ref["n"]
        obs["eta_max"] = max(r["eta"] for r in allruns)
        if any(r["vals"] is None for r in allruns):
            return _finish(case, obs, viol, cls, None, False)
        kmax = max(r["kappa"] for r in allruns)
        obs["kappa"] = kmax
        if not np.isfinite(kmax) or kmax > KAPPA_MAX:
            return _finish(case, obs, viol, cls,
                           f"inadmissible: kappa_1 = {kmax:.2e} > {KAPPA_MAX:g}", False)
        fscale = float(np.abs(ref["vals"]).max())
        obs["deltaF_inf"] = fscale
        if not fscale > 0:
            return _finish(case, obs, viol, cls, "reference deltaF is zero", False)
        tau = K_FWD * EPS * kmax
        obs["tau_deltaF"] = tau
        hist_desc = (f"{cfg['gridKind']} rescaled in place {obs['ops']} after the solver was "
                     f"constructed; M={M} N={N} P={obs['P']} bg={bgtype}/{cfg['bg']['kind']} "
                     f"warm={case['warm']}")

        # Attribution rule for everything below: a disagreement that the identically
        # configured solver built *after* the rescale shows as well is not a matter of history
        # and keeps the mechanism name it has in the other kinds; only what separates the
        # solver built before from its twin built after is reported under a history name.

        # (a) reference system of the ACTUAL grid: solvers built after (controls) and before
        eta_f = {}
        for spec, r in runs_f.items():
            if spec[2] != "Spectral":
                continue
            eta_f[spec] = _refsys_eta(setup, r["vals"], pq)
            mon["hist_refsys_judged"] += 1
            if not (eta_f[spec] <= tol_ref):
                viol.append({"mech": "solution-violates-reference-system",
                             "msg": f"deltaF of a freshly built {spec[0]}/{spec[1]} spectral solver "
                                    f"has backward error {eta_f[spec]:.3e} > {tol_ref:.2e} against "
                                    f"the independently assembled system ({hist_desc})",
                             "data": {"eta": eta_f[spec], "tol": tol_ref}})
        eta_c = eta_f["Cardinal", "Cardinal", "Spectral"]
        obs["refsys_eta_control"] = eta_c
        for r, (bM, bN, mode) in zip(runs_e, case["early"]):
            if mode != "Spectral":
                continue
            eta = _refsys_eta(setup, r["vals"], pq)
            mon["hist_refsys_judged"] += 1
            stage_etas.append(eta)
            if not (eta <= tol_ref) and eta_f[bM, bN, mode] <= tol_ref:
                tag, kk = _attribute_stale_grid(setup, r["vals"], snaps, tol_ref)
                viol.append(_stale_violation(tag, kk, eta, tol_ref, len(steps) - 1, len(steps),
                                             bM, bN, cfg, steps[-1]))
        obs["refsys_eta_max"] = max(stage_etas) if stage_etas else None
        obs["refsys_units"] = (max(stage_etas + list(eta_f.values()))) / (EPS * M * M * (1.0 + 1.0 / amin))

        # (b) same configuration, solver built before vs after the rescale
        worst_tw, twin_bad = 0.0, set()
        for r, spec in zip(runs_e, case["early"]):
            tw = runs_f[tuple(spec)]
            err = float(np.abs(r["vals"] - tw["vals"]).max()) / fscale
            mon["hist_early_vs_fresh"] += 1
            worst_tw = max(worst_tw, err)
            if not (err <= tau):
                twin_bad.add(tuple(spec))
                viol.append({"mech": "solver-built-before-grid-rescale-differs-from-fresh-solver",
                             "msg": f"{spec[0]}/{spec[1]} {spec[2]}: deltaF of the solver that "
                                    f"existed before the rescale differs from an identically "
                                    f"configured solver constructed afterwards on the same grid "
                                    f"object by {err:.3e} (relative), tolerance {tau:.2e} = "
                                    f"{K_FWD:g}*eps*kappa_1; {hist_desc}",
                             "data": {"err": err, "tol": tau}})
        obs["early_vs_fresh"] = worst_tw
        # (b') the grid object's history must not matter either
        errp = float(np.abs(rp["vals"] - ref["vals"]).max()) / fscale
        mon["hist_fresh_grid_solver"] += 1
        obs["mutated_vs_fresh_grid"] = errp
        if not (errp <= tau):
            viol.append({"mech": "solution-on-rescaled-grid-differs-from-grid-built-with-same-parameters",
                         "msg": f"Cardinal/Cardinal deltaF on the grid rescaled in place vs on a "
                                f"grid constructed with the final parameters: {errp:.3e} "
                                f"(tolerance {tau:.2e}); {hist_desc}",
                         "data": {"err": errp, "tol": tau}})

        # (c) basis independence across the rescale + derived quantities
        worst_b, bad_hist, bad_basis = 0.0, {}, {}
        for r, (bM, bN, mode) in zip(runs_e, case["early"]):
            if mode != "Spectral":
                continue
            err = float(np.abs(r["vals"] - ref["vals"]).max()) / fscale
            mon["hist_basis_across_rescale"] += 1
            worst_b = max(worst_b, err)
            if not (err <= tau):
                ((bad_hist if (bM, bN, mode) in twin_bad else bad_basis))[f"{bM}/{bN}"] = err
        obs["basis_across_rescale"] = worst_b
        if bad_hist:
            viol.append({"mech": "deltaF-differs-between-bases-across-grid-rescale",
                         "msg": f"deltaF on the grid: solver(s) built before the rescale {bad_hist} vs "
                                f"Cardinal/Cardinal solver built after it (relative to max|deltaF|), "
                                f"tolerance {tau:.2e}; {hist_desc}",
                         "data": {"err": bad_hist, "tol": tau}})
        if bad_basis:
            # the twin built after the rescale agrees with the early solver: plain dependence
            # on the basis, named as in kind=basis
            axes = {a for k in bad_basis for a, f in (("position", not k.startswith("Card")),
                                                      ("momentum", not k.endswith("Cardinal"))) if f}
            single = [k for k in bad_basis if k.startswith("Card") or k.endswith("Cardinal")]
            which = "+".join(a for a in ("position", "momentum") if a in axes) if single \
                else "combined-only"
            viol.append({"mech": f"deltaF-depends-on-{which}-basis",
                         "msg": f"deltaF on the grid differs between basis choices {bad_basis} "
                                f"(relative to max|deltaF|, reference Cardinal/Cardinal), tolerance "
                                f"{tau:.2e}; the solver built after the rescale shows the same; "
                                f"{hist_desc}", "data": {"err": bad_basis, "tol": tau}})
        if not (bad_hist or bad_basis):
            q0, S = _sensitivities(ref, setup, rng)
            # history: every early solver against its twin built after the rescale
            v_hist = []
            for r, sp in zip(runs_e, case["early"]):
                _judge_derived(runs_f[tuple(sp)]["derived"], S, tau,
                               {"the same solver built before the rescale": r["derived"]},
                               mon, v_hist, "hist_derived",
                               lambda name: f"{_DER_MECH[name]}-differ-across-grid-rescale",
                               f"{sp[0]}/{sp[1]} {sp[2]} solver built after the rescale", hist_desc)
            viol.extend(v_hist)
            hist_names = {v["data"]["name"] for v in v_hist}
            # cross: solvers built before (any basis) vs Cardinal/Cardinal built after
            others = {f"{sp[0]}/{sp[1]} built before the rescale": r["derived"]
                      for r, sp in zip(runs_e, case["early"]) if sp[2] == "Spectral"}
            others["Cardinal/Cardinal on a grid built with the final parameters"] = rp["derived"]
            obs["derived"] = _judge_derived(
                q0, S, tau, others, mon, viol, "hist_derived",
                lambda name: (f"{_DER_MECH[name]}-differ-across-grid-rescale"
                              if name in hist_names else f"{_DER_MECH[name]}-depends-on-basis"),
                "Cardinal/Cardinal built after the rescale", hist_desc)

        # (d) polynomial backgrounds: closed-form exactness on the rescaled grid
        if cfg["bg"]["kind"] == "poly":
            k0 = next(i for i, sp in enumerate(case["early"]) if sp[2] == "Spectral")
            bM, bN, _ = case["early"][k0]
            gq = {q: pq[q] for q in ("dxidchi", "dpzdrz", "pz", "pp")}
            v_e, o_e = [], {}
            built = _guarded(earlies[k0].buildLinearEquations, viol, "hist phys")
            why = _phys_oracles(cfg, setup, earlies[k0], built, bM, bN, case["g"], gq, v_e, o_e, mon)
            mon["hist_exactness"] += int(why is None)
            obs["exact"] = o_e
            if v_e:
                v_t, s_t = [], runs_f[bM, bN, "Spectral"]["solver"]
                _phys_oracles(cfg, setup, s_t, _guarded(s_t.buildLinearEquations, viol, "hist phys"),
                              bM, bN, case["g"], gq, v_t, {}, collections.Counter())
                for v in v_e:
                    if not v_t:          # a solver built after the rescale is exact
                        v = dict(v, mech=v["mech"] + "-after-grid-rescale",
                                 msg=v["msg"] + " [" + hist_desc + "]")
                    viol.append(v)
            _collect(viol, None, "hist phys")
        return _finish(case, obs, viol, cls, None, True)


def _stale_violation(tag, kk, eta, tol, k, nsteps, bM, bN, cfg, stp):
    if tag is None:
        mech = "solver-built-before-grid-rescale-violates-system-of-current-grid"
        why = "no earlier state of the grid quantities explains it"
    else:
        mech = f"solver-uses-{tag}-of-grid-before-rescale"
        why = (f"it does satisfy the system assembled with the {tag} the grid object had "
               f"after {kk} of its rescales (0 = when the solver was constructed)")
    return {"mech": mech,
            "msg": f"{bM}/{bN} spectral solver constructed before {cfg['gridKind']}."
                   f"{'changeMomentumFalloffScale' if stp['op'] == 'mom' else 'changePositionFalloffScale'}"
                   f" (rescale {k + 1} of {nsteps}, {stp['which']}, "
                   f"{'near-identity' if stp['near'] else 'far'}): returned deltaF has backward "
                   f"error {eta:.3e} > {tol:.2e} against the independently assembled system of the "
                   f"current grid; {why}",
            "data": {"eta": eta, "tol": tol, "stale": tag, "stage": kk}}


def run_case(case):
    fn = {"basis": _case_basis, "conv": _case_conv, "phys": _case_phys, "hist": _case_hist}[case["kind"]]
    try:
        return fn(case)
    except CodeRaised as exc:
        viol = [{"mech": "boltzmann-solver-raises",
                 "msg": f"the real solver raised on an admissible configuration: "
                        f"{exc.__cause__!r} [{exc}]", "data": {}}]
        REC.active = False
        return _finish(case, {"raised": repr(exc.__cause__)[:300]}, viol,
                       case["kind"] + ":raised", None, True)


# ---------------------------------------------------------------------------- evidence
def _stats(xs):
    xs = np.asarray([x for x in xs if x is not None and np.isfinite(x)], dtype=float)
    if xs.size == 0:
        return {"count": 0}
    return {"count": int(xs.size), "median": float(np.median(xs)),
            "p99": float(np.percentile(xs, 99)), "max": float(xs.max())}


def summarize(results, tier):
    def num(x):
        return float(x) if isinstance(x, (int, float)) else float("nan")

    bas = [r["obs"] for r in results if r["case"]["kind"] == "basis" and not r["inconclusive"]]
    con = [r["obs"] for r in results if r["case"]["kind"] == "conv" and not r["inconclusive"]]
    phy = [r["obs"] for r in results if r["case"]["kind"] == "phys" and not r["inconclusive"]]
    his = [r["obs"] for r in results if r["case"]["kind"] == "hist" and not r["inconclusive"]]
    out = {
        "backward_error_over_n_eps": _stats([num(o.get("eta_max")) / (o["n"] * EPS)
                                             for o in bas if o.get("n")]),
        "kappa1": _stats([max(num(v) for v in o["kappa"].values()) for o in bas if "kappa" in o]),
        "basis_err_over_eps_kappa (tolerance at %g)" % K_FWD:
            _stats([num(o.get("basis_ratio")) for o in bas]),
        "unit_scaling_err_over_tol": _stats([num(o["scaling"]["err"]) / num(o["scaling"]["tol"])
                                             for o in bas if "scaling" in o]),
        "homogeneous_source_in_model_units (tolerance at %g)" % K_HOM:
            _stats([num(o["hom"]["model_units"]) for o in bas if "hom" in o]),
        "homogeneous_deltaF_ratio": _stats([num(o["hom"]["df_ratio"]) for o in bas if "hom" in o]),
        "homogeneous_fd_source_in_model_units": _stats([num(o["hom_fd"]["model_units"])
                                                        for o in bas if "hom_fd" in o]),
        "homogeneous_fd_deltaF_ratio": _stats([num(o["hom_fd"]["df_ratio"])
                                               for o in bas if "hom_fd" in o]),
        "eom_fd_err_over_tol": _stats([num(o["eom_fd"]["err"]) / num(o["eom_fd"]["tol"])
                                       for o in bas if "eom_fd" in o]),
        "derived_worst_ratio_to_tolerance": {
            name: _stats([num(o["derived"][name]["worst_ratio"]) for o in bas
                          if "derived" in o and name in o["derived"]])
            for name in _DER_MECH},
        "derived_judged_fraction": {
            name: (sum(o["derived"][name]["judged"] for o in bas if "derived" in o),
                   sum(o["derived"][name]["of"] for o in bas if "derived" in o))
            for name in _DER_MECH},
        "fd_convergence": {
            bg: {"order_source": _stats([num(o["order_S"]) for o in con if o["bg"] == bg]),
                 "order_liouville": _stats([num(o["order_L"]) for o in con if o["bg"] == bg]),
                 "finest_source": _stats([num(o["dS"][-1]) for o in con if o["bg"] == bg]),
                 "finest_liouville": _stats([num(o["dL"][-1]) for o in con if o["bg"] == bg]),
                 "example_series": next(({"Ms": o["Ms"], "dS": o["dS"], "dL": o["dL"]}
                                         for o in con if o["bg"] == bg), None)}
            for bg in BG_TYPES},
        "history": {
            "refsys_backward_error_in_model_units (tolerance at %g)" % K_REF:
                _stats([num(o.get("refsys_units")) for o in his]),
            "refsys_backward_error": _stats([num(o.get("refsys_eta_max")) for o in his]),
            "early_vs_fresh_solver_deltaF": _stats([num(o.get("early_vs_fresh")) for o in his]),
            "rescaled_vs_fresh_grid_deltaF": _stats([num(o.get("mutated_vs_fresh_grid")) for o in his]),
            "basis_across_rescale_err_over_eps_kappa": _stats(
                [num(o.get("basis_across_rescale")) / (EPS * num(o.get("kappa")))
                 for o in his if "basis_across_rescale" in o]),
            "derived_worst_ratio_to_tolerance": {
                name: _stats([num(o["derived"][name]["worst_ratio"]) for o in his
                              if "derived" in o and name in o["derived"]])
                for name in _DER_MECH},
            "exactness_after_rescale_ratio_to_tolerance": _stats(
                [max([num(o["exact"].get("source_ratio", 0.0))]
                     + [num(v) for v in o["exact"].get("operator_ratio", {}).values()])
                 for o in his if o.get("exact")]),
            "plans": dict(collections.Counter(o["plan"] for o in his)),
            "operations": dict(collections.Counter(op for o in his for op in o["ops"])),
        },
        "source_exactness_ratio_to_tolerance": _stats([num(o.get("source_ratio")) for o in phy]),
        "operator_exactness_ratio_to_tolerance": {
            k: _stats([num(o["operator_ratio"].get(k)) for o in phy if "operator_ratio" in o])
            for k in ("liouville", "collision", "total")},
        "tolerance_constants": {"K_BE": K_BE, "K_FWD": K_FWD, "K_DER": K_DER, "K_HOM": K_HOM,
                                "FD_MIN_ORDER": FD_MIN_ORDER, "FD_MAX_FINEST": FD_MAX_FINEST,
                                "K_SRC": K_SRC, "K_OP": K_OP, "K_REF": K_REF, "KAPPA_MAX": KAPPA_MAX},
    }
    return out
