"""C01 — the reported wall velocity is a bracketed zero of the total pressure, lies in the
allowed window, comes with the converged solution at that velocity; runaway / error
labelling; the result does not depend on earlier solver calls on the same manager.

Monitors (harness side, installed on the class for the duration of a case):
  * EOM.wallPressure      every call: vw, pressure, the returned objects, both success flags
  * EOM.solveWall         entry/exit markers so the trace of one solve can be cut out
Oracles: bracket reconstructed from the run's own trace; independent re-evaluation of the
pressure on a *fresh* solver at v* -+ 2 errTol; hydrodynamic window; bit-equality of the
returned temperatures / wall parameters / profiles with the last traced evaluation at v*;
tanh-ansatz consistency; runaway and error labelling; history independence by exact
equality of a second solve after other operations on the same manager.
"""
from __future__ import annotations

import copy
import math
import shutil

import numpy as np

from wgverif import env  # noqa: F401
from wgverif.checks import _manager as MG
from wgverif.models import potentials as P

PROPERTY = "C01"
RULE = ("zoo models poly1 / poly2 / bag1 (random parameters with spinodal margins, random unit "
        "factor) x grid sizes M in {20,25,30,40}, N in {5,7} x errTol in {1e-2,1e-3,3e-4} x "
        "pressRelErrTol in {0.1,0.01} x maxIterations in {20,40} x conserveEnergyMomentum x "
        "with/without out-of-equilibrium particles (synthetic relaxation-time collisions) x a "
        "history of 1-3 other operations (LTE speed, second solve with another thickness "
        "guess or off-equilibrium flipped, detonation search, set-up of another benchmark "
        "point and back) before the solve is repeated.  Non-trivial: a decided case with a "
        "finite velocity or a decided runaway; distinct by (model parameters, settings, "
        "history).")
ASSUMPTIONS = [
    "P_trace: both traced phase tables stay on their closed-form branch (otherwise the case "
    "is counted as inadmissible; that is C11's subject)",
    "a probe evaluation whose own success flags are false makes the sign test inconclusive",
    "history independence is judged by exact (bitwise) equality, single-threaded BLAS",
]
CASE_TIMEOUT = 1500
CHUNK = 1
FLOORS = {
    "quick": {"distinct_nontrivial": 12,
              "mon": {"wallPressure_calls": 150, "solveWall": 40, "probe_evaluations": 8,
                      "history_repeats": 12, "stationarity_probes": 6},
              "cls": {"finite-velocity": 6}},
    "thorough": {"distinct_nontrivial": 150,
                 "mon": {"wallPressure_calls": 2500, "solveWall": 500,
                         "probe_evaluations": 200, "history_repeats": 150},
                 "cls": {"finite-velocity": 100, "runaway": 10}},
}


def worker_init():
    env.import_wallgo()


# ------------------------------------------------------------------------- generation
def generate(tier, seed):
    rng = np.random.default_rng(100 + seed)
    n = 30 if tier == "quick" else 300
    cases = []
    for i in range(n):
        r = rng.random()
        fam = "poly1" if r < 0.5 else ("poly2" if r < 0.85 else "bag1")
        gen = "random_poly2_thick" if fam == "poly2" and rng.random() < 0.5 else "random_" + fam
        spec = getattr(P, gen)(rng)
        if fam == "poly2" and rng.random() < 0.5:
            spec["perm"] = [1, 0]
        offeq = bool(rng.random() < (0.15 if tier == "quick" else 0.25))
        cfg = {"M": int(rng.choice([20, 25, 30, 40])), "N": int(rng.choice([5, 7])),
               "errTol": float(rng.choice([1e-2, 1e-3, 3e-4])),
               "pressRelErrTol": float(rng.choice([0.1, 0.01])),
               "maxIterations": int(rng.choice([20, 40])),
               "conserveEnergyMomentum": bool(rng.random() < 0.8),
               "offEq": offeq, "wallThicknessGuess": float(rng.choice([5.0, 3.0, 8.0]))}
        if tier == "thorough" and rng.random() < 0.1:
            cfg["N"] = 11
        if offeq:
            cfg["N"] = 5 if tier == "quick" else cfg["N"]
            cfg["M"] = min(cfg["M"], 25)
            field = 0
            spec["particles"] = [{"name": "top", "coupling": float(rng.uniform(0.2, 0.6)),
                                  "field": field, "statistics": "Fermion", "dofs": 12}]
            cfg["kappa"] = float(rng.choice([0.1, 0.3, 1.0]))
        nops = int(rng.integers(1, 4))
        ops = [str(rng.choice(["lte", "solve-other-guess", "resetup", "deton", "repeat"]))
               for _ in range(nops)]
        if tier == "quick":
            ops = ops[:2]
        cases.append({"i": i, "spec": spec, "cfg": cfg, "ops": ops,
                      "other_seed": int(rng.integers(1 << 30)), "s": int(rng.integers(1 << 30))})
    return cases


# ---------------------------------------------------------------------------- monitors
class Trace:
    def __init__(self):
        self.calls = []
        self.solves = []
        self.depth = 0

    def install(self):
        from WallGo.equationOfMotion import EOM
        self.EOM = EOM
        self._wp = EOM.wallPressure
        self._sw = EOM.solveWall
        tr = self

        def wallPressure(eom, wallVelocity, wallParams, *a, **k):
            out = tr._wp(eom, wallVelocity, wallParams, *a, **k)
            tr.calls.append({"vw": float(wallVelocity), "P": float(out[0]), "out": out,
                             "okP": bool(eom.successWallPressure),
                             "okT": bool(eom.successTemperatureProfile),
                             "solve": len(tr.solves) if tr.depth else None})
            return out

        def solveWall(eom, vmin, vmax, *a, **k):
            tr.depth += 1
            first = len(tr.calls)
            try:
                res = tr._sw(eom, vmin, vmax, *a, **k)
            finally:
                tr.depth -= 1
            tr.solves.append({"vmin": float(vmin), "vmax": float(vmax), "first": first,
                              "last": len(tr.calls), "result": res, "eom": eom})
            return res

        EOM.wallPressure = wallPressure
        EOM.solveWall = solveWall

    def remove(self):
        self.EOM.wallPressure = self._wp
        self.EOM.solveWall = self._sw


def p_trace(manager, pot):
    """Both traced tables on their closed-form branch (value-level test, DESIGN 2.3-5)."""
    th = manager.thermodynamics
    for name, fe in (("high", th.freeEnergyHigh), ("low", th.freeEnergyLow)):
        Ts = np.asarray(fe._interpolationPoints, dtype=float)
        vals = np.asarray(fe._interpolationValues, dtype=float)
        # soft ends (the continuous family of minima passes to another closed-form
        # branch, e.g. phi=0 -> phi_- at T0 in poly1) are admissible continuations
        ex = getattr(pot, "exists_soft", pot.exists)
        vp = getattr(pot, "V_phase_soft", pot.V_phase)
        lo, hi = ex(name)
        if Ts.min() < lo * (1 - 1e-5) or Ts.max() > hi * (1 + 1e-5):
            return False, f"{name} table leaves the existence interval"
        Vex = vp(name, Ts)
        scale = np.abs(Vex) + 1e-300
        if np.max(np.abs(vals[:, -1] - Vex) / scale) > 1e-5:
            return False, f"{name} table off its branch"
    return True, ""


def digest(res):
    """Everything the property says must be identical between two solves."""
    def a(x):
        return None if x is None else np.asarray(x, dtype=float)
    d = {"wallVelocity": res.wallVelocity, "success": res.success,
         "solutionType": str(res.solutionType), "message": res.message,
         "wallVelocityLTE": res.wallVelocityLTE}
    for k in ("temperaturePlus", "temperatureMinus", "velocityJouguet"):
        d[k] = float(getattr(res, k)) if getattr(res, k, None) is not None else None
    for k in ("wallWidths", "wallOffsets", "velocityProfile", "fieldProfiles",
              "temperatureProfile"):
        d[k] = a(getattr(res, k, None))
    return d


def same(d1, d2):
    diffs = []
    for k in d1:
        x, y = d1[k], d2[k]
        if isinstance(x, np.ndarray) or isinstance(y, np.ndarray):
            if x is None or y is None or x.shape != y.shape or not np.array_equal(x, y):
                m = None
                if x is not None and y is not None and x.shape == y.shape:
                    m = float(np.max(np.abs(x - y)))
                diffs.append((k, m))
        elif x != y and not (isinstance(x, float) and isinstance(y, float)
                             and math.isnan(x) and math.isnan(y)):
            diffs.append((k, (x, y)))
    return diffs


# ------------------------------------------------------------------------------- case
def run_case(case):
    import WallGo
    from WallGo.results import ESolutionType
    spec, cfg = case["spec"], case["cfg"]
    rng = np.random.default_rng(case["s"])
    mon = {"wallPressure_calls": 0, "solveWall": 0, "probe_evaluations": 0,
           "history_repeats": 0, "detonation_searches": 0}
    key0 = f"{spec['family']}:{case['i']}"
    coll = None
    tr = Trace()
    viol, classes = [], []
    obs = {"spec": {k: v for k, v in spec.items() if k != "particles"}, "cfg": cfg,
           "ops": case["ops"]}
    try:
        try:
            b = MG.build(spec, cfg)
        except Exception as exc:
            return {"key": key0, "cls": "setup-failed", "nontrivial": False,
                    "obs": {**obs, "error": repr(exc)[:300]}, "viol": [], "mon": mon}
        manager, pot = b["manager"], b["pot"]
        ok, why = p_trace(manager, pot)
        if not ok:
            return {"key": key0, "cls": "inadmissible(P_trace)", "nontrivial": False,
                    "obs": {**obs, "why": why}, "viol": [], "mon": mon}
        if cfg["offEq"]:
            coll = MG.collisions_dir([p["name"] for p in spec["particles"]], cfg["N"],
                                     kappa=cfg["kappa"])
            import pathlib
            manager.setPathToCollisionData(pathlib.Path(coll))
        settings = MG.wall_settings(cfg)
        hyd = manager.hydrodynamics
        tr.install()

        # ------------------------------------------------ reference solve + oracles
        try:
            res0 = manager.solveWall(settings)
        except Exception as exc:
            return {"key": key0, "cls": "solve-raised", "nontrivial": False,
                    "obs": {**obs, "error": repr(exc)[:300]}, "viol": [], "mon": mon}
        mon["solveWall"] += 1
        sv = tr.solves[-1]
        calls = tr.calls[sv["first"]:sv["last"]]
        mon["wallPressure_calls"] += len(calls)
        errTol = cfg["errTol"]
        vtop = min(hyd.vJ, hyd.fastestDeflag())
        obs.update(result=MG.results_summary(res0), n_pressure_calls=len(calls),
                   window=[hyd.vMin, vtop], vJ=hyd.vJ)
        d0 = digest(res0)

        def fail(mech, msg, data=None):
            viol.append({"mech": mech, "msg": msg, "data": data or {}})

        # labelling
        if (res0.success is False) != (res0.solutionType == ESolutionType.ERROR):
            fail("error-labelling-inconsistent",
                 f"success={res0.success} but solutionType={res0.solutionType}")
        decided = False
        if res0.solutionType == ESolutionType.RUNAWAY:
            top = [c for c in calls if abs(c["vw"] - sv["vmax"]) < 1e-12]
            if res0.wallVelocity is not None:
                fail("runaway-with-velocity", f"RUNAWAY but wallVelocity={res0.wallVelocity}")
            if not res0.success:
                fail("runaway-not-success", "RUNAWAY with success False")
            if not top or not top[0]["P"] < 0:
                fail("runaway-without-negative-pressure-at-window-top",
                     f"RUNAWAY reported but traced P(top={sv['vmax']}) = "
                     f"{top[0]['P'] if top else None}")
            if abs(sv["vmax"] - vtop) > 1e-12:
                fail("searched-window-top-wrong", f"solveWall searched up to {sv['vmax']}, "
                     f"window top min(vJ, fastestDeflag()) = {vtop}")
            classes.append("runaway")
            decided = True
        elif res0.success and res0.wallVelocity is not None and np.isfinite(res0.wallVelocity):
            v = float(res0.wallVelocity)
            decided = True
            classes.append("finite-velocity")
            # --- window
            if not (hyd.vMin - 1e-12 <= v <= vtop + 1e-12):
                fail("velocity-outside-window", f"v*={v} outside [{hyd.vMin}, {vtop}]")
            if res0.solutionType != ESolutionType.DEFLAGRATION:
                fail("solution-type-wrong", f"{res0.solutionType} for v*={v} < vJ={hyd.vJ}")
            # --- bracket from the run's own trace (all evaluations but the final one)
            ev = calls[:-1] if len(calls) > 2 else calls
            lo = [c for c in ev if c["vw"] <= v + 1e-15 and c["P"] < 0]
            hi = [c for c in ev if c["vw"] >= v - 1e-15 and c["P"] >= 0]
            if not lo or not hi:
                fail("no-sign-change-in-trace", f"no traced bracket around v*={v}: "
                     f"{[(round(c['vw'], 6), c['P']) for c in ev]}")
            else:
                vlo = max(c["vw"] for c in lo)
                vhi = min(c["vw"] for c in hi)
                obs["trace_bracket"] = [vlo, vhi]
                if vhi - vlo > errTol * (1 + 1e-9) + 4e-16:
                    fail("bracket-wider-than-errTol", f"traced bracket [{vlo},{vhi}] around "
                         f"v*={v} is {vhi - vlo:.3e} wide > errTol={errTol}")
                if min(abs(v - vlo), abs(v - vhi)) > 1e-15:
                    fail("velocity-not-a-bracket-end", f"v*={v} is not an end of [{vlo},{vhi}]")
            # --- returned-with-it
            last = calls[-1]
            if last["vw"] != v:
                fail("results-not-from-final-evaluation-at-v",
                     f"last pressure evaluation at vw={last['vw']!r}, reported v*={v!r}")
            else:
                _, wp, bres, bbg, hres = last["out"]
                pairs = [("wallWidths", res0.wallWidths, wp.widths),
                         ("wallOffsets", res0.wallOffsets, wp.offsets),
                         ("temperatureProfile", res0.temperatureProfile, bbg.temperatureProfile),
                         ("velocityProfile", res0.velocityProfile, bbg.velocityProfile),
                         ("fieldProfiles", res0.fieldProfiles, bbg.fieldProfiles)]
                for name, x, y in pairs:
                    if not np.array_equal(np.asarray(x), np.asarray(y)):
                        fail("results-not-from-final-evaluation-at-v",
                             f"{name} differs from the converged evaluation at v*")
                        break
                if not (last["okP"] and last["okT"]):
                    fail("success-with-failed-flags", f"success reported but flags at the "
                         f"final evaluation: pressure {last['okP']}, profile {last['okT']}")
            hb = hyd.findHydroBoundaries(v)
            if float(res0.temperaturePlus) != float(hb[2]) or \
                    float(res0.temperatureMinus) != float(hb[3]):
                fail("temperatures-not-those-of-v",
                     f"T+-=({res0.temperaturePlus},{res0.temperatureMinus}) but "
                     f"findHydroBoundaries(v*) gives ({hb[2]},{hb[3]})")
            if res0.velocityJouguet != hyd.vJ:
                fail("vJ-not-hydrodynamics-vJ", f"{res0.velocityJouguet} vs {hyd.vJ}")
            # tanh ansatz: interior profile points
            try:
                th = manager.thermodynamics
                vl = np.asarray(th.freeEnergyLow(float(res0.temperatureMinus)).fieldsAtMinimum)
                vh = np.asarray(th.freeEnergyHigh(float(res0.temperaturePlus)).fieldsAtMinimum)
                z = sv["eom"].grid.xiValues
                L, dlt = np.asarray(res0.wallWidths), np.asarray(res0.wallOffsets)
                ans = vl + 0.5 * (vh - vl) * (1 + np.tanh(z[:, None] / L[None, :] + dlt[None, :]))
                fp = np.asarray(res0.fieldProfiles)[1:-1]
                scale = np.max(np.abs(vh - vl)) + 1e-300
                e = float(np.max(np.abs(fp - ans)) / scale)
                obs["tanh_residual"] = e
                # the returned profile is the one the last iteration started from, the
                # returned widths/offsets the ones it ended with: they differ by one
                # converged iteration step (observed <= 3e-6 of the vev difference over
                # 5 seeds); anything structural (wrong field, wrong evaluation) is O(0.1-1)
                if e > 5e-3:
                    fail("field-profile-not-tanh-of-returned-parameters",
                         f"field profile differs from the tanh ansatz of the returned "
                         f"widths/offsets by {e:.2e} of the vev difference")
            except Exception as exc:
                obs["tanh_error"] = repr(exc)[:120]
            # --- the returned widths/offsets minimise the action of the converged solution:
            # the real EOM.action, on the solve's own EOM (grid as left by the final
            # evaluation), must not be lower at widths changed by +-10 % or offsets by +-0.1
            try:
                eomf = sv["eom"]
                _, wpf, bresf, bbgf, _ = calls[-1]["out"]
                vl_ = manager.thermodynamics.freeEnergyLow(
                    float(res0.temperatureMinus)).fieldsAtMinimum
                vh_ = manager.thermodynamics.freeEnergyHigh(
                    float(res0.temperaturePlus)).fieldsAtMinimum
                Tprof = np.asarray(bbgf.temperatureProfile)[1:-1]
                d00 = bresf.Deltas.Delta00

                def act(wid, off):
                    return float(eomf.action(WallGo.WallParams(widths=np.array(wid, float),
                                                               offsets=np.array(off, float)),
                                             vl_, vh_, Tprof, d00))
                w0, o0 = np.array(wpf.widths, float), np.array(wpf.offsets, float)
                A0 = act(w0, o0)
                worst = 0.0
                where = None
                for i in range(len(w0)):
                    for f in (0.9, 1.1):
                        w1 = w0.copy(); w1[i] *= f
                        dA = act(w1, o0) - A0
                        if dA < worst:
                            worst, where = dA, f"width[{i}] x {f}"
                    if i > 0:
                        for dd in (-0.1, 0.1):
                            o1 = o0.copy(); o1[i] += dd
                            dA = act(w0, o1) - A0
                            if dA < worst:
                                worst, where = dA, f"offset[{i}] {dd:+}"
                mon["stationarity_probes"] = mon.get("stationarity_probes", 0) + 1
                # scale: the kinetic part of the action, sum (dphi)^2/(6 L)
                scaleA = float(np.sum((np.asarray(vh_) - np.asarray(vl_)) ** 2 / (6 * w0)))
                obs["action_drop"] = {"worst": worst, "where": where, "scale": scaleA}
                # a 10 % change of a width around a true minimum raises the action by
                # ~0.5 % of its kinetic part; a drop by more than 0.1 % of it means the
                # returned parameters are > 10 % away from the minimum in that direction
                if worst < -1e-3 * scaleA:
                    fail("returned-wall-parameters-do-not-minimise-the-action",
                         f"action of the converged solution is lower by {-worst:.3e} "
                         f"({-worst / scaleA:.2e} of its kinetic part) at {where} than at the "
                         f"returned widths {w0 * b['Tn']} /Tn, offsets {o0} (success reported)")
            except Exception as exc:
                obs["stationarity_error"] = repr(exc)[:150]
            # bounds
            Tn = b["Tn"]
            c = manager.config.configEOM
            if np.any(L * Tn <= c.wallThicknessBounds[0]) or \
                    np.any(L * Tn >= c.wallThicknessBounds[1]):
                fail("success-with-parameter-on-bound", f"widths*Tn={L * Tn}")
            # --- independent re-evaluation on a fresh solver
            k = 2.0
            signs = []
            probe_sides = (-1, 1)
            if not cfg["conserveEnergyMomentum"]:
                # with frozen temperature/velocity profiles (taken from the first iteration,
                # i.e. from the *initial* wall parameters) the pressure is not a function
                # of v_w alone, so a re-evaluation from other initial parameters is not an
                # oracle for the sign (seen: 4.5 errTol shift of the zero)
                probe_sides = ()
                classes.append("probe-skipped(frozen-profiles)")
                signs = [None, None]
            for sgn in probe_sides:
                vp_ = v + sgn * k * errTol
                vp_ = min(max(vp_, hyd.vMin * (1 + 1e-9)), vtop * (1 - 1e-12))
                if abs(vp_ - v) < 0.5 * errTol:
                    signs.append(None)       # window end too close: side not testable
                    continue
                solver = manager.setupWallSolver(settings)
                wp0 = WallGo.WallParams(widths=np.array(res0.wallWidths, dtype=float),
                                        offsets=np.array(res0.wallOffsets, dtype=float))
                out = tr._wp(solver.eom, vp_, wp0)
                mon["probe_evaluations"] += 1
                okp = solver.eom.successWallPressure and solver.eom.successTemperatureProfile
                signs.append((float(vp_), float(out[0]), bool(okp)))
            obs["probes"] = signs
            if signs[0] is not None and signs[0][2] and not signs[0][1] < 0:
                fail("pressure-not-negative-below-reported-velocity",
                     f"fresh solver: P({signs[0][0]:.6f}) = {signs[0][1]:.4e} >= 0 at "
                     f"v* - 2 errTol (v*={v:.6f}, errTol={errTol})")
            if signs[1] is not None and signs[1][2] and not signs[1][1] > 0:
                fail("pressure-not-positive-above-reported-velocity",
                     f"fresh solver: P({signs[1][0]:.6f}) = {signs[1][1]:.4e} <= 0 at "
                     f"v* + 2 errTol (v*={v:.6f}, errTol={errTol})")
            if any(s is not None and not s[2] for s in signs):
                classes.append("probe-flags-false")
            # attribute a failed sign test to its mechanism where the monitor can show it
            bad = [x for x in viol if x["mech"].startswith("pressure-not-")]
            if bad:
                try:
                    from wgverif.checks import _meta as MT
                    vv = [s_ for s_ in signs if s_ is not None][-1][0]
                    solver = manager.setupWallSolver(settings)
                    Ps, outs = [], []
                    for L0 in (cfg["wallThicknessGuess"], cfg["wallThicknessGuess"] / 2.5):
                        wpx = WallGo.WallParams(widths=np.full(pot.fieldCount, L0 / b["Tn"]),
                                                offsets=np.zeros(pot.fieldCount))
                        outs.append(tr._wp(solver.eom, vv, wpx))
                        Ps.append(float(outs[-1][0]))
                    rel_ = abs(Ps[0] - Ps[1]) / max(abs(Ps[0]), abs(Ps[1]), 1e-300)
                    obs["start_dependence"] = {"vw": vv, "P": Ps, "rel": rel_}
                    early = False
                    if rel_ > 3 * cfg["pressRelErrTol"]:
                        # the known finding is a start dependence between end states that are
                        # each a local minimum of the action; an end state held by something
                        # else (e.g. a bound) is a different mechanism and is not absorbed
                        ends = []
                        for oo in outs:
                            wdrop, where_, sc_ = MT.action_drop(solver.eom, manager.thermodynamics, oo)
                            ends.append({"drop_over_scale": wdrop / sc_, "where": where_,
                                         "stationary": bool(wdrop >= -1e-2 * sc_)})
                        obs["start_dependence"]["end_states"] = ends
                        early = all(e["stationary"] for e in ends)
                        if not early:
                            e_ = [e for e in ends if not e["stationary"]][0]
                            fail("wall-parameters-not-a-minimum-of-the-action",
                                 f"wallPressure({vv:.5f}) ends where the action is lower by "
                                 f"{-e_['drop_over_scale']:.2e} of its kinetic part at "
                                 f"{e_['where']}")
                    if rel_ > 3 * cfg["pressRelErrTol"] and early:
                        for x in bad:
                            x["msg"] += (f" | mechanism probe: wallPressure({vv:.5f}) = "
                                         f"{Ps[0]:.4e} / {Ps[1]:.4e} from two initial "
                                         f"thicknesses (rtol {cfg['pressRelErrTol']})")
                            x["mech"] = "pressure-iteration-start-dependent"
                except Exception as exc:
                    obs["start_dependence_error"] = repr(exc)[:100]
        elif res0.solutionType == ESolutionType.ERROR:
            classes.append("error-outcome")
            if res0.success:
                fail("error-labelling-inconsistent", "ERROR with success True")
        else:
            classes.append("other-outcome")

        # ------------------------------------------------ history, then repeat
        other = None
        for op in case["ops"]:
            try:
                if op == "lte":
                    manager.wallSpeedLTE()
                elif op == "solve-other-guess":
                    s2 = MG.wall_settings({**cfg, "wallThicknessGuess":
                                           cfg["wallThicknessGuess"] * 1.7,
                                           "offEq": False})
                    manager.solveWall(s2)
                    mon["solveWall"] += 1
                elif op == "repeat":
                    manager.solveWall(settings)
                    mon["solveWall"] += 1
                elif op == "deton":
                    manager.solveWallDetonation(settings)
                    mon["detonation_searches"] += 1
                elif op == "resetup":
                    orng = np.random.default_rng(case["other_seed"])
                    ospec = getattr(P, "random_" + spec["family"])(orng)
                    opot = P.build_potential(ospec)
                    omodel = P.ZooModel(opot, MG.particles_for(opot, spec)
                                        if spec.get("particles") else [])
                    # same particle content, other benchmark point
                    if spec.get("particles"):
                        ospec["particles"] = spec["particles"]
                        omodel = P.ZooModel(opot, MG.particles_for(opot, ospec))
                    ob = MG.build(ospec, cfg, setup=False)
                    try:
                        manager.registerModel(ob["model"])
                        manager.setupThermodynamicsHydrodynamics(ob["phaseInfo"], ob["scales"])
                    except Exception as exc:
                        # the other benchmark point may legitimately be rejected; what
                        # matters is that this point, set up again, gives the same result
                        obs.setdefault("op_errors", []).append(
                            f"resetup(other point rejected): {repr(exc)[:80]}")
                    manager.registerModel(b["model"])
                    manager.setupThermodynamicsHydrodynamics(b["phaseInfo"], b["scales"])
            except Exception as exc:
                obs.setdefault("op_errors", []).append(f"{op}: {repr(exc)[:120]}")
        try:
            res1 = manager.solveWall(settings)
            mon["solveWall"] += 1
            mon["history_repeats"] += 1
            diffs = same(d0, digest(res1))
            obs["repeat_equal"] = not diffs
            if diffs:
                fail("result-depends-on-call-history",
                     f"solve repeated after {case['ops']} differs in "
                     f"{[(k, v) for k, v in diffs][:4]} (first: v={d0['wallVelocity']!r}, "
                     f"second: v={res1.wallVelocity!r})", {"ops": case["ops"]})
        except Exception as exc:
            obs["repeat_error"] = repr(exc)[:200]
            fail("repeat-solve-raised", f"second solve after {case['ops']} raised "
                 f"{exc!r}"[:300])
        mon["wallPressure_calls"] = len(tr.calls)
        key = f"{key0}:{cfg['M']}:{cfg['N']}:{cfg['errTol']}:{cfg['offEq']}:{'-'.join(case['ops'])}"
        return {"key": key, "cls": classes or ["undecided"], "nontrivial": decided, "obs": obs,
                "viol": viol, "mon": mon}
    finally:
        try:
            tr.remove()
        except Exception:
            pass
        if coll:
            shutil.rmtree(coll, ignore_errors=True)
