"""C03 — the matched flow reaches T_n ahead of the wall; kappa is the kinetic-energy
integral of that same flow.

Oracle: wgverif.oracles.fluid (independent integrator in the similarity variable).
Observed on the real code: Hydrodynamics.findMatching(vw), Hydrodynamics.solveHydroShock
(vw, vp, Tp) at the returned state and at random admissible states, efficiencyFactor(vw).
"""
from __future__ import annotations

import math

import numpy as np

from wgverif import env  # noqa: F401
from wgverif.checks import _hydro as HY
from wgverif.models import eos as E
from wgverif.oracles import fluid as F

PROPERTY = "C03"
RULE = ("same equations of state and wall velocities as C02.  Per deflagration/hybrid "
        "matching: reference T_n' from the similarity-variable integrator started at the "
        "returned (v+,T+); per detonation: T+==T_n, v+==v_w exactly; direct comparison of "
        "solveHydroShock with the reference at the returned and at random (v+,T+); kappa "
        "against the reference kinetic-energy integral on objects built with rtol 1e-8. "
        "Non-trivial: a decided matching not produced by the template fallback on a "
        "non-template EOS; distinct by (EOS, setting, v_w, branch).")
ASSUMPTIONS = [
    "front located where mu(xi,v)*xi = cs^2(T) and crossed with energy-flux continuity, as "
    "the property states",
    "tolerance: |dT_n'/dv+| * 4(atol+rtol v+)  +  30*rtol*T_n (RK45 global error at the "
    "object's rtol)  +  4*atol  + 1e-9 T_n",
    "kappa tolerance is region dependent (Simpson on sparse adaptive nodes in the code): "
    "1e-2 relative for shock-only flows (observed max 1.8e-3), 5e-2 when a rarefaction wave contributes",
]
CASE_TIMEOUT = 240
CHUNK = 2
SETTINGS = [(1e-6, 1e-6), (1e-6, 1e-10), (1e-8, 1e-10)]
FLOORS = {
    "quick": {"distinct_nontrivial": 300,
              "mon": {"reference_integrations": 600, "solveHydroShock_direct": 300,
                      "efficiencyFactor": 60},
              "cls": {"deflagration": 80, "hybrid": 50, "detonation": 80}},
    "thorough": {"distinct_nontrivial": 8000,
                 "mon": {"reference_integrations": 16000, "solveHydroShock_direct": 8000,
                         "efficiencyFactor": 1500},
                 "cls": {"deflagration": 2000, "hybrid": 1200, "detonation": 2000}},
}


def worker_init():
    env.import_wallgo()


def generate(tier, seed):
    rng = np.random.default_rng(3000 + seed)
    n_eos, n_v = (150, 8) if tier == "quick" else (2500, 12)
    cases = []
    for i in range(n_eos):
        spec = E.random_spec(rng)
        cases.append({"i": i, "spec": spec, "setting": int(rng.integers(len(SETTINGS))),
                      "nv": n_v, "s": int(rng.integers(1 << 30))})
    return cases


def alpha_n(eos):
    Tn = eos.Tnucl
    H, L = eos.ref("H", Tn), eos.ref("L", Tn)
    return (H["e"] - L["e"] - (H["p"] - L["p"]) / L["csq"]) / (3 * H["w"]), H["w"]


def kappa_ref(probe, m, cls):
    eos = probe.eos
    aln, wn = alpha_n(eos)
    vw = m["vw"]
    I_sw = I_rw = 0.0
    if cls != "detonation":
        prof = F.shock_profile(eos.ref, vw, m["vp"], m["Tp"])
        I_sw = prof["I"]
    if cls != "deflagration":
        I_rw = F.rarefaction_I(eos.ref, vw, m["vm"], m["Tm"])
    return 4.0 * (I_sw + I_rw) / (vw ** 3 * aln * wn), I_sw, I_rw


def template_checks(probe, spec, vw, rtol, atol, Tn, mon, viol, row, ref, acc=False):
    """kappa and 'flow reaches T_n' for the closed-form template solver on a template-form
    EOS, each judged on the template's own matching.  acc=True builds a template object at
    rtol 1e-8 (kappa's quadrature error depends on the ODE node density)."""
    import WallGo
    tmpl = probe.tmpl
    if acc:
        tmpl = WallGo.HydrodynamicsTemplateModel(probe.eos, rtol=1e-8, atol=min(atol, 1e-10))
        rtol = 1e-8
    if vw < tmpl.vMin:
        return
    kt = float(tmpl.efficiencyFactor(vw))
    tmatch = tmpl.findMatching(vw)
    if tmatch is None or tmatch[0] is None or not np.all(np.isfinite(np.array(tmatch, float))):
        return
    mt = {"vw": vw, "vp": float(tmatch[0]), "vm": float(tmatch[1]), "Tp": float(tmatch[2]),
          "Tm": float(tmatch[3])}
    cls_t = probe.classify(mt) if vw <= tmpl.vJ else "detonation"
    k_ref, isw, irw = kappa_ref(probe, mt, cls_t)
    tolk = (3e-2 if cls_t != "deflagration" else 1e-2) * max(abs(k_ref), 1e-12)
    mon["template.efficiencyFactor"] = mon.get("template.efficiencyFactor", 0) + 1
    row["kappa_template_rel"] = (kt - k_ref) / max(abs(k_ref), 1e-300)
    if not np.isfinite(kt) or abs(kt - k_ref) > tolk:
        viol.append({"mech": f"template-kappa-not-the-flow-integral-{cls_t}",
                     "msg": f"template efficiencyFactor({vw:.6g})={kt:.8g} vs reference "
                     f"{k_ref:.8g} on its own matching ({cls_t}; shock part {isw:.3e}, "
                     f"rarefaction part {irw:.3e}; rel {(kt - k_ref) / k_ref:.2e}, tol "
                     f"{tolk / abs(k_ref):.0e})", "data": {"spec": spec, **mt}})
    if cls_t != "detonation":
        tn_t, _, prof_t = ref(vw, mt["vp"], mt["Tp"])
        tol_t = 30 * rtol * Tn + 4 * atol + 1e-6 * Tn
        mon["template_flow_checks"] = mon.get("template_flow_checks", 0) + 1
        if abs(tn_t - Tn) > tol_t:
            viol.append({"mech": f"template-flow-does-not-reach-Tn-{cls_t}",
                         "msg": f"template {cls_t} vw={vw:.6g} on {spec}: reference flow from "
                         f"(v+={mt['vp']:.6g}, T+={mt['Tp']:.6g}) arrives at T_n'={tn_t:.9g} "
                         f"vs T_n={Tn:.9g} (rel {(tn_t - Tn) / Tn:.2e})",
                         "data": {"spec": spec, **mt}})


def run_case(case):
    rng = np.random.default_rng(case["s"])
    spec = case["spec"]
    rtol, atol = SETTINGS[case["setting"]]
    mon = {"findMatching": 0, "reference_integrations": 0, "solveHydroShock_direct": 0,
           "efficiencyFactor": 0, "ref_form_xi": 0, "ref_form_lnv": 0, "ref_cap": 0}
    eos = E.build(spec)
    ok, why = E.admissible(eos)
    key0 = f"{spec['family']}:{case['i']}:{case['setting']}"
    if not ok:
        return {"key": key0, "cls": "inadmissible-eos", "nontrivial": False,
                "obs": {"why": why}, "viol": [], "mon": mon}
    try:
        probe = HY.HydroProbe(spec, rtol, atol)
    except Exception as exc:
        return {"key": key0, "cls": "construction-error", "nontrivial": False,
                "obs": {"error": repr(exc)[:200]}, "viol": [], "mon": mon}
    hyd = probe.hyd
    Tn = probe.Tn
    cb = math.sqrt(eos.ref("L", Tn)["csq"])
    vws, kinds = HY.velocities(rng, hyd, case["nv"], cb, probe)
    viol, classes, keys, rows = [], [], [], []
    is_template_form = spec["family"] in ("bag", "template")
    tol_ode = 30 * rtol * Tn + 4 * atol + 1e-9 * Tn

    def ref(vw, vp, Tp):
        tn, mom, prof = probe.ref_Tn(vw, vp, Tp)
        mon["reference_integrations"] += 1
        mon["ref_form_xi" if prof["form"] == "xi" else "ref_form_lnv"] += 1
        return tn, mom, prof

    for vw, kind in zip(vws, kinds):
        m = probe.matching(vw)
        mon["findMatching"] += 1
        row = {"vw": vw, "kind": kind, "branch": m["branch"]}
        rows.append(row)
        if m.get("none") or m["error"]:
            classes.append("no-solution")
            continue
        if not (0 < m["vp"] < 1 and 0 < m["vm"] < 1 and m["Tp"] > 0 and m["Tm"] > 0):
            classes.append("unphysical-numbers")
            continue
        cls = probe.classify(m)
        row["cls"] = cls
        fallback = m["branch"] == "template-fallback"
        if fallback and not is_template_form:
            classes.append("fallback-approximation")     # allowed approximation (C02 decides)
            continue
        # conservation across the wall is C02's subject; a matching that fails it (known
        # finding there) does not describe a flow and is not judged here
        r1, r2 = probe.flux_residuals(m["vp"], m["vm"], m["Tp"], m["Tm"])
        if cls != "detonation" and (abs(r1) > 1e-3 or abs(r2) > 1e-3):
            classes.append("not-a-matching(C02)")
            continue
        if cls == "detonation":
            if m["Tp"] != Tn or m["vp"] != vw:
                viol.append({"mech": "detonation-upstream-disturbed",
                             "msg": f"detonation vw={vw}: T+={m['Tp']} (T_n={Tn}), "
                             f"v+={m['vp']}", "data": {"spec": spec, **m}})
            classes.append(cls)
            keys.append(f"{key0}:{vw:.9f}:{cls}")
        else:
            try:
                tn, mom, prof = ref(vw, m["vp"], m["Tp"])
                # slope of T_n' in v+ through the real 2x2 matching (validated by fluxes)
                dv = 4 * (atol + rtol * m["vp"])
                h = max(dv, 1e-6 * m["vp"])
                tns = []
                for s in (-1, 1):
                    vp2 = m["vp"] + s * h
                    if not 0 < vp2 < min(vw, 1):
                        continue
                    o = hyd.matchDeflagOrHyb(vw, vp2)
                    if not hyd.success:
                        continue
                    o = [float(x) for x in o]
                    rr = probe.flux_residuals(*o)
                    if abs(rr[0]) > 1e-6 or abs(rr[1]) > 1e-6:
                        continue
                    tns.append((ref(vw, o[0], o[2])[0] - tn) / (s * h))
                slope = max([abs(x) for x in tns] or [0.0])
                if not tns:
                    classes.append("slope-probe-failed")
                    continue
            except F.RefCapExceeded:
                mon["ref_cap"] += 1
                classes.append("reference-cap")
                continue
            except F.RefFailed as exc:
                classes.append("reference-failed")
                row["ref_error"] = str(exc)[:100]
                continue
            tol = slope * dv + tol_ode
            err = tn - Tn
            row.update(Tn_ref_minus_Tn=err / Tn, tol=tol / Tn, form=prof["form"],
                       at_wall=prof["at_wall"], mom=mom)
            if abs(err) > tol:
                mech = f"flow-does-not-reach-Tn-{cls}"
                if m.get("n_hybr_failed", 0) > 0:
                    # some 2x2 matching solves failed *during* the root search over v+, so
                    # the searched function was discontinuous and brentq converged to the
                    # discontinuity instead of a root
                    mech = "vp-root-search-over-nonconverged-matchings"
                viol.append({"mech": mech,
                             "msg": f"{cls} vw={vw:.6g} on {spec['family']} (rtol={rtol}, "
                             f"atol={atol}): reference flow from (v+={m['vp']:.6g}, "
                             f"T+={m['Tp']:.6g}) arrives at T_n'={tn:.9g} vs T_n={Tn:.9g} "
                             f"(rel {err / Tn:.2e}, tol {tol / Tn:.1e}, form {prof['form']})",
                             "data": {"spec": spec, **m, **row}})
            if is_template_form and mom > 1e-9:
                viol.append({"mech": "front-momentum-flux-not-conserved",
                             "msg": f"constant-cs EOS, vw={vw}: momentum flux mismatch at the "
                             f"front {mom:.2e}", "data": row})
            classes.append(cls)
            if prof["at_wall"]:
                classes.append("front-at-wall")
            keys.append(f"{key0}:{vw:.9f}:{cls}")
            # ---- direct: the real shock integration against the reference
            for j in range(2):
                if j == 0:
                    vp_, Tp_ = m["vp"], m["Tp"]
                else:
                    csq = eos.ref("H", Tn)["csq"]
                    vp_ = float(rng.uniform(0.05, 0.98) * min(vw, csq / vw))
                    Tp_ = float(Tn * rng.uniform(0.9, 1.6))
                try:
                    t_code = float(hyd.solveHydroShock(vw, vp_, Tp_))
                    t_ref, _, pr = ref(vw, vp_, Tp_)
                except (F.RefCapExceeded, F.RefFailed):
                    continue
                except Exception as exc:
                    row.setdefault("shock_errors", []).append(repr(exc)[:80])
                    continue
                mon["solveHydroShock_direct"] += 1
                e = abs(t_code - t_ref)
                # solveHydroShock's answer is in units of its own T+; tolerance likewise
                tol_d = 30 * rtol * max(t_ref, Tp_) + 4 * atol + 1e-9 * Tp_
                row.setdefault("shock_direct", []).append(e / tol_d)
                if e > tol_d:
                    viol.append({"mech": "solveHydroShock-disagrees-with-reference",
                                 "msg": f"solveHydroShock(vw={vw:.6g}, vp={vp_:.6g}, "
                                 f"Tp={Tp_:.6g}) = {t_code:.9g}, reference {t_ref:.9g} "
                                 f"(diff {e:.2e} > tol {tol_d:.1e}; form {pr['form']})",
                                 "data": {"spec": spec}})
        # ---- efficiency factor (accurate objects only)
        if rtol > 1e-8 and is_template_form:
            try:
                template_checks(probe, spec, vw, rtol, atol, Tn, mon, viol, row, ref, acc=True)
            except (F.RefCapExceeded, F.RefFailed):
                pass
            except Exception as exc:
                row["template_error"] = repr(exc)[:100]
        if rtol <= 1e-8:
            try:
                k_code = float(hyd.efficiencyFactor(vw))
                k_ref, isw, irw = kappa_ref(probe, m, cls)
                mon["efficiencyFactor"] += 1
                near = cls != "deflagration"
                # the code applies Simpson's rule to the sparse adaptive ODE nodes; the
                # rarefaction profile has a square-root start at the wall (hybrids) or at
                # its tail, which limits that quadrature to ~1e-2 (observed max 1.6e-2 over
                # 5 seeds at rtol 1e-8); shock-only profiles reach 2e-4 (observed max)
                tolk = (3e-2 if near else 1e-2) * max(abs(k_ref), 1e-12)
                row.update(kappa=k_code, kappa_ref=k_ref,
                           kappa_rel=(k_code - k_ref) / max(abs(k_ref), 1e-300),
                           kappa_near=near)
                if not np.isfinite(k_code) or abs(k_code - k_ref) > tolk:
                    viol.append({"mech": f"kappa-not-the-flow-integral-{cls}",
                                 "msg": f"efficiencyFactor({vw:.6g})={k_code:.8g} vs "
                                 f"reference {k_ref:.8g} ({cls}; shock part {isw:.3e}, "
                                 f"rarefaction part {irw:.3e}; rel "
                                 f"{(k_code - k_ref) / k_ref:.2e}, tol "
                                 f"{tolk / abs(k_ref):.0e})", "data": {"spec": spec, **m}})
                if is_template_form:
                    template_checks(probe, spec, vw, rtol, atol, Tn, mon, viol, row, ref)
            except (F.RefCapExceeded, F.RefFailed):
                pass
            except Exception as exc:
                row["kappa_error"] = repr(exc)[:100]
    worst = max([abs(r["Tn_ref_minus_Tn"]) / r["tol"] for r in rows if "tol" in r] or [0])
    worstk = max([abs(r["kappa_rel"]) for r in rows if "kappa_rel" in r and
                  not r["kappa_near"]] or [0])
    worstk_near = max([abs(r["kappa_rel"]) for r in rows if "kappa_rel" in r and
                       r["kappa_near"]] or [0])
    worstd = max([max(r["shock_direct"]) for r in rows if "shock_direct" in r] or [0])
    obs = {"spec": spec, "rtol": rtol, "atol": atol, "vJ": hyd.vJ, "vMin": hyd.vMin,
           "rows": rows[:3], "worst_Tn_err_over_tol": worst, "worst_kappa_rel": worstk,
           "worst_kappa_rel_with_rarefaction": worstk_near, "worst_shock_direct_over_tol": worstd}
    return {"key": key0, "cls": classes or ["no-rows"], "nontrivial": bool(keys), "obs": obs,
            "viol": viol, "mon": mon, "keys": keys}


def summarize(results, tier):
    def col(k):
        return [r["obs"].get(k, 0) for r in results if not r["inconclusive"] and r["obs"].get(k)]
    out = {}
    for k in ("worst_Tn_err_over_tol", "worst_kappa_rel", "worst_kappa_rel_with_rarefaction",
              "worst_shock_direct_over_tol"):
        v = col(k)
        if v:
            out[k] = {"median": float(np.median(v)), "p99": float(np.percentile(v, 99)),
                      "max": float(np.max(v)), "n": len(v)}
    return {"residuals": out}
