"""C13 — out-of-equilibrium moments are the momentum integrals they are defined to be.

Monitor shape: the *real* ``BoltzmannSolver.getDeltas(deltaF)`` and the *real*
``EOM.deltaToTmunu`` are driven with supplied deviations / moments and what they return is
compared with closed forms that never touch WallGo's Polynomial, Grid or EOM arithmetic:

exactness   deviation built so that  (measure x weight x deltaf x sqrt-factors)  is a chosen
            polynomial Q(rho_z, rho_par) in the Lobatto exactness class; the moment must be
            pi^2 c00(Q) (Chebyshev coefficient by numpy.polynomial).  One target weight per
            (particle, z) row, so every call judges all four moments.
tmunu       T30, T33 of the real method vs plasma-frame T^{mu nu} written from the
            definition and boosted with an explicit 4x4 Lorentz matrix, summed over
            species with totalDOFs.  Fed with the moments getDeltas just returned and with
            synthetic one-hot / random moments.
linearity   Delta(a f + b g) = a Delta(f) + b Delta(g);  Delta(+-2^j f) = +-2^j Delta(f).
history     kind=hist: getDeltas on a solver, then the grid object it shares is rescaled in
            place (changeMomentumFalloffScale / changePositionFalloffScale, Grid3Scales with
            new tails / thickness / centre; far and near-identity factors; sequences; away
            and back), then getDeltas on the SAME solver.  Judged by the closed form for the
            momentum scale the grid has NOW; against a solver built after the rescale on the
            same grid object; against a solver built before the rescale and first used
            after it; against a solver on a grid constructed directly in the final state;
            and, across position-only steps, against its own earlier output for the same
            array.  Observed on the unchanged tree: all four comparisons bit-identical
            (quick seeds 0-4, thorough 0), closed-form residual <= 0.03 tolerance.
selftest    the construction itself against scipy dblquad / tplquad over physical momenta
            (a failure is a harness error -> run inconclusive, never a verdict on the code).
smooth      poly x exp(-E/T) deviations vs dblquad: recorded, never judged (DESIGN C13).

Tolerances are rounding bounds evaluated for the very case (see _exact_tol, _tm_tol and
the K of the linearity block); the constants count floating-point operations, they are
not fitted.  Observed on the unchanged tree (quick seeds 0-4, thorough seeds 0-1):
max residual/tolerance 0.04 (moments), 0.06 (T30/T33), 0.08 (additivity); Cardinal-input
moment error <= 4.5e-16 of the coefficient-norm scale.
"""
from __future__ import annotations

import math
import types

import numpy as np

from wgverif import env  # noqa: F401
from wgverif.oracles import c13_ref as R

PROPERTY = "C13"
RULE = ("exact: stratified over every odd N in 3..13 (plus 15, 19, 25 at small M) x M in {3,4,5,8,12,20} x grid class "
        "{Grid, Grid3Scales} x input basis (Cardinal/Chebyshev in z and in momenta) x "
        "momentum scale T0 = 10^U(-2,2) x mass profile {massless, const 0.1/1/10 T0, wall "
        "0->0.3..10 T0, two-field} x 1-3 species (both statistics, random DOFs) x boundary "
        "order at p_par=0 (k=1,2) x degree (exactly at the class boundary / random lower); "
        "the target moment rotates over (species, z) rows.  A case is non-trivial when at "
        "least one row has |pi^2 c00| > 1e-3 of the rounding scale (the comparison has "
        "content); distinct by (N, M, grid, bases, mass kind, decade of T0, species, k, "
        "degree mode, seed mod 16).  selftest/smooth cases never count as non-trivial.  "
        "hist: 7 plans (mom, mom-near, pos, pos-near, both, seq of 3-5 steps, mom-return) x N "
        "in 3..13 x M in {3,4,5,8} x grid class x basis pair x mass kind; 1-3 getDeltas calls "
        "before the first rescale, optional setBackground after each rescale, optional "
        "getDeltas at the intermediate stages; non-trivial when the grid's cached momenta / "
        "positions really moved and a judged row after the rescale has content.")
ASSUMPTIONS = [
    "Gauss-Chebyshev-Lobatto orthogonality (int T_m/sqrt(1-x^2) = pi delta_m0) and "
    "numpy.polynomial.chebyshev algebra are the reference for the exactness family",
    "the momentum map documented in Grid's docstring (rho_z = tanh(p_z/2T0), "
    "rho_par = 1-2exp(-p_par/T0)) is the specification of the compactification",
    "the deviation value at the kept p_par = 0 node is irrelevant (measure p_par dp_par "
    "vanishes there); it is filled with finite junk in half of the cases",
    "velocityMid is the plasma velocity in the wall frame (docstring of deltaToTmunu), so the "
    "plasma->wall boost is Lambda(+velocityMid)",
    "spacing='Uniform' grids are outside the quantifier (no Lobatto exactness)",
]
CASE_TIMEOUT = 600
CHUNK = 6
FLOORS = {
    "quick": {"distinct_nontrivial": 200,
              "mon": {"getDeltas_calls": 1200, "rows_Delta00": 400, "rows_Delta02": 400,
                      "rows_Delta20": 400, "rows_Delta11": 400, "tmunu_calls": 2000,
                      "tmunu_onehot": 800, "additivity_rows": 6000, "scaling_rows": 6000,
                      "oracle_selftest_ok": 9, "smooth_recorded": 4,
                      # history dimension (observed seeds 0-4: 108-111 rescales, 146-199 rows
                      # per moment, 151-161 stages, 4720-6208 / 3432-4040 / 1052-1544 rows)
                      "hist_rescale_calls": 80, "hist_grid_state_changed": 80,
                      "hist_stages_judged": 110, "hist_rows_Delta00": 100,
                      "hist_rows_Delta02": 100, "hist_rows_Delta20": 100,
                      "hist_rows_Delta11": 100, "hist_kept_vs_fresh_rows": 3300,
                      "hist_uncalled_vs_fresh_rows": 2400, "hist_fresh_grid_rows": 2400,
                      "hist_position_invariance_rows": 700},
              "cls": {"hist": 50, "hist:mom": 7, "hist:mom-near": 7, "hist:pos": 7,
                      "hist:pos-near": 7, "hist:both": 7, "hist:seq": 7, "hist:mom-return": 7,
                      "hist:Grid": 20, "hist:Grid3Scales": 20, "N=3": 20, "N=5": 20, "N=7": 20, "N=9": 20, "N=11": 20, "N=13": 20,
                      "basis=Cardinal/Cardinal": 50, "basis=Cardinal/Chebyshev": 30,
                      "basis=Chebyshev/Chebyshev": 15, "basis=Chebyshev/Cardinal": 15,
                      "grid=Grid": 60, "grid=Grid3Scales": 60, "mass=massless": 15,
                      "mass=const10": 10, "mass=wall10": 10, "deg=max": 80,
                      "rescale=momentum": 30, "rescale=position": 30}},
    "thorough": {"distinct_nontrivial": 3000,
                 "mon": {"getDeltas_calls": 18000, "rows_Delta00": 6000, "rows_Delta02": 6000,
                         "rows_Delta20": 6000, "rows_Delta11": 6000, "tmunu_calls": 30000,
                         "tmunu_onehot": 11000, "additivity_rows": 100000,
                         "scaling_rows": 100000, "oracle_selftest_ok": 22,
                         "smooth_recorded": 250,
                         "hist_rescale_calls": 600, "hist_grid_state_changed": 600,
                         "hist_stages_judged": 800, "hist_rows_Delta00": 750,
                         "hist_rows_Delta02": 750, "hist_rows_Delta20": 750,
                         "hist_rows_Delta11": 750, "hist_kept_vs_fresh_rows": 25000,
                         "hist_uncalled_vs_fresh_rows": 18000, "hist_fresh_grid_rows": 18000,
                         "hist_position_invariance_rows": 5000},
                 "cls": {"hist": 400, "hist:mom": 55, "hist:mom-near": 55, "hist:pos": 55,
                         "hist:pos-near": 55, "hist:both": 55, "hist:seq": 55,
                         "hist:mom-return": 55, "hist:Grid": 150, "hist:Grid3Scales": 150,
                         "N=3": 300, "N=5": 300, "N=7": 300, "N=9": 300, "N=11": 300,
                         "N=13": 300, "basis=Chebyshev/Chebyshev": 200,
                         "grid=Grid3Scales": 1000, "mass=massless": 300, "mass=const10": 150,
                         "mass=wall10": 150, "deg=max": 1000, "rescale=momentum": 500,
                         "rescale=position": 500}},
}

EPS = R.EPS
NS = (3, 5, 7, 9, 11, 13)
MS = (3, 4, 5, 8, 12, 20)
MASS_KINDS = ("massless", "const0.1", "const1", "const10", "wall0.3", "wall1", "wall3",
              "wall10", "twofield")
BASES = (("Cardinal", "Cardinal"), ("Cardinal", "Cardinal"), ("Cardinal", "Chebyshev"),
         ("Chebyshev", "Chebyshev"), ("Chebyshev", "Cardinal"), ("Cardinal", "Chebyshev"))
MAX_ROWS = 2000        # P*(M-1)*(N-1)^2: size of the operator getDeltas builds on the side


def worker_init():
    env.import_wallgo()


# ------------------------------------------------------------------------- generation
def _exact_case(rng, N, M, i):
    P = int(rng.choice((1, 1, 2, 3)))
    while P * (M - 1) * (N - 1) ** 2 > MAX_ROWS and P > 1:
        P -= 1
    bM, bN = BASES[int(rng.integers(len(BASES)))]
    kmax = 2 if 2 * N - 3 - 1 - 2 >= 0 else 1
    return {"kind": "exact", "N": int(N), "M": int(M),
            "grid": "Grid" if rng.random() < 0.5 else "Grid3Scales",
            "logT0": float(rng.uniform(-2, 2)), "mass": str(rng.choice(MASS_KINDS)),
            "P": P, "bM": bM, "bN": bN, "kpow": int(rng.integers(1, kmax + 1)),
            "deg": "max" if rng.random() < 0.5 else "rand",
            "junk": bool(rng.random() < 0.5), "beyond": bool(rng.random() < 0.25),
            "rescale": str(rng.choice(("none", "none", "momentum", "position"))),
            "s": int(rng.integers(1 << 30))}


HIST_PLANS = ("mom", "mom-near", "pos", "pos-near", "both", "seq", "mom-return")
HIST_NS = (3, 5, 7, 9, 11, 13)
HIST_MS = (3, 4, 5, 8)


def _hist_factor(rng, near, span):
    if near:
        return 1.0 + float(rng.choice([-1, 1])) * 10.0 ** float(rng.uniform(-6.0, -2.0))
    f = float(np.exp(rng.uniform(-np.log(span), np.log(span))))
    return f if abs(np.log(f)) > 0.05 else 1.3


def _hist_gen(rng, plan, j):
    """One history: a solver is used (getDeltas), the grid object it shares is rescaled in
    place (one or several steps), the same solver is used again.  Steps are stored in the
    case: 'mom' steps as the new momentum scale in units of the initial one, 'pos' steps as
    multipliers of the current tails / thickness and a shift of the centre in units of the
    current thickness (Grid uses the thickness multiplier only)."""
    N = int(HIST_NS[j % len(HIST_NS)])
    M = int(HIST_MS[(j // len(HIST_NS) + j) % len(HIST_MS)])
    c = _exact_case(rng, N, M, 0)
    c.update(kind="hist", rescale="none", beyond=False, plan=plan,
             grid="Grid" if (j // 2 + j) % 2 == 0 else "Grid3Scales")

    def mom(near, span, rel):
        return {"op": "mom", "near": bool(near), "rel": rel * _hist_factor(rng, near, span)}

    def pos(near, span):
        which = str(rng.choice(["tails", "thickness", "centre", "all"], p=[0.2, 0.3, 0.1, 0.4]))
        st = {"op": "pos", "near": bool(near), "which": which, "fIn": 1.0, "fOut": 1.0,
              "fL": 1.0, "dc": 0.0}
        if c["grid"] == "Grid":
            st.update(which="falloff", fL=_hist_factor(rng, near, span))
            return st
        if which in ("tails", "all"):
            st.update(fIn=_hist_factor(rng, near, span), fOut=_hist_factor(rng, near, span))
        if which in ("thickness", "all"):
            st["fL"] = _hist_factor(rng, near, span)
        if which in ("centre", "all"):
            st["dc"] = (_hist_factor(rng, True, span) - 1.0) if near else float(rng.uniform(-1, 1))
        return st

    if plan in ("mom", "mom-near"):
        steps = [mom(plan.endswith("near"), 5.0, 1.0)]
    elif plan in ("pos", "pos-near"):
        steps = [pos(plan.endswith("near"), 3.0)]
    elif plan == "mom-return":       # away and back to the very same scale
        steps = [mom(bool(rng.random() < 0.3), 5.0, 1.0),
                 {"op": "mom", "near": False, "rel": 1.0}]
    elif plan == "both":
        a, b = bool(rng.random() < 0.3), bool(rng.random() < 0.3)
        steps = [mom(a, 3.0, 1.0), pos(b, 3.0)]
        if rng.random() < 0.5:
            steps.reverse()
    else:
        steps, rel = [], 1.0
        for _ in range(int(rng.integers(3, 6))):
            if rng.random() < 0.55:
                steps.append(mom(bool(rng.random() < 0.4), 2.0, rel))
                rel = steps[-1]["rel"]
            else:
                steps.append(pos(bool(rng.random() < 0.4), 2.0))
        if not any(st["op"] == "mom" for st in steps):
            steps.append(mom(False, 2.0, rel))
    c.update(steps=steps,
             warm=int(rng.integers(1, 4)),          # getDeltas calls before the first rescale
             rebg=bool(rng.random() < 0.5),         # setBackground again after every rescale
             mid=bool(rng.random() < 0.6))          # getDeltas also at the intermediate stages
    return c


def generate(tier, seed):
    rng = np.random.default_rng(1300 + seed)
    cases = []
    reps = 4 if tier == "quick" else 60
    for N in NS:
        for M in MS:
            if (M - 1) * (N - 1) ** 2 > MAX_ROWS:
                continue
            for _ in range(reps):
                cases.append(_exact_case(rng, N, M, len(cases)))
    # beyond the design's 3..13: the quantifier says every odd N
    for N in (15, 19, 25):
        for M in (3, 4):
            for _ in range(1 if tier == "quick" else 12):
                c = _exact_case(rng, N, M, len(cases))
                c["P"] = 1
                cases.append(c)
    # stratification that the random draw above must not be trusted to deliver:
    # every (N, mass kind, basis pair) at least once per run
    for _ in range(1 if tier == "quick" else 8):
        for N in NS:
            for mk in MASS_KINDS:
                for bM, bN in sorted(set(BASES)):
                    if tier == "quick" and rng.random() < 0.35:
                        continue
                    c = _exact_case(rng, N, int(rng.choice((3, 4, 5, 8))), len(cases))
                    c.update(mass=mk, bM=bM, bN=bN)
                    cases.append(c)
    # oracle self-test: construction vs dblquad (8 cases) + stress tensor vs tplquad (1-2)
    nst = 1 if tier == "quick" else 2
    for rep in range(nst):
        for k in range(4):
            cases.append({"kind": "selftest", "what": "family", "N": 3, "k": k, "kpow": 1,
                          "logT0": float(rng.uniform(-2, 2)), "m": float(rng.choice((0., 1., 10.))),
                          "s": int(rng.integers(1 << 30))})
            cases.append({"kind": "selftest", "what": "family", "N": 5, "k": k, "kpow": 2,
                          "logT0": float(rng.uniform(-2, 2)), "m": float(rng.choice((0., 0.3, 3.))),
                          "s": int(rng.integers(1 << 30))})
        cases.append({"kind": "selftest", "what": "tmunu", "v": float(rng.uniform(0.2, 0.5)),
                      "logT0": float(rng.uniform(-1, 1)), "m": float(rng.uniform(0.3, 2.0)),
                      "s": int(rng.integers(1 << 30))})
    if tier == "thorough":
        for k in range(4):
            cases.append({"kind": "selftest", "what": "family", "N": 7, "k": k, "kpow": 2,
                          "logT0": float(rng.uniform(-2, 2)), "m": 1.0,
                          "s": int(rng.integers(1 << 30))})
    # smooth deviations: recorded only
    for j in range(6 if tier == "quick" else 300):
        cases.append({"kind": "smooth", "N": int(NS[j % len(NS)]),
                      "logT0": float(rng.uniform(-2, 2)),
                      "m": float(rng.choice((0.0, 0.3, 1.0, 3.0, 10.0))),
                      "pure": bool((j // len(NS)) % 2 == 0),
                      "s": int(rng.integers(1 << 30))})
    # history cases: own random stream, so that the older kinds keep their draws (and the
    # calibration notes that refer to them stay valid)
    hrng = np.random.default_rng(13100 + seed)
    nh = 9 if tier == "quick" else 70            # per plan
    for pi_, plan in enumerate(HIST_PLANS):
        for j in range(nh):
            cases.append(_hist_gen(hrng, plan, j + pi_))
    # cheap first, expensive spread out: shuffle deterministically so chunks are balanced
    order = rng.permutation(len(cases))
    cases = [cases[j] for j in order]
    for i, c in enumerate(cases):
        c["i"] = i
    return cases


# ------------------------------------------------------------------- building the rig
def _mass_params(kind, T0, rng):
    """msq(phi) = c0 + y0^2 phi0^2 + y1^2 phi1^2, in units set by T0."""
    if kind == "massless":
        return 0.0, (0.0, 0.0)
    if kind.startswith("const"):
        return (float(kind[5:]) * T0) ** 2, (0.0, 0.0)
    if kind.startswith("wall"):
        return 0.0, (float(kind[4:]) * T0, 0.0)
    return (0.2 * T0) ** 2, (float(rng.uniform(0.5, 3)) * T0, float(rng.uniform(0.5, 3)) * T0)


def _make_msq(c0, ys):
    def msq(fields):
        out = c0 + 0.0 * fields.getField(0)
        for i, y in enumerate(ys):
            if y != 0.0:
                out = out + (y * fields.getField(i)) ** 2
        return out
    return msq


def _build(case, rng):
    """Real Grid / BoltzmannSolver / Particle / background / synthetic CollisionArray and
    an EOM instance carrying only what deltaToTmunu reads (the real class, __init__ skipped:
    constructing Thermodynamics+Hydrodynamics is irrelevant to the method)."""
    import WallGo
    from WallGo import Fields
    from WallGo.collisionArray import CollisionArray
    from WallGo.equationOfMotion import EOM
    from WallGo.grid3Scales import Grid3Scales

    N, M, P = case["N"], case["M"], case["P"]
    T0 = 10.0 ** case["logT0"]
    L = float(10 ** rng.uniform(-1, 1)) / T0
    resc = case.get("rescale", "none")
    Tc = T0 * (float(rng.uniform(0.2, 5.0)) if resc == "momentum" else 1.0)   # construction scale
    # state: everything a grid of this case is made from (history cases move it in place
    # and rebuild fresh grids from it); ratio/smooth stay fixed over a grid's life
    state = {"L": L, "T": Tc, "tailIn": None, "tailOut": None, "c": 0.0}
    ratio = smooth = None
    if case["grid"] == "Grid":
        grid = WallGo.Grid(M, N, L, Tc)
        if resc == "position":
            grid.changePositionFalloffScale(L * float(rng.uniform(0.3, 3.0)))
    else:
        ratio, smooth = float(rng.uniform(0.3, 0.7)), float(rng.uniform(0.05, 0.2))
        tmin = L * (0.5 + smooth) / ratio          # constructor's documented lower bound
        state["tailIn"] = tmin * float(rng.uniform(1.2, 5))
        state["tailOut"] = tmin * float(rng.uniform(1.2, 5))
        grid = Grid3Scales(M, N, state["tailIn"], state["tailOut"],
                           L, Tc, ratioPointsWall=ratio, smoothing=smooth)
        if resc == "position":     # what EOM._updateGrid does between pressure evaluations
            grid.changePositionFalloffScale(tmin * float(rng.uniform(1.2, 5)),
                                            tmin * float(rng.uniform(1.2, 5)), L,
                                            float(rng.uniform(-1, 1)) * L)
    if resc == "momentum":
        grid.changeMomentumFalloffScale(T0)

    def new_grid(st):
        """A grid object constructed directly in state st (no history)."""
        if case["grid"] == "Grid":
            return WallGo.Grid(M, N, st["L"], st["T"])
        return Grid3Scales(M, N, st["tailIn"], st["tailOut"], st["L"], st["T"],
                           ratioPointsWall=ratio, smoothing=smooth, wallCenter=st["c"])
    chi = R.chi_nodes(M, endpoints=True)
    a0, a1 = rng.uniform(-0.15, 0.15, size=2)
    phi0 = 0.5 * (1.0 - chi) + a0 * np.sin(np.pi * chi)
    phi1 = 0.5 * (1.0 + chi) + a1 * np.sin(2 * np.pi * chi)
    fields = Fields(np.stack([phi0, phi1], axis=1))
    particles, specs = [], []
    for a in range(P):
        c0, ys = _mass_params(case["mass"], T0, rng)
        if a > 0:      # species differ in mass (same kind, 60-100 % of the nominal value)
            fa = float(rng.uniform(0.6, 1.0))
            c0, ys = c0 * fa * fa, (ys[0] * fa, ys[1] * fa)
        stat = "Fermion" if rng.random() < 0.5 else "Boson"
        dof = int(rng.integers(1, 25))
        particles.append(WallGo.Particle(f"p{a}", a, _make_msq(c0, ys), lambda f: 0.0 * f,
                                         stat, dof))
        specs.append({"c0": c0, "ys": ys, "stat": stat, "dof": dof})
    vmid = float(rng.uniform(0.02, 0.97))
    dv = float(rng.uniform(-1, 1)) * 0.5 * min(vmid, 0.99 - vmid)
    bg = WallGo.BoltzmannBackground(vmid, vmid + dv * chi, fields,
                                    T0 * float(rng.uniform(0.7, 1.3)) * (1.0 + 0.1 * chi))

    def solver(bM, bN, grid=grid):
        s = WallGo.BoltzmannSolver(grid, bM, bN, "Spectral")
        s.updateParticleList(particles)
        s.setBackground(bg)
        ca = CollisionArray(grid, bN, particles)
        shape = ca.polynomialData.coefficients.shape
        ca.polynomialData.coefficients = np.random.default_rng(case["s"] ^ 0x5A5A).normal(
            size=shape) * T0 ** -2
        s.setCollisionArray(ca)
        return s

    eom = object.__new__(EOM)
    eom.particles = particles
    eom.grid = grid
    msq_rows = np.array([sp["c0"] + (sp["ys"][0] * phi0[1:-1]) ** 2 + (sp["ys"][1] * phi1[1:-1]) ** 2
                         for sp in specs])
    return types.SimpleNamespace(grid=grid, T0=T0, fields=fields, particles=particles, specs=specs,
                                 vmid=vmid, bg=bg, solver=solver, eom=eom, msq=msq_rows,
                                 N=N, M=M, P=P, state=state, ratio=ratio, smooth=smooth,
                                 new_grid=new_grid)


def _mats(rig, bM, bN):
    rz, rp = R.nodes(rig.N)
    return (R.tbar_matrix(R.chi_nodes(rig.M), "z") if bM == "Chebyshev" else None,
            R.tbar_matrix(rz, "pz") if bN == "Chebyshev" else None,
            R.tbar_matrix(rp, "pp") if bN == "Chebyshev" else None)


def _get(deltas):
    return np.stack([np.asarray(getattr(deltas, nm).coefficients, dtype=float)
                     for nm in R.MOMENTS])          # (4, P, M-1)


# ------------------------------------------------------------------------- tolerances
def _exact_tol(Qb, c00, rz, rp, N):
    """Rounding bound for  sum_ij term_ij  with term_ij = Q_ij pi^2/(N(N-1)).

    Per term: ~14 roundings in the harness (deltaf = Q 4pi^2 E/(Jz Jp pp W sz sp)), ~22 in
    getDeltas (integrand, weight, two sqrt-weight factors), pairwise summation of <=144
    terms (~8) -> K0 = 44, rounded up to 48.  On top, factors whose *straightforward*
    evaluation is ill-conditioned at that node: 1-rz^2 (Jacobian, sqrt factor), arctanh near
    rz=0, log((1-rp)/2) near rp=-1, 1-rp^2; an implementation using the documented
    formulas literally may lose that many ulp there, each entering <= 4 times -> K1 = 4.
    Observed on the unchanged tree: max |err| = 0.7 eps x scale without the kappa part."""
    with np.errstate(divide="ignore"):
        kz = 1.0 / np.abs(rz) + 2.0 / (1.0 - rz ** 2)
        kp = 2.0 / (1.0 + rp) + 1.0 / (1.0 - rp ** 2)
    kp = np.where(np.isfinite(kp), kp, 0.0)       # rp=-1 node: term is identically zero
    kappa = kz[:, None] + kp[None, :]
    per = Qb * (48.0 + 4.0 * kappa) * (np.pi ** 2 / (N * (N - 1)))
    return EPS * (np.sum(per, axis=(-2, -1)) + 48.0 * np.abs(np.pi ** 2 * c00))


def _tm_tol(D, msq_i, dofs, v):
    """T30/T33: <= 14 products/sums per species on quantities bounded by
    gamma^2 (3|D20|+3|D02|+2|m^2 D00|+4|D11|); gamma^2 = 1/(1-v*v) itself carries a relative
    error v^2 gamma^2 eps/2 from the rounding of v*v.  K = 32 + v^2 gamma^2."""
    g2 = 1.0 / ((1.0 - v) * (1.0 + v))
    mag = sum(d * (3 * abs(D[2, a]) + 3 * abs(D[1, a]) + 2 * abs(msq_i[a] * D[0, a])
                   + 4 * abs(D[3, a])) for a, d in enumerate(dofs))
    return EPS * (32.0 + v * v * g2) * g2 * mag + 1e-300


# -------------------------------------------------------------------------- exact case
def _case_exact(case):
    import WallGo
    from WallGo.containers import BoltzmannDeltas
    rng = np.random.default_rng(case["s"])
    rig = _build(case, rng)
    N, M, P, T0 = rig.N, rig.M, rig.P, rig.T0
    bM, bN = case["bM"], case["bN"]
    cheb = "Chebyshev" in (bM, bN)
    sfx = "-chebyshev-input" if cheb else ""
    viol = []
    mon = {"getDeltas_calls": 0, "tmunu_calls": 0, "tmunu_onehot": 0, "additivity_rows": 0,
           "scaling_rows": 0}
    for nm in R.MOMENTS:
        mon["rows_" + nm] = 0
    cls = [f"N={N}", f"M={M}", f"basis={bM}/{bN}", f"grid={case['grid']}",
           f"mass={case['mass']}", f"deg={case['deg']}", f"kpow={case['kpow']}", f"P={P}",
           f"rescale={case.get('rescale', 'none')}"]
    obs = {"N": N, "M": M, "P": P, "T0": T0, "bases": [bM, bN], "grid": case["grid"],
           "mass": case["mass"], "vmid": rig.vmid}

    solver = rig.solver(bM, bN)
    twin = solver if not cheb else rig.solver("Cardinal", "Cardinal")
    mats = _mats(rig, bM, bN)

    last = {}

    def call(s, arr):
        mon["getDeltas_calls"] += 1
        last["Deltas"] = s.getDeltas(np.array(arr, dtype=float)).Deltas
        return _get(last["Deltas"])

    # ---- oracle side: nodes, momenta, weights (closed forms; nothing from rig.grid)
    rz, rp = R.nodes(N)
    pz = R.pz_of(rz, T0)[None, None, :, None]
    pp = R.pp_of(rp, T0)[None, None, None, :]
    energy = np.sqrt(rig.msq[:, :, None, None] + pz ** 2 + pp ** 2)
    target = (int(rng.integers(4)) + np.arange(P)[:, None] + np.arange(M - 1)[None, :]) % 4
    W = np.empty_like(energy)
    for k in range(4):
        W = np.where((target == k)[:, :, None, None], R.weight(k, pz, pp, energy), W)
    meas = (R.jac_z(rz, T0)[None, None, :, None] * R.jac_p(rp, T0)[None, None, None, :] * pp
            / (4.0 * np.pi ** 2 * energy))
    sq = np.sqrt(1.0 - rz ** 2)[None, None, :, None] * np.sqrt(1.0 - rp ** 2)[None, None, None, :]
    wq = meas * np.abs(W) * sq * (np.pi ** 2 / (N * (N - 1)))     # |quadrature weight| per node

    def family(qd):
        Q, Qb = R.eval_Q_nodes(qd, rz, rp)
        with np.errstate(all="ignore"):
            df = Q / (meas * W * sq)
        nb = np.abs(df[..., 1])
        df[..., 0] = rng.normal(size=nb.shape) * nb if case["junk"] else 0.0
        return df, Qb

    qd = R.build_Q(rng, N, (P, M - 1), case["kpow"], case["deg"])
    df, Qb = family(qd)
    obs["degQ"] = list(qd["degQ"])
    obs["class"] = [2 * N - 1, 2 * N - 3]
    extra_tol = np.zeros((P, M - 1))
    if cheb:
        inp, represented, absum = R.to_coefficients(df, mats)
        # what the coefficient array really encodes differs from df by the conversion
        # residual; the code's own basis change adds <= (terms) eps |M||c| per node
        nterms = 2 * (N - 1) + (M - 1) + 4
        extra_tol = np.sum(wq * (np.abs(represented - df) + nterms * EPS * absum), axis=(2, 3))
        obs["cheb_conv_resid"] = float(np.max(np.abs(represented - df)
                                              / (np.abs(df) + 1e-300)))
    else:
        inp, absum = df, np.abs(df)

    try:
        got = call(solver, inp)
        real_deltas = last["Deltas"]
    except Exception as exc:   # the real call failing on an admissible input
        viol.append({"mech": "getDeltas-raises" + sfx,
                     "msg": f"getDeltas raised {exc!r} (N={N}, M={M}, bases {bM}/{bN}, "
                            f"{case['grid']}, mass {case['mass']})", "data": obs})
        return {"key": f"raise:{case['i']}", "cls": cls, "nontrivial": True, "obs": obs,
                "viol": viol, "mon": mon}

    # ---- monitor 1: moments of the exactness family
    ref = np.pi ** 2 * qd["c00"]
    tol = _exact_tol(Qb, qd["c00"], rz, rp, N) + 2.0 * extra_tol
    scale = np.sum(Qb, axis=(-2, -1)) * np.pi ** 2 / (N * (N - 1))
    worst = {}
    content = False
    for a in range(P):
        for al in range(M - 1):
            k = int(target[a, al])
            nm = R.MOMENTS[k]
            err = abs(got[k, a, al] - ref[a, al])
            mon["rows_" + nm] += 1
            ratio = float(err / tol[a, al]) if np.isfinite(err) else math.inf
            content = content or abs(ref[a, al]) > 1e-3 * scale[a, al]
            if ratio > worst.get(nm, (-1,))[0]:
                worst[nm] = (ratio, a, al, float(got[k, a, al]), float(ref[a, al]),
                             float(tol[a, al]))
    obs["exact_err_over_tol"] = {nm: w[0] for nm, w in worst.items()}
    sel = np.take_along_axis(got, target[None], axis=0)[0]
    obs["exact_err_over_scale_max"] = float(np.max(np.abs(sel - ref) / scale))
    for nm, w in worst.items():
        if not w[0] <= 1.0:
            viol.append({"mech": f"{nm}-differs-from-defined-momentum-integral" + sfx,
                         "msg": f"{nm} at (species {w[1]}, z index {w[2]}) = {w[3]!r}, closed form "
                                f"pi^2 c00 = {w[4]!r}: |diff| = {abs(w[3] - w[4]):.3e} = "
                                f"{w[0]:.3g} x rounding bound {w[5]:.3e}  (N={N}, M={M}, "
                                f"T0={T0:.3g}, mass {case['mass']}, bases {bM}/{bN}, "
                                f"{case['grid']}, deg Q={qd['degQ']}, k={case['kpow']})",
                         "data": {"got": w[3], "want": w[4], "tol": w[5]}})

    # ---- recorded only: one degree beyond the class in rho_z (oracle sharpness)
    if case["beyond"] and not cheb:
        dzmax, dpmax = R.class_degrees(N, case["kpow"])
        qb = R.build_Q(rng, N, (P, M - 1), case["kpow"], "max", dz=dzmax + 1, dp=dpmax)
        dfb, Qbb = family(qb)
        gb = call(solver, dfb)
        sel = np.take_along_axis(gb, target[None], axis=0)[0]
        obs["beyond_class_err_over_scale"] = float(np.max(
            np.abs(sel - np.pi ** 2 * qb["c00"]) / (np.sum(Qbb, axis=(-2, -1)) * np.pi ** 2
                                                     / (N * (N - 1)))))

    # ---- monitor 2: stress tensor, real moments then synthetic ones
    dofs = [sp["dof"] for sp in rig.specs]
    interior = rig.fields[1:-1]

    class _D:      # carrier with the attribute the method reads
        def __init__(self, arr):
            self.coefficients = arr

    def tm_check(D, idx, label, deltas=None):
        if deltas is None:
            deltas = BoltzmannDeltas(Delta00=_D(D[0]), Delta02=_D(D[1]), Delta20=_D(D[2]),
                                     Delta11=_D(D[3]))
        t30, t33 = rig.eom.deltaToTmunu(idx, interior.getFieldPoint(idx), rig.vmid, deltas)
        mon["tmunu_calls"] += 1
        tw = sum(d * R.tmunu_wall(D[0, a, idx], D[1, a, idx], D[2, a, idx], D[3, a, idx],
                                  rig.msq[a, idx], rig.vmid) for a, d in enumerate(dofs))
        tl = _tm_tol(D[:, :, idx], rig.msq[:, idx], dofs, rig.vmid)
        out = []
        for nm, g_, w_ in (("T30", float(np.asarray(t30).ravel()[0]), float(tw[3, 0])),
                           ("T33", float(np.asarray(t33).ravel()[0]), float(tw[3, 3]))):
            r_ = abs(g_ - w_) / tl
            out.append(r_)
            if not r_ <= 1.0:
                viol.append({"mech": f"deltaToTmunu-{nm}-differs-from-boosted-definition",
                             "msg": f"{nm} = {g_!r}, Lambda T_plasma Lambda^T gives {w_!r} "
                                    f"(|diff| {abs(g_ - w_):.3e} = {r_:.3g} x bound {tl:.3e}) "
                                    f"at z index {idx}, v={rig.vmid:.4f}, {label} moments, "
                                    f"m^2={rig.msq[:, idx].tolist()}, dofs={dofs}",
                             "data": {"D": D[:, :, idx].tolist(), "v": rig.vmid}})
        return max(out)

    tmw = 0.0
    if np.all(np.isfinite(got)):
        for idx in range(M - 1):
            tmw = max(tmw, tm_check(got, idx, "getDeltas", real_deltas))
    for hot in range(4):
        D = np.zeros((4, P, M - 1))
        D[hot] = 10.0 ** rng.uniform(-3, 3, size=(P, M - 1)) * rng.choice((-1.0, 1.0), size=(P, M - 1))
        tmw = max(tmw, tm_check(D, int(rng.integers(M - 1)), f"one-hot {R.MOMENTS[hot]}"))
        mon["tmunu_onehot"] += 1
    D = rng.normal(size=(4, P, M - 1)) * 10.0 ** rng.uniform(-2, 2, size=(4, 1, 1))
    tmw = max(tmw, tm_check(D, int(rng.integers(M - 1)), "random"))
    obs["tmunu_err_over_tol"] = tmw

    # ---- monitor 3: linearity
    gshape = df.shape
    g_in = rng.normal(size=gshape) * 10.0 ** rng.uniform(-1, 1, size=gshape) * float(np.median(absum[absum > 0]) if np.any(absum > 0) else 1.0)
    g_abs = np.array(R.apply_mats(g_in, mats, absval=True), dtype=float) if cheb else np.abs(g_in)
    ca, cb = (float(x) for x in rng.normal(size=2) * 10.0 ** rng.uniform(-2, 2, size=2))
    j2 = int(rng.integers(-8, 9))
    sc2 = float(-(2.0 ** j2) if rng.random() < 0.5 else 2.0 ** j2)
    try:
        dg = call(solver, g_in)
        dsum = call(solver, ca * inp + cb * g_in)
        dscl = call(solver, sc2 * inp)
        sf = call(twin, absum)
        sg = call(twin, g_abs)
    except Exception as exc:
        viol.append({"mech": "getDeltas-raises" + sfx, "msg": f"getDeltas raised {exc!r} on a "
                     "linear combination of accepted inputs", "data": obs})
        dg = None
    if dg is not None and np.all(np.isfinite(got)):
        def lscale(s_):   # sum |w||f| per moment; |E pz| <= (E^2+pz^2)/2 for Delta11
            return np.stack([s_[0], s_[1], s_[2], 0.5 * (s_[1] + s_[2])])
        # roundings: combination 3, chain ~25, summation (N-1)^2 worst case, basis change
        K = 30.0 + (N - 1) ** 2 + (2 * (N - 1) + (M - 1) if cheb else 0)
        tol_add = K * EPS * (abs(ca) * lscale(sf) + abs(cb) * lscale(sg)) + 1e-300
        r_add = np.abs(dsum - (ca * got + cb * dg)) / tol_add
        mon["additivity_rows"] += int(r_add.size)
        obs["additivity_err_over_tol"] = float(np.nanmax(r_add))
        if not np.all(r_add <= 1.0):
            k, a, al = np.unravel_index(np.nanargmax(np.where(np.isfinite(r_add), r_add, np.inf)),
                                        r_add.shape)
            viol.append({"mech": "moments-not-additive" + sfx,
                         "msg": f"{R.MOMENTS[k]}(a f + b g) = {dsum[k, a, al]!r} but a D(f) + b D(g)"
                                f" = {(ca * got + cb * dg)[k, a, al]!r} (a={ca:.4g}, b={cb:.4g}; "
                                f"{r_add[k, a, al]:.3g} x rounding bound; N={N}, bases {bM}/{bN})",
                         "data": {}})
        tol_s = K * EPS * abs(sc2) * lscale(sf) + 1e-300
        r_s = np.abs(dscl - sc2 * got) / tol_s
        mon["scaling_rows"] += int(r_s.size)
        obs["scaling_bit_exact"] = bool(np.array_equal(dscl, sc2 * got))
        if not np.all(r_s <= 1.0):
            k, a, al = np.unravel_index(np.nanargmax(np.where(np.isfinite(r_s), r_s, np.inf)),
                                        r_s.shape)
            viol.append({"mech": "moments-not-homogeneous" + sfx,
                         "msg": f"{R.MOMENTS[k]}({sc2} f) = {dscl[k, a, al]!r} but {sc2} D(f) = "
                                f"{(sc2 * got)[k, a, al]!r} ({r_s[k, a, al]:.3g} x rounding bound)",
                         "data": {}})
    if not np.all(np.isfinite(got)):
        viol.append({"mech": "moments-nonfinite" + sfx,
                     "msg": f"getDeltas returned non-finite moments for finite input (N={N}, "
                            f"bases {bM}/{bN}, mass {case['mass']})", "data": {}})

    key = (f"exact:{N}:{M}:{case['grid']}:{bM}/{bN}:{case['mass']}:{int(math.floor(case['logT0']))}"
           f":{P}:{case['kpow']}:{case['deg']}:{case['s'] % 16}")
    return {"key": key, "cls": cls, "nontrivial": bool(content), "obs": obs, "viol": viol,
            "mon": mon}


# ------------------------------------------------------------------------ kind = hist
class _Oracle:
    """Closed-form side of the exactness family for momentum scale T (nothing from the
    grid object): nodes, momenta, measure, the four weights, quadrature weights."""

    def __init__(self, rig, T, offset):
        N, M, P = rig.N, rig.M, rig.P
        self.N = N
        self.rz, self.rp = R.nodes(N)
        pz = R.pz_of(self.rz, T)[None, None, :, None]
        pp = R.pp_of(self.rp, T)[None, None, None, :]
        energy = np.sqrt(rig.msq[:, :, None, None] + pz ** 2 + pp ** 2)
        self.target = (offset + np.arange(P)[:, None] + np.arange(M - 1)[None, :]) % 4
        self.Wk = [R.weight(k, pz, pp, energy) for k in range(4)]
        W = np.empty_like(energy)
        for k in range(4):
            W = np.where((self.target == k)[:, :, None, None], self.Wk[k], W)
        self.W = W
        self.meas = (R.jac_z(self.rz, T)[None, None, :, None]
                     * R.jac_p(self.rp, T)[None, None, None, :] * pp / (4.0 * np.pi ** 2 * energy))
        self.sq = (np.sqrt(1.0 - self.rz ** 2)[None, None, :, None]
                   * np.sqrt(1.0 - self.rp ** 2)[None, None, None, :])
        self.q0 = self.meas * self.sq * (np.pi ** 2 / (N * (N - 1)))
        self.wq = self.q0 * np.abs(W)

    def family(self, qd, rng, junk):
        Q, Qb = R.eval_Q_nodes(qd, self.rz, self.rp)
        with np.errstate(all="ignore"):
            df = Q / (self.meas * self.W * self.sq)
        nb = np.abs(df[..., 1])
        df[..., 0] = rng.normal(size=nb.shape) * nb if junk else 0.0
        return df, Qb

    def lscale(self, absvals):
        """sum_nodes |quadrature weight x W_k| |f| for the four moments: (4, P, M-1).  The
        p_par = 0 node carries zero weight (pp = 0 in the measure)."""
        return np.stack([np.sum(self.q0 * np.abs(self.Wk[k]) * absvals, axis=(2, 3))
                         for k in range(4)])


def _case_hist(case):
    """getDeltas on a solver; the shared grid object is rescaled in place; getDeltas again
    on the SAME solver.  Judged by the closed form for the grid as it is now, against a
    solver built after the rescale on the same grid object, against a solver built before
    the rescale but never used, and (final stage) against a solver on a grid constructed
    directly in the final state."""
    rng = np.random.default_rng(case["s"])
    rig = _build(case, rng)
    N, M, P = rig.N, rig.M, rig.P
    bM, bN = case["bM"], case["bN"]
    cheb = "Chebyshev" in (bM, bN)
    sfx = "-chebyshev-input" if cheb else ""
    plan = case["plan"]
    viol = []
    mon = {"getDeltas_calls": 0, "hist_rescale_calls": 0, "hist_grid_state_changed": 0,
           "hist_kept_vs_fresh_rows": 0, "hist_uncalled_vs_fresh_rows": 0,
           "hist_fresh_grid_rows": 0, "hist_position_invariance_rows": 0,
           "hist_stages_judged": 0}
    for nm in R.MOMENTS:
        mon["hist_rows_" + nm] = 0
    cls = ["hist", "hist:" + plan, "hist:" + case["grid"], f"hist:basis={bM}/{bN}",
           f"hist:N={N}"]
    st = dict(rig.state)
    T_init = st["T"]
    obs = {"N": N, "M": M, "P": P, "T_init": T_init, "bases": [bM, bN], "grid": case["grid"],
           "mass": case["mass"], "plan": plan, "ops": [], "stages": []}
    mats = _mats(rig, bM, bN)
    grid = rig.grid

    def call(s, arr):
        mon["getDeltas_calls"] += 1
        return _get(s.getDeltas(np.array(arr, dtype=float)).Deltas)

    def desc():
        return (f"{case['grid']} rescaled in place {obs['ops']} after getDeltas had been called on "
                f"the solver; N={N}, M={M}, bases {bM}/{bN}, mass {case['mass']}, "
                f"initial momentum scale {T_init:.4g}")

    kept = rig.solver(bM, bN)          # used before and after
    idle = rig.solver(bM, bN)          # built before, first used after the last rescale
    K = 30.0 + (N - 1) ** 2 + (2 * (N - 1) + (M - 1) if cheb else 0)   # as in the linearity block
    prev = None
    content = False
    changed_any = False

    def to_input(nodal):
        if cheb:
            inp, represented, absum = R.to_coefficients(nodal, mats)
            return inp, represented, absum
        return nodal, nodal, np.abs(nodal)

    def stage(idx, last):
        nonlocal prev, content
        T = st["T"]
        orc = _Oracle(rig, T, int(rng.integers(4)))
        qd = R.build_Q(rng, N, (P, M - 1), case["kpow"], case["deg"])
        df, Qb = orc.family(qd, rng, case["junk"])
        inp, represented, absum = to_input(df)
        extra = np.zeros((P, M - 1))
        if cheb:
            nterms = 2 * (N - 1) + (M - 1) + 4
            extra = np.sum(orc.wq * (np.abs(represented - df) + nterms * EPS * absum), axis=(2, 3))
        ref = np.pi ** 2 * qd["c00"]
        tol = _exact_tol(Qb, qd["c00"], orc.rz, orc.rp, N) + 2.0 * extra
        scale = np.sum(Qb, axis=(-2, -1)) * np.pi ** 2 / (N * (N - 1))
        g_in = rng.normal(size=df.shape) * 10.0 ** rng.uniform(-1, 1, size=df.shape) \
            * float(np.median(absum[absum > 0]) if np.any(absum > 0) else 1.0)
        g_abs = np.array(R.apply_mats(g_in, mats, absval=True), dtype=float) if cheb else np.abs(g_in)
        after = idx > 0
        record = {"stage": idx, "T": T}

        solvers = [("kept", kept)]
        fresh = rig.solver(bM, bN)
        solvers.append(("fresh", fresh))
        if last:
            solvers.append(("idle", idle))
            solvers.append(("freshgrid", rig.solver(bM, bN, grid=rig.new_grid(st))))
        out = {}
        for name, s_ in solvers:
            try:
                out[name] = (call(s_, inp), call(s_, g_in))
            except Exception as exc:
                viol.append({"mech": "getDeltas-raises" + sfx,
                             "msg": f"getDeltas raised {exc!r} on the {name} solver at stage {idx} "
                                    f"({desc()})", "data": {}})
                return
        mon["hist_stages_judged"] += 1

        # (a) closed form, every solver
        fails = {}
        for name, (got, _) in out.items():
            worst = {}
            for a in range(P):
                for al in range(M - 1):
                    k = int(orc.target[a, al])
                    nm = R.MOMENTS[k]
                    err = abs(got[k, a, al] - ref[a, al])
                    ratio = float(err / tol[a, al]) if np.isfinite(err) else math.inf
                    if name == "kept" and after:
                        mon["hist_rows_" + nm] += 1
                        content = content or abs(ref[a, al]) > 1e-3 * scale[a, al]
                    if ratio > worst.get(nm, (-1,))[0]:
                        worst[nm] = (ratio, a, al, float(got[k, a, al]), float(ref[a, al]),
                                     float(tol[a, al]))
            record[name + "_err_over_tol"] = max(w[0] for w in worst.values())
            fails[name] = {nm: w for nm, w in worst.items() if not w[0] <= 1.0}
        for name, bad in fails.items():
            for nm, w in bad.items():
                if name in ("kept", "idle") and after and not fails["fresh"].get(nm):
                    mech = f"{nm}-after-in-place-grid-rescale-differs-from-defined-momentum-integral"
                    who = ("the solver used before the rescale" if name == "kept"
                           else "the solver built before the rescale and first used after it")
                elif name == "freshgrid" and not fails["fresh"].get(nm):
                    continue        # judged under (c): the grid objects differ
                elif name in ("kept", "idle", "freshgrid") and fails["fresh"].get(nm):
                    continue        # not a matter of history: reported once, for the fresh solver
                else:
                    mech = f"{nm}-differs-from-defined-momentum-integral"
                    who = "a solver built on the grid object in its present state"
                viol.append({"mech": mech + sfx,
                             "msg": f"{nm} from {who} at (species {w[1]}, z index {w[2]}) = {w[3]!r}, "
                                    f"closed form pi^2 c00 for the present momentum scale "
                                    f"{T:.6g} = {w[4]!r}: |diff| = {abs(w[3] - w[4]):.3e} = "
                                    f"{w[0]:.3g} x rounding bound {w[5]:.3e}; stage {idx}; {desc()}",
                             "data": {"got": w[3], "want": w[4], "tol": w[5], "T": T}})

        # (b) same numbers whoever computes them: kept / idle vs fresh, all four moments,
        #     exactness input and a generic one
        tol_f = K * EPS * orc.lscale(absum) + 1e-300
        tol_g = K * EPS * orc.lscale(g_abs) + 1e-300
        for name in ("kept", "idle"):
            if name not in out or not after:
                continue
            r_ = max(float(np.nanmax(np.abs(out[name][0] - out["fresh"][0]) / tol_f)),
                     float(np.nanmax(np.abs(out[name][1] - out["fresh"][1]) / tol_g)))
            finite = all(np.all(np.isfinite(x)) for x in out[name] + out["fresh"])
            mon["hist_kept_vs_fresh_rows" if name == "kept" else "hist_uncalled_vs_fresh_rows"] += \
                2 * int(out[name][0].size)
            record[name + "_vs_fresh_over_tol"] = r_
            if not (r_ <= 1.0 and finite):
                d = np.abs(out[name][1] - out["fresh"][1]) / tol_g
                k, a, al = np.unravel_index(np.nanargmax(np.where(np.isfinite(d), d, np.inf)), d.shape)
                viol.append({"mech": ("moments-of-solver-used-before-grid-rescale-differ-from-fresh-solver"
                                      if name == "kept" else
                                      "moments-of-solver-built-before-grid-rescale-differ-from-fresh-solver")
                                     + sfx,
                             "msg": f"same grid object, same deviation: {R.MOMENTS[k]} = "
                                    f"{float(out[name][1][k, a, al])!r} from the solver "
                                    f"{'used' if name == 'kept' else 'built'} before the rescale, "
                                    f"{float(out['fresh'][1][k, a, al])!r} from a solver built after it "
                                    f"(ratio {out[name][1][k, a, al] / out['fresh'][1][k, a, al]:.9g}; "
                                    f"{r_:.3g} x rounding bound); stage {idx}; {desc()}",
                             "data": {"ratio_over_tol": r_}})

        # (c) the grid object's own history must not matter
        if "freshgrid" in out:
            r_ = max(float(np.nanmax(np.abs(out["freshgrid"][0] - out["fresh"][0]) / tol_f)),
                     float(np.nanmax(np.abs(out["freshgrid"][1] - out["fresh"][1]) / tol_g)))
            mon["hist_fresh_grid_rows"] += 2 * int(out["fresh"][0].size)
            record["freshgrid_vs_fresh_over_tol"] = r_
            if not r_ <= 1.0:
                viol.append({"mech": "moments-depend-on-grid-object-history" + sfx,
                             "msg": f"moments on the rescaled grid object differ from those on a grid "
                                    f"constructed directly with the same parameters {st} "
                                    f"({r_:.3g} x rounding bound); {desc()}",
                             "data": {"ratio_over_tol": r_}})

        # (d) a position-only rescale leaves the moments of a given array alone (field values
        #     are given on the nodes; nothing in the definition refers to xi)
        if prev is not None and prev["T"] == T:
            again = call(kept, prev["inp"])
            r_ = float(np.nanmax(np.abs(again - prev["got"]) / prev["tol"]))
            mon["hist_position_invariance_rows"] += int(again.size)
            record["position_invariance_over_tol"] = r_
            if not r_ <= 1.0:
                viol.append({"mech": "moments-changed-by-position-rescale" + sfx,
                             "msg": f"same solver, same array, same momentum scale: moments moved by "
                                    f"{r_:.3g} x rounding bound across a position-only rescale; "
                                    f"{desc()}", "data": {"ratio_over_tol": r_}})
        prev = {"T": T, "inp": inp, "got": out["kept"][0], "tol": tol_f}
        obs["stages"].append(record)

    # ---- stage 0: the solver is used on the grid as constructed
    for _ in range(case["warm"] - 1):
        call(kept, rng.normal(size=(P, M - 1, N - 1, N - 1)))
    stage(0, False)
    steps = case["steps"]
    for j, step in enumerate(steps):
        before = (np.array(grid.pzValues), np.array(grid.ppValues), np.array(grid.xiValues))
        if step["op"] == "mom":
            st["T"] = T_init * step["rel"]
            grid.changeMomentumFalloffScale(st["T"])
            obs["ops"].append(f"momentum->{st['T']:.6g}")
        else:
            st["L"] *= step["fL"]
            if case["grid"] == "Grid":
                grid.changePositionFalloffScale(st["L"])
                obs["ops"].append(f"position->{st['L']:.6g}")
            else:
                st["tailIn"] *= step["fIn"]
                st["tailOut"] *= step["fOut"]
                st["c"] += step["dc"] * st["L"]
                # admissible domain: tails > L (1/2 + smoothing) / ratio (10 % margin)
                bound = 1.1 * st["L"] * (0.5 + rig.smooth) / rig.ratio
                st["tailIn"] = max(st["tailIn"], bound)
                st["tailOut"] = max(st["tailOut"], bound)
                grid.changePositionFalloffScale(st["tailIn"], st["tailOut"], st["L"], st["c"])
                obs["ops"].append(f"position({step['which']})->tails {st['tailIn']:.4g}/"
                                  f"{st['tailOut']:.4g}, L {st['L']:.4g}, c {st['c']:.4g}")
        mon["hist_rescale_calls"] += 1
        moved = (not np.array_equal(before[0], grid.pzValues) or not np.array_equal(before[1], grid.ppValues)
                 if step["op"] == "mom" else not np.array_equal(before[2], grid.xiValues))
        mon["hist_grid_state_changed"] += int(bool(moved))
        changed_any = changed_any or bool(moved)
        if case["rebg"]:
            kept.setBackground(rig.bg)
            idle.setBackground(rig.bg)
        last = j == len(steps) - 1
        if last or case["mid"]:
            stage(j + 1, last)

    key = (f"hist:{plan}:{N}:{M}:{case['grid']}:{bM}/{bN}:{case['mass']}:{P}:{case['kpow']}"
           f":{case['s'] % 16}")
    return {"key": key, "cls": cls, "nontrivial": bool(content and changed_any), "obs": obs,
            "viol": viol, "mon": mon}


# ------------------------------------------------------------------- oracle self-tests
def _case_selftest(case):
    rng = np.random.default_rng(case["s"])
    T0 = 10.0 ** case["logT0"]
    msq = (case["m"] * T0) ** 2
    mon = {"oracle_selftest_ok": 0}
    if case["what"] == "family":
        qd = R.build_Q(rng, case["N"], (), case["kpow"], "max")
        fn = R.family_function(qd, case["k"], msq, T0)
        val, est = R.dblquad_moment(fn, case["k"], msq, T0, epsrel=1e-8)
        ref = float(np.pi ** 2 * qd["c00"])
        sc = float(np.pi ** 2 * np.sum(np.abs(qd["q"])))
        rel = abs(val - ref) / sc
        obs = {"what": "family vs dblquad", "N": case["N"], "k": case["k"], "dblquad": val,
               "pi2c00": ref, "rel_to_coeff_norm": rel, "quad_err_est": est}
        ok = rel < 1e-6
    else:
        v = case["v"]

        def fn(pz, pp, en):
            return (1.0 + 0.4 * pz / T0 + 0.2 * pz * pz / T0 ** 2 + 0.1 * pp / T0) * math.exp(-en / T0)
        d = [R.dblquad_moment(fn, k, msq, T0, epsrel=1e-9, cut=32.0)[0] for k in range(4)]
        tpl = R.tmunu_plasma(d[0], d[1], d[2], d[3], msq)
        tw = R.lorentz_z(v) @ tpl @ R.lorentz_z(v).T
        worst = 0.0
        comp = {}
        for mu, nu in ((0, 0), (0, 3), (3, 3), (1, 1)):
            val, _ = R.tmunu_direct_3d(fn, msq, mu, nu, 30.0 * T0)
            comp[f"pl{mu}{nu}"] = [val, float(tpl[mu, nu])]
            worst = max(worst, abs(val - tpl[mu, nu]) / abs(tpl[0, 0]))
        Lw = 30.0 * T0 / (math.sqrt((1 - v) / (1 + v)))
        for mu, nu in ((3, 0), (3, 3)):
            val, _ = R.tmunu_direct_3d(fn, msq, mu, nu, Lw, v=v)
            comp[f"wall{mu}{nu}"] = [val, float(tw[mu, nu])]
            worst = max(worst, abs(val - tw[mu, nu]) / abs(tw[0, 0]))
        obs = {"what": "T^{mu nu} construction vs 3-D Cartesian integral", "v": v,
               "components": comp, "worst_rel": worst}
        ok = worst < 1e-5
    if ok:
        mon["oracle_selftest_ok"] = 1
        return {"key": f"selftest:{case['i']}", "cls": "selftest:" + case["what"],
                "nontrivial": False, "obs": obs, "viol": [], "mon": mon}
    return {"key": f"selftest:{case['i']}", "cls": "selftest-failed", "nontrivial": False,
            "obs": obs, "viol": [], "mon": mon,
            "inconclusive": "oracle self-test failed (harness error): " + str(obs)[:200]}


# ----------------------------------------------------------- smooth deviations (record)
def _case_smooth(case):
    rng = np.random.default_rng(case["s"])
    c = dict(case, kind="exact", M=3, P=1, grid="Grid", mass="massless", bM="Cardinal",
             bN="Cardinal")
    rig = _build(c, rng)
    T0 = rig.T0
    msq = (case["m"] * T0) ** 2
    # replace the particle's mass by a constant one
    import WallGo
    part = WallGo.Particle("p0", 0, _make_msq(msq, (0.0, 0.0)), lambda f: 0.0 * f, "Boson", 1)
    rig.particles[:] = [part]
    solver = rig.solver("Cardinal", "Cardinal")
    # pure: (1 + pz/T0) exp(-E/T0), the equilibrium-like shape; else random-sign polynomial
    co = np.array([1.0, 1.0, 0.0, 0.0]) if case.get("pure") else rng.normal(size=4)

    def fn(pz, pp, en):
        return (co[0] + co[1] * pz / T0 + co[2] * pp / T0 + co[3] * pz * pz / T0 ** 2) \
            * math.exp(-en / T0)
    pz = np.asarray(rig.grid.pzValues)[None, None, :, None]
    pp = np.asarray(rig.grid.ppValues)[None, None, None, :]
    en = np.sqrt(msq + pz ** 2 + pp ** 2) + np.zeros((1, rig.M - 1, 1, 1))
    df = (co[0] + co[1] * pz / T0 + co[2] * pp / T0 + co[3] * pz ** 2 / T0 ** 2) * np.exp(-en / T0)
    try:
        got = _get(solver.getDeltas(df).Deltas)[:, 0, 0]
    except Exception as exc:
        return {"key": f"smooth:{case['i']}", "cls": "smooth-raise", "nontrivial": True, "obs": {},
                "viol": [{"mech": "getDeltas-raises", "msg": f"getDeltas raised {exc!r} on a smooth "
                          f"finite deviation (N={case['N']}, Cardinal bases)", "data": {}}],
                "mon": {"getDeltas_calls": 1}}
    rel = {}
    for k, nm in enumerate(R.MOMENTS):
        ref, _ = R.dblquad_moment(fn, k, msq, T0, epsrel=1e-9, cut=40.0)
        rel[nm] = float(abs(got[k] - ref) / (abs(ref) + 1e-300))
    return {"key": f"smooth:{case['i']}", "cls": f"smooth-recorded:N={case['N']}",
            "nontrivial": False, "obs": {"N": case["N"], "m_over_T0": case["m"],
                                         "pure": bool(case.get("pure")),
                                         "rel_diff_vs_dblquad": rel},
            "viol": [], "mon": {"smooth_recorded": 1, "getDeltas_calls": 1}}


def run_case(case):
    if case["kind"] == "exact":
        return _case_exact(case)
    if case["kind"] == "selftest":
        return _case_selftest(case)
    if case["kind"] == "hist":
        return _case_hist(case)
    return _case_smooth(case)


# --------------------------------------------------------------------------- evidence
def summarize(results, tier):
    def stats(vals):
        v = np.array([x for x in vals if x is not None and np.isfinite(x)], dtype=float)
        if not v.size:
            return {"n": 0}
        return {"n": int(v.size), "median": float(np.median(v)), "p99": float(np.percentile(v, 99)),
                "max": float(v.max())}
    ex = [r for r in results if r["case"].get("kind") == "exact" and not r["inconclusive"]]
    out = {"residual_over_tolerance": {}}
    for nm in R.MOMENTS:
        out["residual_over_tolerance"][nm] = stats(
            [r["obs"].get("exact_err_over_tol", {}).get(nm) for r in ex])
    for nm in R.MOMENTS:
        out["residual_over_tolerance"][nm + "_chebyshev_input"] = stats(
            [r["obs"].get("exact_err_over_tol", {}).get(nm) for r in ex
             if "Chebyshev" in r["obs"].get("bases", [])])
    out["residual_over_tolerance"]["tmunu"] = stats([r["obs"].get("tmunu_err_over_tol") for r in ex])
    out["residual_over_tolerance"]["additivity"] = stats(
        [r["obs"].get("additivity_err_over_tol") for r in ex])
    out["exact_err_over_scale"] = {
        "cardinal": stats([r["obs"].get("exact_err_over_scale_max") for r in ex
                           if "Chebyshev" not in r["obs"].get("bases", [])]),
        "chebyshev_input": stats([r["obs"].get("exact_err_over_scale_max") for r in ex
                                  if "Chebyshev" in r["obs"].get("bases", [])])}
    sb = [r["obs"].get("scaling_bit_exact") for r in ex if "scaling_bit_exact" in r["obs"]]
    out["scaling_bit_exact_fraction"] = (sum(bool(x) for x in sb) / len(sb)) if sb else None
    out["beyond_class_err_over_scale"] = stats(
        [r["obs"].get("beyond_class_err_over_scale") for r in ex])
    sm = {}
    for r in results:
        if r["case"].get("kind") == "smooth" and not r["inconclusive"]:
            for nm, v in r["obs"]["rel_diff_vs_dblquad"].items():
                lab = f"N={r['obs']['N']}" + (":(1+pz/T)exp(-E/T)" if r["obs"].get("pure")
                                              else ":random-poly x exp(-E/T)")
                sm.setdefault(lab, {}).setdefault(nm, []).append(v)
    out["smooth_recorded_not_judged"] = {n: {nm: stats(v) for nm, v in d.items()}
                                         for n, d in sorted(sm.items())}
    out["oracle_selftests"] = [r["obs"] for r in results if r["case"].get("kind") == "selftest"][:12]
    cov = {}
    for r in ex:
        o = r["obs"]
        cov[f"N={o['N']}|{o['bases'][0]}/{o['bases'][1]}|{o['mass']}"] = 1
    out["covered_N_x_basis_x_mass"] = len(cov)
    out["T0_decades"] = sorted({int(math.floor(r["case"]["logT0"])) for r in ex})
    hs = [r for r in results if r["case"].get("kind") == "hist" and not r["inconclusive"]]
    hist = {}
    for nm in ("kept_err_over_tol", "fresh_err_over_tol", "idle_err_over_tol",
               "freshgrid_err_over_tol", "kept_vs_fresh_over_tol", "idle_vs_fresh_over_tol",
               "freshgrid_vs_fresh_over_tol", "position_invariance_over_tol"):
        hist[nm] = stats([stg.get(nm) for r in hs for stg in r["obs"].get("stages", [])
                          if stg["stage"] > 0 or not nm.startswith("kept")])
    hist["momentum_scale_ratio_per_history"] = stats(
        [max(stg["T"] for stg in r["obs"]["stages"]) / min(stg["T"] for stg in r["obs"]["stages"])
         for r in hs if r["obs"].get("stages")])
    out["history_residual_over_tolerance"] = hist
    return out
