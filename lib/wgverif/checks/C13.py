"""C13 — out-of-equilibrium moments are the momentum integrals they are defined to be.

Monitor shape: the *real* ``BoltzmannSolver.getDeltas(deltaF)`` and the *real*
``EOM.deltaToTmunu`` are driven with supplied deviations / moments and what they return is
compared with closed forms that never touch WallGo's Polynomial, Grid or EOM arithmetic:

exactness   deviation built so that  (measure x weight x deltaf x sqrt-factors)  is a chosen
            polynomial Q(rho_z, rho_par) in the Lobatto exactness class; the moment must be
            pi^2 c00(Q) (Chebyshev coefficient by numpy.polynomial).  One target weight per
            (particle, z) row, so every call judges all four moments.
tmunu       T30, T33 of the real method vs plasma-frame T^{mu nu} written from the
            definition and boosted with an explicit 4x4 Lorentz matrix, summed over
            species with totalDOFs.  Fed with the moments getDeltas just returned and with
            synthetic one-hot / random moments.
linearity   Delta(a f + b g) = a Delta(f) + b Delta(g);  Delta(+-2^j f) = +-2^j Delta(f).
selftest    the construction itself against scipy dblquad / tplquad over physical momenta
            (a failure is a harness error -> run inconclusive, never a verdict on the code).
smooth      poly x exp(-E/T) deviations vs dblquad: recorded, never judged (DESIGN C13).

Tolerances are rounding bounds evaluated for the very case (see _exact_tol, _tm_tol and
the K of the linearity block); the constants count floating-point operations, they are
not fitted.  Observed on the unchanged tree (quick seeds 0-4, thorough seeds 0-1):
max residual/tolerance 0.04 (moments), 0.06 (T30/T33), 0.08 (additivity); Cardinal-input
moment error <= 4.5e-16 of the coefficient-norm scale.
"""
from __future__ import annotations

import math
import types

import numpy as np

from wgverif import env  # noqa: F401
from wgverif.oracles import c13_ref as R

PROPERTY = "C13"
RULE = ("exact: stratified over every odd N in 3..13 (plus 15, 19, 25 at small M) x M in {3,4,5,8,12,20} x grid class "
        "{Grid, Grid3Scales} x input basis (Cardinal/Chebyshev in z and in momenta) x "
        "momentum scale T0 = 10^U(-2,2) x mass profile {massless, const 0.1/1/10 T0, wall "
        "0->0.3..10 T0, two-field} x 1-3 species (both statistics, random DOFs) x boundary "
        "order at p_par=0 (k=1,2) x degree (exactly at the class boundary / random lower); "
        "the target moment rotates over (species, z) rows.  A case is non-trivial when at "
        "least one row has |pi^2 c00| > 1e-3 of the rounding scale (the comparison has "
        "content); distinct by (N, M, grid, bases, mass kind, decade of T0, species, k, "
        "degree mode, seed mod 16).  selftest/smooth cases never count as non-trivial.")
ASSUMPTIONS = [
    "Gauss-Chebyshev-Lobatto orthogonality (int T_m/sqrt(1-x^2) = pi delta_m0) and "
    "numpy.polynomial.chebyshev algebra are the reference for the exactness family",
    "the momentum map documented in Grid's docstring (rho_z = tanh(p_z/2T0), "
    "rho_par = 1-2exp(-p_par/T0)) is the specification of the compactification",
    "the deviation value at the kept p_par = 0 node is irrelevant (measure p_par dp_par "
    "vanishes there); it is filled with finite junk in half of the cases",
    "velocityMid is the plasma velocity in the wall frame (docstring of deltaToTmunu), so the "
    "plasma->wall boost is Lambda(+velocityMid)",
    "spacing='Uniform' grids are outside the quantifier (no Lobatto exactness)",
]
CASE_TIMEOUT = 600
CHUNK = 6
FLOORS = {
    "quick": {"distinct_nontrivial": 200,
              "mon": {"getDeltas_calls": 1200, "rows_Delta00": 400, "rows_Delta02": 400,
                      "rows_Delta20": 400, "rows_Delta11": 400, "tmunu_calls": 2000,
                      "tmunu_onehot": 800, "additivity_rows": 6000, "scaling_rows": 6000,
                      "oracle_selftest_ok": 9, "smooth_recorded": 4},
              "cls": {"N=3": 20, "N=5": 20, "N=7": 20, "N=9": 20, "N=11": 20, "N=13": 20,
                      "basis=Cardinal/Cardinal": 50, "basis=Cardinal/Chebyshev": 30,
                      "basis=Chebyshev/Chebyshev": 15, "basis=Chebyshev/Cardinal": 15,
                      "grid=Grid": 60, "grid=Grid3Scales": 60, "mass=massless": 15,
                      "mass=const10": 10, "mass=wall10": 10, "deg=max": 80,
                      "rescale=momentum": 30, "rescale=position": 30}},
    "thorough": {"distinct_nontrivial": 3000,
                 "mon": {"getDeltas_calls": 18000, "rows_Delta00": 6000, "rows_Delta02": 6000,
                         "rows_Delta20": 6000, "rows_Delta11": 6000, "tmunu_calls": 30000,
                         "tmunu_onehot": 11000, "additivity_rows": 100000,
                         "scaling_rows": 100000, "oracle_selftest_ok": 22,
                         "smooth_recorded": 250},
                 "cls": {"N=3": 300, "N=5": 300, "N=7": 300, "N=9": 300, "N=11": 300,
                         "N=13": 300, "basis=Chebyshev/Chebyshev": 200,
                         "grid=Grid3Scales": 1000, "mass=massless": 300, "mass=const10": 150,
                         "mass=wall10": 150, "deg=max": 1000, "rescale=momentum": 500,
                         "rescale=position": 500}},
}

EPS = R.EPS
NS = (3, 5, 7, 9, 11, 13)
MS = (3, 4, 5, 8, 12, 20)
MASS_KINDS = ("massless", "const0.1", "const1", "const10", "wall0.3", "wall1", "wall3",
              "wall10", "twofield")
BASES = (("Cardinal", "Cardinal"), ("Cardinal", "Cardinal"), ("Cardinal", "Chebyshev"),
         ("Chebyshev", "Chebyshev"), ("Chebyshev", "Cardinal"), ("Cardinal", "Chebyshev"))
MAX_ROWS = 2000        # P*(M-1)*(N-1)^2: size of the operator getDeltas builds on the side


def worker_init():
    env.import_wallgo()


# ------------------------------------------------------------------------- generation
def _exact_case(rng, N, M, i):
    P = int(rng.choice((1, 1, 2, 3)))
    while P * (M - 1) * (N - 1) ** 2 > MAX_ROWS and P > 1:
        P -= 1
    bM, bN = BASES[int(rng.integers(len(BASES)))]
    kmax = 2 if 2 * N - 3 - 1 - 2 >= 0 else 1
    return {"kind": "exact", "N": int(N), "M": int(M),
            "grid": "Grid" if rng.random() < 0.5 else "Grid3Scales",
            "logT0": float(rng.uniform(-2, 2)), "mass": str(rng.choice(MASS_KINDS)),
            "P": P, "bM": bM, "bN": bN, "kpow": int(rng.integers(1, kmax + 1)),
            "deg": "max" if rng.random() < 0.5 else "rand",
            "junk": bool(rng.random() < 0.5), "beyond": bool(rng.random() < 0.25),
            "rescale": str(rng.choice(("none", "none", "momentum", "position"))),
            "s": int(rng.integers(1 << 30))}


def generate(tier, seed):
    rng = np.random.default_rng(1300 + seed)
    cases = []
    reps = 4 if tier == "quick" else 60
    for N in NS:
        for M in MS:
            if (M - 1) * (N - 1) ** 2 > MAX_ROWS:
                continue
            for _ in range(reps):
                cases.append(_exact_case(rng, N, M, len(cases)))
    # beyond the design's 3..13: the quantifier says every odd N
    for N in (15, 19, 25):
        for M in (3, 4):
            for _ in range(1 if tier == "quick" else 12):
                c = _exact_case(rng, N, M, len(cases))
                c["P"] = 1
                cases.append(c)
    # stratification that the random draw above must not be trusted to deliver:
    # every (N, mass kind, basis pair) at least once per run
    for _ in range(1 if tier == "quick" else 8):
        for N in NS:
            for mk in MASS_KINDS:
                for bM, bN in sorted(set(BASES)):
                    if tier == "quick" and rng.random() < 0.35:
                        continue
                    c = _exact_case(rng, N, int(rng.choice((3, 4, 5, 8))), len(cases))
                    c.update(mass=mk, bM=bM, bN=bN)
                    cases.append(c)
    # oracle self-test: construction vs dblquad (8 cases) + stress tensor vs tplquad (1-2)
    nst = 1 if tier == "quick" else 2
    for rep in range(nst):
        for k in range(4):
            cases.append({"kind": "selftest", "what": "family", "N": 3, "k": k, "kpow": 1,
                          "logT0": float(rng.uniform(-2, 2)), "m": float(rng.choice((0., 1., 10.))),
                          "s": int(rng.integers(1 << 30))})
            cases.append({"kind": "selftest", "what": "family", "N": 5, "k": k, "kpow": 2,
                          "logT0": float(rng.uniform(-2, 2)), "m": float(rng.choice((0., 0.3, 3.))),
                          "s": int(rng.integers(1 << 30))})
        cases.append({"kind": "selftest", "what": "tmunu", "v": float(rng.uniform(0.2, 0.5)),
                      "logT0": float(rng.uniform(-1, 1)), "m": float(rng.uniform(0.3, 2.0)),
                      "s": int(rng.integers(1 << 30))})
    if tier == "thorough":
        for k in range(4):
            cases.append({"kind": "selftest", "what": "family", "N": 7, "k": k, "kpow": 2,
                          "logT0": float(rng.uniform(-2, 2)), "m": 1.0,
                          "s": int(rng.integers(1 << 30))})
    # smooth deviations: recorded only
    for j in range(6 if tier == "quick" else 300):
        cases.append({"kind": "smooth", "N": int(NS[j % len(NS)]),
                      "logT0": float(rng.uniform(-2, 2)),
                      "m": float(rng.choice((0.0, 0.3, 1.0, 3.0, 10.0))),
                      "pure": bool((j // len(NS)) % 2 == 0),
                      "s": int(rng.integers(1 << 30))})
    # cheap first, expensive spread out: shuffle deterministically so chunks are balanced
    order = rng.permutation(len(cases))
    cases = [cases[j] for j in order]
    for i, c in enumerate(cases):
        c["i"] = i
    return cases


# ------------------------------------------------------------------- building the rig
def _mass_params(kind, T0, rng):
    """msq(phi) = c0 + y0^2 phi0^2 + y1^2 phi1^2, in units set by T0."""
    if kind == "massless":
        return 0.0, (0.0, 0.0)
    if kind.startswith("const"):
        return (float(kind[5:]) * T0) ** 2, (0.0, 0.0)
    if kind.startswith("wall"):
        return 0.0, (float(kind[4:]) * T0, 0.0)
    return (0.2 * T0) ** 2, (float(rng.uniform(0.5, 3)) * T0, float(rng.uniform(0.5, 3)) * T0)


def _make_msq(c0, ys):
    def msq(fields):
        out = c0 + 0.0 * fields.getField(0)
        for i, y in enumerate(ys):
            if y != 0.0:
                out = out + (y * fields.getField(i)) ** 2
        return out
    return msq


def _build(case, rng):
    """Real Grid / BoltzmannSolver / Particle / background / synthetic CollisionArray and
    an EOM instance carrying only what deltaToTmunu reads (the real class, __init__ skipped:
    constructing Thermodynamics+Hydrodynamics is irrelevant to the method)."""
    import WallGo
    from WallGo import Fields
    from WallGo.collisionArray import CollisionArray
    from WallGo.equationOfMotion import EOM
    from WallGo.grid3Scales import Grid3Scales

    N, M, P = case["N"], case["M"], case["P"]
    T0 = 10.0 ** case["logT0"]
    L = float(10 ** rng.uniform(-1, 1)) / T0
    resc = case.get("rescale", "none")
    Tc = T0 * (float(rng.uniform(0.2, 5.0)) if resc == "momentum" else 1.0)   # construction scale
    if case["grid"] == "Grid":
        grid = WallGo.Grid(M, N, L, Tc)
        if resc == "position":
            grid.changePositionFalloffScale(L * float(rng.uniform(0.3, 3.0)))
    else:
        ratio, smooth = float(rng.uniform(0.3, 0.7)), float(rng.uniform(0.05, 0.2))
        tmin = L * (0.5 + smooth) / ratio          # constructor's documented lower bound
        grid = Grid3Scales(M, N, tmin * float(rng.uniform(1.2, 5)), tmin * float(rng.uniform(1.2, 5)),
                           L, Tc, ratioPointsWall=ratio, smoothing=smooth)
        if resc == "position":     # what EOM._updateGrid does between pressure evaluations
            grid.changePositionFalloffScale(tmin * float(rng.uniform(1.2, 5)),
                                            tmin * float(rng.uniform(1.2, 5)), L,
                                            float(rng.uniform(-1, 1)) * L)
    if resc == "momentum":
        grid.changeMomentumFalloffScale(T0)
    chi = R.chi_nodes(M, endpoints=True)
    a0, a1 = rng.uniform(-0.15, 0.15, size=2)
    phi0 = 0.5 * (1.0 - chi) + a0 * np.sin(np.pi * chi)
    phi1 = 0.5 * (1.0 + chi) + a1 * np.sin(2 * np.pi * chi)
    fields = Fields(np.stack([phi0, phi1], axis=1))
    particles, specs = [], []
    for a in range(P):
        c0, ys = _mass_params(case["mass"], T0, rng)
        if a > 0:      # species differ in mass (same kind, 60-100 % of the nominal value)
            fa = float(rng.uniform(0.6, 1.0))
            c0, ys = c0 * fa * fa, (ys[0] * fa, ys[1] * fa)
        stat = "Fermion" if rng.random() < 0.5 else "Boson"
        dof = int(rng.integers(1, 25))
        particles.append(WallGo.Particle(f"p{a}", a, _make_msq(c0, ys), lambda f: 0.0 * f,
                                         stat, dof))
        specs.append({"c0": c0, "ys": ys, "stat": stat, "dof": dof})
    vmid = float(rng.uniform(0.02, 0.97))
    dv = float(rng.uniform(-1, 1)) * 0.5 * min(vmid, 0.99 - vmid)
    bg = WallGo.BoltzmannBackground(vmid, vmid + dv * chi, fields,
                                    T0 * float(rng.uniform(0.7, 1.3)) * (1.0 + 0.1 * chi))

    def solver(bM, bN):
        s = WallGo.BoltzmannSolver(grid, bM, bN, "Spectral")
        s.updateParticleList(particles)
        s.setBackground(bg)
        ca = CollisionArray(grid, bN, particles)
        shape = ca.polynomialData.coefficients.shape
        ca.polynomialData.coefficients = np.random.default_rng(case["s"] ^ 0x5A5A).normal(
            size=shape) * T0 ** -2
        s.setCollisionArray(ca)
        return s

    eom = object.__new__(EOM)
    eom.particles = particles
    eom.grid = grid
    msq_rows = np.array([sp["c0"] + (sp["ys"][0] * phi0[1:-1]) ** 2 + (sp["ys"][1] * phi1[1:-1]) ** 2
                         for sp in specs])
    return types.SimpleNamespace(grid=grid, T0=T0, fields=fields, particles=particles, specs=specs,
                                 vmid=vmid, bg=bg, solver=solver, eom=eom, msq=msq_rows,
                                 N=N, M=M, P=P)


def _mats(rig, bM, bN):
    rz, rp = R.nodes(rig.N)
    return (R.tbar_matrix(R.chi_nodes(rig.M), "z") if bM == "Chebyshev" else None,
            R.tbar_matrix(rz, "pz") if bN == "Chebyshev" else None,
            R.tbar_matrix(rp, "pp") if bN == "Chebyshev" else None)


def _get(deltas):
    return np.stack([np.asarray(getattr(deltas, nm).coefficients, dtype=float)
                     for nm in R.MOMENTS])          # (4, P, M-1)


# ------------------------------------------------------------------------- tolerances
def _exact_tol(Qb, c00, rz, rp, N):
    """Rounding bound for  sum_ij term_ij  with term_ij = Q_ij pi^2/(N(N-1)).

    Per term: ~14 roundings in the harness (deltaf = Q 4pi^2 E/(Jz Jp pp W sz sp)), ~22 in
    getDeltas (integrand, weight, two sqrt-weight factors), pairwise summation of <=144
    terms (~8) -> K0 = 44, rounded up to 48.  On top, factors whose *straightforward*
    evaluation is ill-conditioned at that node: 1-rz^2 (Jacobian, sqrt factor), arctanh near
    rz=0, log((1-rp)/2) near rp=-1, 1-rp^2; an implementation using the documented
    formulas literally may lose that many ulp there, each entering <= 4 times -> K1 = 4.
    Observed on the unchanged tree: max |err| = 0.7 eps x scale without the kappa part."""
    with np.errstate(divide="ignore"):
        kz = 1.0 / np.abs(rz) + 2.0 / (1.0 - rz ** 2)
        kp = 2.0 / (1.0 + rp) + 1.0 / (1.0 - rp ** 2)
    kp = np.where(np.isfinite(kp), kp, 0.0)       # rp=-1 node: term is identically zero
    kappa = kz[:, None] + kp[None, :]
    per = Qb * (48.0 + 4.0 * kappa) * (np.pi ** 2 / (N * (N - 1)))
    return EPS * (np.sum(per, axis=(-2, -1)) + 48.0 * np.abs(np.pi ** 2 * c00))


def _tm_tol(D, msq_i, dofs, v):
    """T30/T33: <= 14 products/sums per species on quantities bounded by
    gamma^2 (3|D20|+3|D02|+2|m^2 D00|+4|D11|); gamma^2 = 1/(1-v*v) itself carries a relative
    error v^2 gamma^2 eps/2 from the rounding of v*v.  K = 32 + v^2 gamma^2."""
    g2 = 1.0 / ((1.0 - v) * (1.0 + v))
    mag = sum(d * (3 * abs(D[2, a]) + 3 * abs(D[1, a]) + 2 * abs(msq_i[a] * D[0, a])
                   + 4 * abs(D[3, a])) for a, d in enumerate(dofs))
    return EPS * (32.0 + v * v * g2) * g2 * mag + 1e-300


# -------------------------------------------------------------------------- exact case
def _case_exact(case):
    import WallGo
    from WallGo.containers import BoltzmannDeltas
    rng = np.random.default_rng(case["s"])
    rig = _build(case, rng)
    N, M, P, T0 = rig.N, rig.M, rig.P, rig.T0
    bM, bN = case["bM"], case["bN"]
    cheb = "Chebyshev" in (bM, bN)
    sfx = "-chebyshev-input" if cheb else ""
    viol = []
    mon = {"getDeltas_calls": 0, "tmunu_calls": 0, "tmunu_onehot": 0, "additivity_rows": 0,
           "scaling_rows": 0}
    for nm in R.MOMENTS:
        mon["rows_" + nm] = 0
    cls = [f"N={N}", f"M={M}", f"basis={bM}/{bN}", f"grid={case['grid']}",
           f"mass={case['mass']}", f"deg={case['deg']}", f"kpow={case['kpow']}", f"P={P}",
           f"rescale={case.get('rescale', 'none')}"]
    obs = {"N": N, "M": M, "P": P, "T0": T0, "bases": [bM, bN], "grid": case["grid"],
           "mass": case["mass"], "vmid": rig.vmid}

    solver = rig.solver(bM, bN)
    twin = solver if not cheb else rig.solver("Cardinal", "Cardinal")
    mats = _mats(rig, bM, bN)

    last = {}

    def call(s, arr):
        mon["getDeltas_calls"] += 1
        last["Deltas"] = s.getDeltas(np.array(arr, dtype=float)).Deltas
        return _get(last["Deltas"])

    # ---- oracle side: nodes, momenta, weights (closed forms; nothing from rig.grid)
    rz, rp = R.nodes(N)
    pz = R.pz_of(rz, T0)[None, None, :, None]
    pp = R.pp_of(rp, T0)[None, None, None, :]
    energy = np.sqrt(rig.msq[:, :, None, None] + pz ** 2 + pp ** 2)
    target = (int(rng.integers(4)) + np.arange(P)[:, None] + np.arange(M - 1)[None, :]) % 4
    W = np.empty_like(energy)
    for k in range(4):
        W = np.where((target == k)[:, :, None, None], R.weight(k, pz, pp, energy), W)
    meas = (R.jac_z(rz, T0)[None, None, :, None] * R.jac_p(rp, T0)[None, None, None, :] * pp
            / (4.0 * np.pi ** 2 * energy))
    sq = np.sqrt(1.0 - rz ** 2)[None, None, :, None] * np.sqrt(1.0 - rp ** 2)[None, None, None, :]
    wq = meas * np.abs(W) * sq * (np.pi ** 2 / (N * (N - 1)))     # |quadrature weight| per node

    def family(qd):
        Q, Qb = R.eval_Q_nodes(qd, rz, rp)
        with np.errstate(all="ignore"):
            df = Q / (meas * W * sq)
        nb = np.abs(df[..., 1])
        df[..., 0] = rng.normal(size=nb.shape) * nb if case["junk"] else 0.0
        return df, Qb

    qd = R.build_Q(rng, N, (P, M - 1), case["kpow"], case["deg"])
    df, Qb = family(qd)
    obs["degQ"] = list(qd["degQ"])
    obs["class"] = [2 * N - 1, 2 * N - 3]
    extra_tol = np.zeros((P, M - 1))
    if cheb:
        inp, represented, absum = R.to_coefficients(df, mats)
        # what the coefficient array really encodes differs from df by the conversion
        # residual; the code's own basis change adds <= (terms) eps |M||c| per node
        nterms = 2 * (N - 1) + (M - 1) + 4
        extra_tol = np.sum(wq * (np.abs(represented - df) + nterms * EPS * absum), axis=(2, 3))
        obs["cheb_conv_resid"] = float(np.max(np.abs(represented - df)
                                              / (np.abs(df) + 1e-300)))
    else:
        inp, absum = df, np.abs(df)

    try:
        got = call(solver, inp)
        real_deltas = last["Deltas"]
    except Exception as exc:   # the real call failing on an admissible input
        viol.append({"mech": "getDeltas-raises" + sfx,
                     "msg": f"getDeltas raised {exc!r} (N={N}, M={M}, bases {bM}/{bN}, "
                            f"{case['grid']}, mass {case['mass']})", "data": obs})
        return {"key": f"raise:{case['i']}", "cls": cls, "nontrivial": True, "obs": obs,
                "viol": viol, "mon": mon}

    # ---- monitor 1: moments of the exactness family
    ref = np.pi ** 2 * qd["c00"]
    tol = _exact_tol(Qb, qd["c00"], rz, rp, N) + 2.0 * extra_tol
    scale = np.sum(Qb, axis=(-2, -1)) * np.pi ** 2 / (N * (N - 1))
    worst = {}
    content = False
    for a in range(P):
        for al in range(M - 1):
            k = int(target[a, al])
            nm = R.MOMENTS[k]
            err = abs(got[k, a, al] - ref[a, al])
            mon["rows_" + nm] += 1
            ratio = float(err / tol[a, al]) if np.isfinite(err) else math.inf
            content = content or abs(ref[a, al]) > 1e-3 * scale[a, al]
            if ratio > worst.get(nm, (-1,))[0]:
                worst[nm] = (ratio, a, al, float(got[k, a, al]), float(ref[a, al]),
                             float(tol[a, al]))
    obs["exact_err_over_tol"] = {nm: w[0] for nm, w in worst.items()}
    sel = np.take_along_axis(got, target[None], axis=0)[0]
    obs["exact_err_over_scale_max"] = float(np.max(np.abs(sel - ref) / scale))
    for nm, w in worst.items():
        if not w[0] <= 1.0:
            viol.append({"mech": f"{nm}-differs-from-defined-momentum-integral" + sfx,
                         "msg": f"{nm} at (species {w[1]}, z index {w[2]}) = {w[3]!r}, closed form "
                                f"pi^2 c00 = {w[4]!r}: |diff| = {abs(w[3] - w[4]):.3e} = "
                                f"{w[0]:.3g} x rounding bound {w[5]:.3e}  (N={N}, M={M}, "
                                f"T0={T0:.3g}, mass {case['mass']}, bases {bM}/{bN}, "
                                f"{case['grid']}, deg Q={qd['degQ']}, k={case['kpow']})",
                         "data": {"got": w[3], "want": w[4], "tol": w[5]}})

    # ---- recorded only: one degree beyond the class in rho_z (oracle sharpness)
    if case["beyond"] and not cheb:
        dzmax, dpmax = R.class_degrees(N, case["kpow"])
        qb = R.build_Q(rng, N, (P, M - 1), case["kpow"], "max", dz=dzmax + 1, dp=dpmax)
        dfb, Qbb = family(qb)
        gb = call(solver, dfb)
        sel = np.take_along_axis(gb, target[None], axis=0)[0]
        obs["beyond_class_err_over_scale"] = float(np.max(
            np.abs(sel - np.pi ** 2 * qb["c00"]) / (np.sum(Qbb, axis=(-2, -1)) * np.pi ** 2
                                                     / (N * (N - 1)))))

    # ---- monitor 2: stress tensor, real moments then synthetic ones
    dofs = [sp["dof"] for sp in rig.specs]
    interior = rig.fields[1:-1]

    class _D:      # carrier with the attribute the method reads
        def __init__(self, arr):
            self.coefficients = arr

    def tm_check(D, idx, label, deltas=None):
        if deltas is None:
            deltas = BoltzmannDeltas(Delta00=_D(D[0]), Delta02=_D(D[1]), Delta20=_D(D[2]),
                                     Delta11=_D(D[3]))
        t30, t33 = rig.eom.deltaToTmunu(idx, interior.getFieldPoint(idx), rig.vmid, deltas)
        mon["tmunu_calls"] += 1
        tw = sum(d * R.tmunu_wall(D[0, a, idx], D[1, a, idx], D[2, a, idx], D[3, a, idx],
                                  rig.msq[a, idx], rig.vmid) for a, d in enumerate(dofs))
        tl = _tm_tol(D[:, :, idx], rig.msq[:, idx], dofs, rig.vmid)
        out = []
        for nm, g_, w_ in (("T30", float(np.asarray(t30).ravel()[0]), float(tw[3, 0])),
                           ("T33", float(np.asarray(t33).ravel()[0]), float(tw[3, 3]))):
            r_ = abs(g_ - w_) / tl
            out.append(r_)
            if not r_ <= 1.0:
                viol.append({"mech": f"deltaToTmunu-{nm}-differs-from-boosted-definition",
                             "msg": f"{nm} = {g_!r}, Lambda T_plasma Lambda^T gives {w_!r} "
                                    f"(|diff| {abs(g_ - w_):.3e} = {r_:.3g} x bound {tl:.3e}) "
                                    f"at z index {idx}, v={rig.vmid:.4f}, {label} moments, "
                                    f"m^2={rig.msq[:, idx].tolist()}, dofs={dofs}",
                             "data": {"D": D[:, :, idx].tolist(), "v": rig.vmid}})
        return max(out)

    tmw = 0.0
    if np.all(np.isfinite(got)):
        for idx in range(M - 1):
            tmw = max(tmw, tm_check(got, idx, "getDeltas", real_deltas))
    for hot in range(4):
        D = np.zeros((4, P, M - 1))
        D[hot] = 10.0 ** rng.uniform(-3, 3, size=(P, M - 1)) * rng.choice((-1.0, 1.0), size=(P, M - 1))
        tmw = max(tmw, tm_check(D, int(rng.integers(M - 1)), f"one-hot {R.MOMENTS[hot]}"))
        mon["tmunu_onehot"] += 1
    D = rng.normal(size=(4, P, M - 1)) * 10.0 ** rng.uniform(-2, 2, size=(4, 1, 1))
    tmw = max(tmw, tm_check(D, int(rng.integers(M - 1)), "random"))
    obs["tmunu_err_over_tol"] = tmw

    # ---- monitor 3: linearity
    gshape = df.shape
    g_in = rng.normal(size=gshape) * 10.0 ** rng.uniform(-1, 1, size=gshape) * float(np.median(absum[absum > 0]) if np.any(absum > 0) else 1.0)
    g_abs = np.array(R.apply_mats(g_in, mats, absval=True), dtype=float) if cheb else np.abs(g_in)
    ca, cb = (float(x) for x in rng.normal(size=2) * 10.0 ** rng.uniform(-2, 2, size=2))
    j2 = int(rng.integers(-8, 9))
    sc2 = float(-(2.0 ** j2) if rng.random() < 0.5 else 2.0 ** j2)
    try:
        dg = call(solver, g_in)
        dsum = call(solver, ca * inp + cb * g_in)
        dscl = call(solver, sc2 * inp)
        sf = call(twin, absum)
        sg = call(twin, g_abs)
    except Exception as exc:
        viol.append({"mech": "getDeltas-raises" + sfx, "msg": f"getDeltas raised {exc!r} on a "
                     "linear combination of accepted inputs", "data": obs})
        dg = None
    if dg is not None and np.all(np.isfinite(got)):
        def lscale(s_):   # sum |w||f| per moment; |E pz| <= (E^2+pz^2)/2 for Delta11
            return np.stack([s_[0], s_[1], s_[2], 0.5 * (s_[1] + s_[2])])
        # roundings: combination 3, chain ~25, summation (N-1)^2 worst case, basis change
        K = 30.0 + (N - 1) ** 2 + (2 * (N - 1) + (M - 1) if cheb else 0)
        tol_add = K * EPS * (abs(ca) * lscale(sf) + abs(cb) * lscale(sg)) + 1e-300
        r_add = np.abs(dsum - (ca * got + cb * dg)) / tol_add
        mon["additivity_rows"] += int(r_add.size)
        obs["additivity_err_over_tol"] = float(np.nanmax(r_add))
        if not np.all(r_add <= 1.0):
            k, a, al = np.unravel_index(np.nanargmax(np.where(np.isfinite(r_add), r_add, np.inf)),
                                        r_add.shape)
            viol.append({"mech": "moments-not-additive" + sfx,
                         "msg": f"{R.MOMENTS[k]}(a f + b g) = {dsum[k, a, al]!r} but a D(f) + b D(g)"
                                f" = {(ca * got + cb * dg)[k, a, al]!r} (a={ca:.4g}, b={cb:.4g}; "
                                f"{r_add[k, a, al]:.3g} x rounding bound; N={N}, bases {bM}/{bN})",
                         "data": {}})
        tol_s = K * EPS * abs(sc2) * lscale(sf) + 1e-300
        r_s = np.abs(dscl - sc2 * got) / tol_s
        mon["scaling_rows"] += int(r_s.size)
        obs["scaling_bit_exact"] = bool(np.array_equal(dscl, sc2 * got))
        if not np.all(r_s <= 1.0):
            k, a, al = np.unravel_index(np.nanargmax(np.where(np.isfinite(r_s), r_s, np.inf)),
                                        r_s.shape)
            viol.append({"mech": "moments-not-homogeneous" + sfx,
                         "msg": f"{R.MOMENTS[k]}({sc2} f) = {dscl[k, a, al]!r} but {sc2} D(f) = "
                                f"{(sc2 * got)[k, a, al]!r} ({r_s[k, a, al]:.3g} x rounding bound)",
                         "data": {}})
    if not np.all(np.isfinite(got)):
        viol.append({"mech": "moments-nonfinite" + sfx,
                     "msg": f"getDeltas returned non-finite moments for finite input (N={N}, "
                            f"bases {bM}/{bN}, mass {case['mass']})", "data": {}})

    key = (f"exact:{N}:{M}:{case['grid']}:{bM}/{bN}:{case['mass']}:{int(math.floor(case['logT0']))}"
           f":{P}:{case['kpow']}:{case['deg']}:{case['s'] % 16}")
    return {"key": key, "cls": cls, "nontrivial": bool(content), "obs": obs, "viol": viol,
            "mon": mon}


# ------------------------------------------------------------------- oracle self-tests
def _case_selftest(case):
    rng = np.random.default_rng(case["s"])
    T0 = 10.0 ** case["logT0"]
    msq = (case["m"] * T0) ** 2
    mon = {"oracle_selftest_ok": 0}
    if case["what"] == "family":
        qd = R.build_Q(rng, case["N"], (), case["kpow"], "max")
        fn = R.family_function(qd, case["k"], msq, T0)
        val, est = R.dblquad_moment(fn, case["k"], msq, T0, epsrel=1e-8)
        ref = float(np.pi ** 2 * qd["c00"])
        sc = float(np.pi ** 2 * np.sum(np.abs(qd["q"])))
        rel = abs(val - ref) / sc
        obs = {"what": "family vs dblquad", "N": case["N"], "k": case["k"], "dblquad": val,
               "pi2c00": ref, "rel_to_coeff_norm": rel, "quad_err_est": est}
        ok = rel < 1e-6
    else:
        v = case["v"]

        def fn(pz, pp, en):
            return (1.0 + 0.4 * pz / T0 + 0.2 * pz * pz / T0 ** 2 + 0.1 * pp / T0) * math.exp(-en / T0)
        d = [R.dblquad_moment(fn, k, msq, T0, epsrel=1e-9, cut=32.0)[0] for k in range(4)]
        tpl = R.tmunu_plasma(d[0], d[1], d[2], d[3], msq)
        tw = R.lorentz_z(v) @ tpl @ R.lorentz_z(v).T
        worst = 0.0
        comp = {}
        for mu, nu in ((0, 0), (0, 3), (3, 3), (1, 1)):
            val, _ = R.tmunu_direct_3d(fn, msq, mu, nu, 30.0 * T0)
            comp[f"pl{mu}{nu}"] = [val, float(tpl[mu, nu])]
            worst = max(worst, abs(val - tpl[mu, nu]) / abs(tpl[0, 0]))
        Lw = 30.0 * T0 / (math.sqrt((1 - v) / (1 + v)))
        for mu, nu in ((3, 0), (3, 3)):
            val, _ = R.tmunu_direct_3d(fn, msq, mu, nu, Lw, v=v)
            comp[f"wall{mu}{nu}"] = [val, float(tw[mu, nu])]
            worst = max(worst, abs(val - tw[mu, nu]) / abs(tw[0, 0]))
        obs = {"what": "T^{mu nu} construction vs 3-D Cartesian integral", "v": v,
               "components": comp, "worst_rel": worst}
        ok = worst < 1e-5
    if ok:
        mon["oracle_selftest_ok"] = 1
        return {"key": f"selftest:{case['i']}", "cls": "selftest:" + case["what"],
                "nontrivial": False, "obs": obs, "viol": [], "mon": mon}
    return {"key": f"selftest:{case['i']}", "cls": "selftest-failed", "nontrivial": False,
            "obs": obs, "viol": [], "mon": mon,
            "inconclusive": "oracle self-test failed (harness error): " + str(obs)[:200]}


# ----------------------------------------------------------- smooth deviations (record)
def _case_smooth(case):
    rng = np.random.default_rng(case["s"])
    c = dict(case, kind="exact", M=3, P=1, grid="Grid", mass="massless", bM="Cardinal",
             bN="Cardinal")
    rig = _build(c, rng)
    T0 = rig.T0
    msq = (case["m"] * T0) ** 2
    # replace the particle's mass by a constant one
    import WallGo
    part = WallGo.Particle("p0", 0, _make_msq(msq, (0.0, 0.0)), lambda f: 0.0 * f, "Boson", 1)
    rig.particles[:] = [part]
    solver = rig.solver("Cardinal", "Cardinal")
    # pure: (1 + pz/T0) exp(-E/T0), the equilibrium-like shape; else random-sign polynomial
    co = np.array([1.0, 1.0, 0.0, 0.0]) if case.get("pure") else rng.normal(size=4)

    def fn(pz, pp, en):
        return (co[0] + co[1] * pz / T0 + co[2] * pp / T0 + co[3] * pz * pz / T0 ** 2) \
            * math.exp(-en / T0)
    pz = np.asarray(rig.grid.pzValues)[None, None, :, None]
    pp = np.asarray(rig.grid.ppValues)[None, None, None, :]
    en = np.sqrt(msq + pz ** 2 + pp ** 2) + np.zeros((1, rig.M - 1, 1, 1))
    df = (co[0] + co[1] * pz / T0 + co[2] * pp / T0 + co[3] * pz ** 2 / T0 ** 2) * np.exp(-en / T0)
    try:
        got = _get(solver.getDeltas(df).Deltas)[:, 0, 0]
    except Exception as exc:
        return {"key": f"smooth:{case['i']}", "cls": "smooth-raise", "nontrivial": True, "obs": {},
                "viol": [{"mech": "getDeltas-raises", "msg": f"getDeltas raised {exc!r} on a smooth "
                          f"finite deviation (N={case['N']}, Cardinal bases)", "data": {}}],
                "mon": {"getDeltas_calls": 1}}
    rel = {}
    for k, nm in enumerate(R.MOMENTS):
        ref, _ = R.dblquad_moment(fn, k, msq, T0, epsrel=1e-9, cut=40.0)
        rel[nm] = float(abs(got[k] - ref) / (abs(ref) + 1e-300))
    return {"key": f"smooth:{case['i']}", "cls": f"smooth-recorded:N={case['N']}",
            "nontrivial": False, "obs": {"N": case["N"], "m_over_T0": case["m"],
                                         "pure": bool(case.get("pure")),
                                         "rel_diff_vs_dblquad": rel},
            "viol": [], "mon": {"smooth_recorded": 1, "getDeltas_calls": 1}}


def run_case(case):
    if case["kind"] == "exact":
        return _case_exact(case)
    if case["kind"] == "selftest":
        return _case_selftest(case)
    return _case_smooth(case)


# --------------------------------------------------------------------------- evidence
def summarize(results, tier):
    def stats(vals):
        v = np.array([x for x in vals if x is not None and np.isfinite(x)], dtype=float)
        if not v.size:
            return {"n": 0}
        return {"n": int(v.size), "median": float(np.median(v)), "p99": float(np.percentile(v, 99)),
                "max": float(v.max())}
    ex = [r for r in results if r["case"].get("kind") == "exact" and not r["inconclusive"]]
    out = {"residual_over_tolerance": {}}
    for nm in R.MOMENTS:
        out["residual_over_tolerance"][nm] = stats(
            [r["obs"].get("exact_err_over_tol", {}).get(nm) for r in ex])
    for nm in R.MOMENTS:
        out["residual_over_tolerance"][nm + "_chebyshev_input"] = stats(
            [r["obs"].get("exact_err_over_tol", {}).get(nm) for r in ex
             if "Chebyshev" in r["obs"].get("bases", [])])
    out["residual_over_tolerance"]["tmunu"] = stats([r["obs"].get("tmunu_err_over_tol") for r in ex])
    out["residual_over_tolerance"]["additivity"] = stats(
        [r["obs"].get("additivity_err_over_tol") for r in ex])
    out["exact_err_over_scale"] = {
        "cardinal": stats([r["obs"].get("exact_err_over_scale_max") for r in ex
                           if "Chebyshev" not in r["obs"].get("bases", [])]),
        "chebyshev_input": stats([r["obs"].get("exact_err_over_scale_max") for r in ex
                                  if "Chebyshev" in r["obs"].get("bases", [])])}
    sb = [r["obs"].get("scaling_bit_exact") for r in ex if "scaling_bit_exact" in r["obs"]]
    out["scaling_bit_exact_fraction"] = (sum(bool(x) for x in sb) / len(sb)) if sb else None
    out["beyond_class_err_over_scale"] = stats(
        [r["obs"].get("beyond_class_err_over_scale") for r in ex])
    sm = {}
    for r in results:
        if r["case"].get("kind") == "smooth" and not r["inconclusive"]:
            for nm, v in r["obs"]["rel_diff_vs_dblquad"].items():
                lab = f"N={r['obs']['N']}" + (":(1+pz/T)exp(-E/T)" if r["obs"].get("pure")
                                              else ":random-poly x exp(-E/T)")
                sm.setdefault(lab, {}).setdefault(nm, []).append(v)
    out["smooth_recorded_not_judged"] = {n: {nm: stats(v) for nm, v in d.items()}
                                         for n, d in sorted(sm.items())}
    out["oracle_selftests"] = [r["obs"] for r in results if r["case"].get("kind") == "selftest"][:12]
    cov = {}
    for r in ex:
        o = r["obs"]
        cov[f"N={o['N']}|{o['bases'][0]}/{o['bases'][1]}|{o['mass']}"] = 1
    out["covered_N_x_basis_x_mass"] = len(cov)
    out["T0_decades"] = sorted({int(math.floor(r["case"]["logT0"])) for r in ex})
    return out
