"""C20 — thermal integrals, their shipped tables and the ideal-gas limit agree.

Monitors (all on executions of the real WallGo code; nothing under /repo is edited):

* ``direct``     JbIntegral/JfIntegral._functionImplementation (and .derivative without
                 interpolation) on x in [-60, 3000] against the mpmath / Bessel-series
                 reference (oracles/c20_thermal_mp.py), the known values at 0 and the rigorous
                 Boltzmann envelope  x K2(sqrt x) <= |J_b| <= x K2(sqrt x)/(1-e^{-sqrt x}).
* ``rows``       every row of both shipped tables, as loaded into
                 PotentialTools.defaultIntegrals, against the reference *and* the direct
                 integral at the same abscissa; in every table interval the interpolated
                 value and first derivative against the reference.
* ``tablemeta``  loaded arrays == shipped files, range, ordering, no imaginary part for x>=0.
* ``beyond``     fresh integral objects carrying the shipped tables, all 16 extrapolation
                 mode pairs, scalar / array / straddling input beyond both table ends.
* ``pot:*``      small EffectivePotentialNoResum subclasses with random particle content;
                 the Integrals object is a recording wrapper, so the arguments handed to
                 J_b/J_f and the values that came back are observed: closed-form assembly of
                 the thermal sum, Stefan-Boltzmann limit, Boltzmann bound for heavy species,
                 continuity in m^2 across 0 and across both table ends, closed-form
                 Coleman-Weinberg term for every imaginary-part option, and the state of the
                 module-global PotentialTools.defaultIntegrals before/after
                 EffectivePotentialNoResum(useDefaultInterpolation=True).

Tolerances (DESIGN 2.3):
  TQ   direct integrals and table rows:  K_QUAD * 1.49e-8 * max(1,|ref|).  1.49e-8 is
       scipy.integrate.quad's default epsabs = epsrel, the termination criterion of the code
       under test (integrals._integrator passes no tolerance); K_QUAD = 10.  Observed on the
       unchanged tree where no interior singularity exists: <= 1.9e-9 (direct),
       <= 4.4e-10 (rows).  With the candidate fix for the interior singularities the worst
       point in [-60, 0) is 1.35e-7 at |J| ~ 10, i.e. 0.09 * TQ: K_QUAD = 10 is needed and
       sufficient.
  TS   interpolated value/derivative at x:   K_MODEL*|S_ref(x) - J_ref(x)| + node-noise term,
       where S_ref is a cubic spline through *reference* values on the shipped abscissae
       (window of +-W nodes): the accuracy a cubic spline on the shipped grid can have at
       that very x (this is the documented design: "cubic interpolation" of the table), so
       the tolerance widens by itself next to the branch points x = 0 (J_b ~ x^{3/2}) and
       x = -pi^2 (J_f ~ (x+pi^2)^{3/2}) where h^{3/2} accuracy is all a uniform grid gives
       (observed 9e-4 / 2.9e-3 in value, 1.1e-2 / 3.8e-2 in derivative) and is ~1e-7
       elsewhere.  Node-noise term: LEB_V * TQ (value), LEB_D * TQ / h (derivative); the
       Lebesgue constants of cubic-spline interpolation (1.55) and of its derivative
       (~4.5/h) rounded up to 2 and 6.
"""
from __future__ import annotations

import math
import os

import numpy as np

from wgverif import env  # noqa: F401

PROPERTY = "C20"
RULE = ("rows: every row of both shipped tables in blocks (all rows in both tiers) with "
        "seeded evaluation points inside every table interval (quick: 2, 1 for x<0; thorough: 8 "
        "per interval); direct: seeded arguments in [-60,3000] dense near 0, near every "
        "threshold -(k pi)^2 and both table ends; beyond: 16 mode pairs x {b,f}; pot: random "
        "particle content (1-5 boson and 0-4 fermion species, dof 1-24, T over 5 decades, "
        "scalar and array T) x integral source {direct, shipped table with a mode pair, "
        "module default} x imaginary option.  A case is non-trivial when at least one "
        "monitor compared a value with its oracle; distinct by (kind, block / argument "
        "hash / (scenario, source, option, content hash)).")
ASSUMPTIONS = [
    "principal branch: sqrt continued from the upper half plane, principal logarithm "
    "(what integrals.py documents); mpmath 20-digit tanh-sinh quadrature split at the "
    "logarithmic singularities, cross-validated against the Bessel series and the values at 0",
    "accuracy of direct integrals and rows is judged against quad's own termination "
    "criterion (abs/rel 1.49e-8) times 10, not against relative accuracy at large x "
    "(observed: relative error 5% at x=1000, exact 0 returned for x>~1350; absolute 2e-11)",
    "accuracy of the interpolation next to the branch points is judged against what a cubic "
    "spline through exact values on the shipped grid achieves there (1e-3 near x=0 for J_b, "
    "3e-3 near x=-pi^2 for J_f), not against the 1e-6 of _validateInterpolationTable",
]
CASE_TIMEOUT = 600
CHUNK = 1
EXHAUSTIVE = {"quick": False, "thorough": False}
FLOORS = {
    # quick, seed 0 on the unchanged tree: row_* 40000, spline_* 79212, direct_vs_ref 5008,
    # envelope 1626, direct_derivative 216, beyond_eval 896, pot_assembly 277, pot_args 554,
    # pot_continuity 256, pot_stefan_boltzmann/pot_heavy/pot_cw 24, pot_global_state 16
    "quick": {"distinct_nontrivial": 300,
              "mon": {"oracle_selfcheck": 1, "row_vs_ref": 40000, "row_direct_vs_ref": 40000,
                      "spline_value": 78000, "spline_derivative": 78000,
                      "direct_vs_ref": 3500, "known_zero": 4, "envelope": 1000,
                      "direct_derivative": 100, "beyond_eval": 600, "table_meta": 2,
                      "pot_assembly": 150, "pot_stefan_boltzmann": 15, "pot_heavy": 15,
                      "pot_continuity": 150, "pot_cw": 15, "pot_global_state": 12,
                      "pot_args": 300, "pot_j_vs_ref": 100, "pot_error_option": 20,
                      "history_warmup_evaluations": 4000, "history_vs_ref": 150,
                      "history_vs_fresh": 150},
              "cls": {"history": 4, "rows:b": 50, "rows:f": 50, "direct:b": 25, "direct:f": 25,
                      "beyond": 32, "pot:massless": 20, "pot:heavy": 20, "pot:cont0": 28,
                      "pot:contEnd": 16, "pot:cw": 20, "pot:global": 6, "pot:random": 40,
                      "tablemeta": 2, "oracle-selfcheck": 1}},
    "thorough": {"distinct_nontrivial": 2300,
                 "mon": {"oracle_selfcheck": 1, "row_vs_ref": 40000,
                         "row_direct_vs_ref": 40000, "spline_value": 300000,
                         "spline_derivative": 300000, "direct_vs_ref": 30000,
                         "known_zero": 4, "envelope": 10000, "direct_derivative": 1000,
                         "beyond_eval": 3000, "table_meta": 2, "pot_assembly": 1500,
                         "pot_stefan_boltzmann": 150, "pot_heavy": 150,
                         "pot_continuity": 1500, "pot_cw": 150, "pot_global_state": 120,
                         "pot_args": 3000, "pot_j_vs_ref": 1000, "pot_error_option": 200,
                         "history_warmup_evaluations": 25000, "history_vs_ref": 1000,
                         "history_vs_fresh": 1000},
                 "cls": {"history": 24, "rows:b": 50, "rows:f": 50, "beyond": 160, "pot:global": 60,
                         "tablemeta": 2, "oracle-selfcheck": 1}},
}

EPS_QUAD = 1.49e-8      # scipy.integrate.quad default epsabs = epsrel
K_QUAD = 10.0
K_MODEL = 2.0
LEB_V = 2.0
LEB_D = 6.0
W = 12                  # half window (nodes) of the local reference spline; 0.268^12 = 1.4e-7
NEG_BLOCK = 14
POS_BLOCK = 250
PI2 = math.pi ** 2
SERIES_MIN = 1e-3       # below this the Bessel series needs > 1400 terms; mpmath is used instead

_O = None               # oracle module (imported lazily in the worker)


def worker_init():
    global _O
    env.import_wallgo()
    from wgverif.oracles import c20_thermal_mp as O
    _O = O


def _oracle():
    global _O
    if _O is None:
        worker_init()
    return _O


def tq(ref):
    """quad termination criterion x K_QUAD (see module docstring)."""
    return K_QUAD * EPS_QUAD * np.maximum(1.0, np.abs(ref))


def first_threshold(kind):
    """Below this argument the integrand on 0<y<sqrt(-x) has an interior logarithmic
    singularity (real part) / jump by pi (imaginary part)."""
    return -4.0 * PI2 if kind == "b" else -PI2


# ----------------------------------------------------------------------------- reference
_REF = {}


def ref_J(kind, x):
    """(re, im) reference value; Bessel series for x>0, mpmath otherwise.  Cached."""
    key = (kind, "v", float(x))
    if key not in _REF:
        O = _oracle()
        if x > SERIES_MIN:
            _REF[key] = (float(O.series(kind, x)[0]), 0.0)
        else:
            _REF[key] = O.J(kind, float(x))
    return _REF[key]


def ref_dJ(kind, x):
    key = (kind, "d", float(x))
    if key not in _REF:
        O = _oracle()
        if x > SERIES_MIN:
            _REF[key] = (float(O.dseries(kind, x)[0]), 0.0)
        else:
            _REF[key] = O.dJ(kind, float(x))
    return _REF[key]


def ref_J_arr(kind, xs):
    return np.array([ref_J(kind, float(x)) for x in np.ravel(xs)])


def ref_dJ_arr(kind, xs):
    return np.array([ref_dJ(kind, float(x)) for x in np.ravel(xs)])


def _default(kind):
    from WallGo import PotentialTools
    return PotentialTools.defaultIntegrals.Jb if kind == "b" else PotentialTools.defaultIntegrals.Jf


def _table_path(kind):
    from WallGo import PotentialTools
    from WallGo.PotentialTools.utils import getSafePathToResource
    name = "InterpolationTable_Jb" if kind == "b" else "InterpolationTable_Jf"
    return str(getSafePathToResource(PotentialTools.config.get("DataFiles", name)))


def _fresh(kind, table=True, lower=None, upper=None):
    """A new integral object of the real class, optionally carrying the shipped table."""
    from WallGo import PotentialTools, EExtrapolationType
    obj = (PotentialTools.JbIntegral if kind == "b" else PotentialTools.JfIntegral)(
        bUseAdaptiveInterpolation=False)
    if table:
        obj.readInterpolationTable(_table_path(kind))
        if lower is not None:
            obj.setExtrapolationType(EExtrapolationType[lower], EExtrapolationType[upper])
    return obj


def _reset_default_modes():
    from WallGo import PotentialTools, EExtrapolationType
    for o in (PotentialTools.defaultIntegrals.Jb, PotentialTools.defaultIntegrals.Jf):
        if (o.extrapolationTypeLower is not EExtrapolationType.NONE
                or o.extrapolationTypeUpper is not EExtrapolationType.NONE):
            o.setExtrapolationType(EExtrapolationType.NONE, EExtrapolationType.NONE)
        o.disableAdaptiveInterpolation()


def local_ref_spline(kind, X, i_lo, i_hi):
    """Cubic spline (not-a-knot, scipy default = what the code documents) through reference
    values on the shipped abscissae X[i_lo-W .. i_hi+W]."""
    from scipy.interpolate import CubicSpline
    j0 = max(0, i_lo - W)
    j1 = min(len(X) - 1, i_hi + W)
    vals = ref_J_arr(kind, X[j0:j1 + 1])
    return CubicSpline(X[j0:j1 + 1], vals, axis=0), j0, j1, vals


def table_tolerance(kind, X, x):
    """(ref value(2), tolerance(2), model error(2)) for the interpolated value at x inside
    the table: TS of the module docstring."""
    i = int(np.clip(np.searchsorted(X, x) - 1, 0, len(X) - 2))
    S, _, _, _ = local_ref_spline(kind, X, i, i + 1)
    r = np.array(ref_J(kind, x))
    em = np.abs(S(x) - r)
    return r, K_MODEL * em + LEB_V * tq(r), em


def _worst(store, name, ratio, info):
    cur = store.get(name)
    if cur is None or ratio > cur["ratio"]:
        store[name] = {"ratio": float(ratio), **info}


# ------------------------------------------------------------------------------ generate
def generate(tier, seed):
    rng = np.random.default_rng(2000 + seed)
    quick = tier == "quick"
    cases = [{"kind": "selfcheck"}]
    n_rows = 10000
    n_neg = 197            # rows with x < 0 (checked again on the loaded table)
    npts = 2 if quick else 8
    # --- table rows, negative side first (expensive mpmath blocks)
    for kind in "bf":
        for i0 in range(0, n_neg, NEG_BLOCK):
            cases.append({"kind": "rows", "J": kind, "i0": i0,
                          "i1": min(n_neg, i0 + NEG_BLOCK), "npts": 1 if quick else npts,
                          "s": int(rng.integers(1 << 30))})
    # --- direct integrals, negative arguments
    thr = sorted({-(k * math.pi) ** 2 for k in range(1, 3)})
    nneg = 20 if quick else 200
    for kind in "bf":
        for j in range(nneg):
            cases.append({"kind": "direct", "J": kind, "region": "neg", "n": 20,
                          "deriv": bool(j % 4 == 0), "s": int(rng.integers(1 << 30))})
        # structured points: around 0, thresholds, table ends
        special = [0.0, -0.0, 1e-300, -1e-300, -20.0, 1000.0, 3000.0, -60.0]
        for t in thr + [0.0, -20.0]:
            for d in (1e-9, 1e-6, 1e-3, 3e-2):
                special += [t - d, t + d]
        special += [-(10.0 ** -k) for k in range(1, 13, 2)] + [10.0 ** -k for k in range(1, 13, 2)]
        cases.append({"kind": "direct", "J": kind, "region": "special", "xs": special,
                      "deriv": False, "s": int(rng.integers(1 << 30))})
    for kind in "bf":
        for i0 in range(n_neg, n_rows, POS_BLOCK):
            cases.append({"kind": "rows", "J": kind, "i0": i0,
                          "i1": min(n_rows, i0 + POS_BLOCK), "npts": npts,
                          "s": int(rng.integers(1 << 30))})
        for j in range(8 if quick else 80):
            cases.append({"kind": "direct", "J": kind, "region": "pos", "n": 100,
                          "deriv": bool(j % 2 == 0), "s": int(rng.integers(1 << 30))})
        cases.append({"kind": "tablemeta", "J": kind})
    # --- beyond both table ends
    modes = ["ERROR", "NONE", "CONSTANT", "FUNCTION"]
    for rep in range(1 if quick else 5):
        for kind in "bf":
            for lo in modes:
                for up in modes:
                    cases.append({"kind": "beyond", "J": kind, "lower": lo, "upper": up,
                                  "s": int(rng.integers(1 << 30))})
    # --- one-loop potential
    cases += _generate_pot(rng, quick)
    # --- call histories on the stand-alone Integrals() object (the one the one-loop
    # potential builds when it is asked to integrate without interpolation)
    rngh = np.random.default_rng(2900 + seed)
    for j in range(4 if quick else 24):
        cases.append({"kind": "history", "n_warm": int(rngh.choice([520, 700, 1100])),
                      "span": [float(rngh.uniform(-3, -1)), float(rngh.uniform(2, 3.3))],
                      "order": str(rngh.choice(["cold-first", "hot-first", "shuffled"])),
                      "s": int(rngh.integers(1 << 30))})
    for i, c in enumerate(cases):
        c["i"] = i
    return cases


def _generate_pot(rng, quick):
    out = []
    options = ["ERROR", "ABS_ARGUMENT", "ABS_RESULT", "PRINCIPAL_PART"]
    modes = ["ERROR", "NONE", "CONSTANT", "FUNCTION"]

    def src(r):
        u = r.random()
        if u < 0.4:
            return "direct"
        if u < 0.6:
            return "default"
        return f"table:{modes[int(r.integers(1, 4))]}:{modes[int(r.integers(1, 4))]}"

    def add(scn, n, **kw):
        for _ in range(n):
            c = {"kind": "pot", "scn": scn, "s": int(rng.integers(1 << 30)),
                 "src": kw.get("src") or src(rng),
                 "opt": kw.get("opt") or options[int(rng.integers(0, 4))]}
            c.update({k: v for k, v in kw.items() if k not in ("src", "opt")})
            out.append(c)

    f = 1 if quick else 10
    add("massless", 24 * f)
    add("heavy", 24 * f)
    add("random", 50 * f)
    for o in options:
        add("cont0", 4 * f, opt=o, src="direct")
        add("cont0", 3 * f, opt=o, src="table:NONE:NONE")
        add("cont0", 1 * f, opt=o, src="default")
        add("cw", 6 * f, opt=o)
    for lo in modes:
        for up in modes:
            add("contEnd", 1 * f, src=f"table:{lo}:{up}", opt="PRINCIPAL_PART")
    add("global", 8 * f, src="default")
    return out


# ------------------------------------------------------------------------------ run_case
def run_case(case):
    k = case["kind"]
    if k == "selfcheck":
        return _case_selfcheck(case)
    if k == "rows":
        return _case_rows(case)
    if k == "direct":
        return _case_direct(case)
    if k == "tablemeta":
        return _case_tablemeta(case)
    if k == "beyond":
        return _case_beyond(case)
    if k == "pot":
        return _case_pot(case)
    if k == "history":
        return _case_history(case)
    raise ValueError(k)


def _case_selfcheck(case):
    O = _oracle()
    res = O.selfcheck()
    out = {"key": "selfcheck", "cls": "oracle-selfcheck", "nontrivial": True,
           "obs": res, "viol": [], "mon": {"oracle_selfcheck": 1 if res["ok"] else 0}}
    if not res["ok"]:
        out["inconclusive"] = f"oracle self-check failed: {res['failed'][:3]}"
    return out


# ------------------------------------------------------------------ history independence
def _case_history(case):
    """Integrals() is documented to do the integrals directly.  Whatever has been evaluated
    on it before (a temperature scan from cold to hot spans five decades of m^2/T^2), a
    later value must still be the defining integral -- and equal to what a fresh object
    returns for the same argument."""
    from WallGo.PotentialTools import integrals as I
    rng = np.random.default_rng(case["s"])
    used = I.Integrals()
    lo, hi = case["span"]
    warm = 10.0 ** np.linspace(lo, hi, case["n_warm"])
    if case["order"] == "hot-first":
        warm = warm[::-1]
    elif case["order"] == "shuffled":
        warm = rng.permutation(warm)
    mon = {"history_warmup_evaluations": 0, "history_vs_ref": 0, "history_vs_fresh": 0}
    viol, worst = [], {}
    for x in warm:
        used.Jb(float(x))
        used.Jf(float(x))
        mon["history_warmup_evaluations"] += 2
    state = {"Jb_has_table": bool(used.Jb.hasInterpolation()),
             "Jf_has_table": bool(used.Jf.hasInterpolation())}
    test = 10.0 ** rng.uniform(lo + 0.2, hi - 0.2, size=24)
    fresh = I.Integrals()
    for kind, obj, fr in (("b", used.Jb, fresh.Jb), ("f", used.Jf, fresh.Jf)):
        for x in test:
            x = float(x)
            got = np.ravel(obj(x))[0]
            ref = ref_J(kind, x)[0]
            t = float(tq(ref))
            mon["history_vs_ref"] += 1
            _worst(worst, "history_vs_ref", abs(got - ref) / t, {"x": x, "J": kind})
            if not abs(got - ref) <= t:
                viol.append({"mech": "integral-depends-on-call-history",
                             "msg": f"Integrals().J{kind}({x!r}) = {got!r} after "
                             f"{case['n_warm']} earlier evaluations ({case['order']}, x from "
                             f"1e{lo:.1f} to 1e{hi:.1f}); defining integral {ref!r} "
                             f"(|diff| {abs(got - ref):.2e} > {t:.1e}); interpolation table "
                             f"present: {state}", "data": {"x": x, "got": got, "ref": ref}})
            g2 = np.ravel(fr(x))[0]
            mon["history_vs_fresh"] += 1
            if got != g2 and not abs(got - g2) <= 1e-3 * t:
                viol.append({"mech": "used-object-differs-from-fresh-object",
                             "msg": f"J{kind}({x!r}): used object {got!r}, fresh object {g2!r}",
                             "data": {"x": x}})
    return {"key": f"history:{case['order']}:{case['n_warm']}:{case['s']}",
            "cls": ["history", "history:" + case["order"]], "nontrivial": True,
            "obs": {"state_after_warmup": state, "worst": worst, "n_test": 2 * len(test)},
            "viol": viol, "mon": mon}


# ------------------------------------------------------------------------- table rows
def _row_mech(kind, x):
    return ("table-row-off-reference-interior-singularity" if x < first_threshold(kind)
            else "table-row-off-reference")


def _direct_mech(kind, x):
    return ("direct-quad-misses-interior-singularity" if x < first_threshold(kind)
            else "direct-integral-off-reference")


def _case_rows(case):
    kind = case["J"]
    _reset_default_modes()
    obj = _default(kind)
    X = np.asarray(obj._interpolationPoints, dtype=float)
    V = np.asarray(obj._interpolationValues, dtype=float)
    i0, i1 = case["i0"], min(case["i1"], len(X))
    rng = np.random.default_rng(case["s"])
    viol, mon, worst = [], {"row_vs_ref": 0, "row_direct_vs_ref": 0, "spline_value": 0,
                            "spline_derivative": 0}, {}
    part = ("Re", "Im")
    # ---- rows against reference, direct integral at the same abscissae
    xs = X[i0:i1]
    ref = ref_J_arr(kind, xs)
    tol = tq(ref)
    direct = np.asarray(obj._functionImplementation(xs), dtype=float).reshape(len(xs), 2)
    rres = np.abs(V[i0:i1] - ref)
    dres = np.abs(direct - ref)
    mon["row_vs_ref"] += 2 * len(xs)
    mon["row_direct_vs_ref"] += 2 * len(xs)
    bad_rows = set()
    for j in range(len(xs)):
        for p in (0, 1):
            _worst(worst, "row_vs_ref", rres[j, p] / tol[j, p], {"x": xs[j], "part": part[p],
                                                                "err": rres[j, p]})
            _worst(worst, "row_direct_vs_ref", dres[j, p] / tol[j, p],
                   {"x": xs[j], "part": part[p], "err": dres[j, p]})
            if not rres[j, p] <= tol[j, p]:
                bad_rows.add(i0 + j)
                viol.append({"mech": _row_mech(kind, xs[j]),
                             "msg": f"shipped J_{kind} table row {i0 + j} x={xs[j]!r}: "
                             f"{part[p]} {V[i0 + j, p]!r} vs reference {ref[j, p]!r}, "
                             f"|diff|={rres[j, p]:.3e} > {tol[j, p]:.3e}",
                             "data": {"row": i0 + j, "x": xs[j], "part": part[p],
                                      "table": V[i0 + j, p], "ref": ref[j, p],
                                      "direct": direct[j, p]}})
            if not dres[j, p] <= tol[j, p]:
                viol.append({"mech": _direct_mech(kind, xs[j]),
                             "msg": f"direct J_{kind}({xs[j]!r}) {part[p]} = {direct[j, p]!r}"
                             f" vs reference {ref[j, p]!r}, |diff|={dres[j, p]:.3e} > "
                             f"{tol[j, p]:.3e} (table abscissa)",
                             "data": {"x": xs[j], "part": part[p], "direct": direct[j, p],
                                      "ref": ref[j, p]}})
    # ---- interpolation inside the intervals [i, i+1], i in [i0, i1) (last row has none)
    ia, ib = i0, min(i1, len(X) - 1)
    model = {"val": 0.0, "der": 0.0}
    rel_large = None
    if ib > ia:
        S, j0, j1, nodevals = local_ref_spline(kind, X, ia, ib)
        noderes = np.abs(V[j0:j1 + 1] - nodevals)
        nodebad = np.any(noderes > tq(nodevals), axis=1)
        # t = 1/2 maximises the value error of a cubic spline on smooth data, t = 0.2113 its
        # derivative error; one seeded point per interval for the (mpmath) quick blocks
        if case["npts"] == 1:
            ts = [rng.uniform(0.15, 0.85, size=ib - ia)]
        else:
            ts = [np.full(ib - ia, 0.5), np.full(ib - ia, 0.2113248654)]
            for _ in range(case["npts"] - 2):
                ts.append(rng.uniform(0.0, 1.0, size=ib - ia))
        h = X[ia + 1:ib + 1] - X[ia:ib]
        for t in ts:
            xt = X[ia:ib] + t * h
            got_v = np.asarray(obj(xt), dtype=float)
            got_d = np.asarray(obj.derivative(xt, 1, True), dtype=float)
            rv = ref_J_arr(kind, xt)
            rd = ref_dJ_arr(kind, xt)
            mv = np.abs(S(xt) - rv)
            md = np.abs(S(xt, 1) - rd)
            tv = K_MODEL * mv + LEB_V * tq(rv)
            td = K_MODEL * md + LEB_D * tq(rv) / h[:, None]
            ev = np.abs(got_v - rv)
            ed = np.abs(got_d - rd)
            model["val"] = max(model["val"], float(mv.max()))
            model["der"] = max(model["der"], float(md.max()))
            mon["spline_value"] += 2 * len(xt)
            mon["spline_derivative"] += 2 * len(xt)
            for j in range(len(xt)):
                near_bad = bool(np.any(nodebad[max(0, ia + j - W - j0):ia + j + 2 + W - j0]))
                for p in (0, 1):
                    _worst(worst, "spline_value", ev[j, p] / tv[j, p],
                           {"x": xt[j], "part": part[p], "err": ev[j, p], "tol": tv[j, p]})
                    _worst(worst, "spline_derivative", ed[j, p] / td[j, p],
                           {"x": xt[j], "part": part[p], "err": ed[j, p], "tol": td[j, p]})
                    for what, e, tt, g, r, m in (("value", ev, tv, got_v, rv, mv),
                                                 ("derivative", ed, td, got_d, rd, md)):
                        if not e[j, p] <= tt[j, p]:
                            if near_bad:
                                bx = X[j0:j1 + 1][nodebad]
                                mech = _row_mech(kind, float(bx[np.argmin(np.abs(bx - xt[j]))]))
                                why = " (a table row within the spline's reach is off)"
                            else:
                                mech = f"table-spline-{what}-off-reference"
                                why = ""
                            viol.append({"mech": mech,
                                         "msg": f"interpolated J_{kind} {what} at x={xt[j]!r} "
                                         f"{part[p]}: {g[j, p]!r} vs reference {r[j, p]!r}, "
                                         f"|diff|={e[j, p]:.3e} > {tt[j, p]:.3e} (exact-data "
                                         f"spline is off by {m[j, p]:.3e} there){why}",
                                         "data": {"x": xt[j], "part": part[p], "what": what,
                                                  "got": g[j, p], "ref": r[j, p],
                                                  "model_err": m[j, p]}})
    if len(xs) and xs.min() > 100:
        rel = rres[:, 0] / np.abs(ref[:, 0])
        rel_large = {"xmin": float(xs.min()), "xmax": float(xs.max()),
                     "max_rel_row": float(rel.max()),
                     "max_rel_direct": float((dres[:, 0] / np.abs(ref[:, 0])).max())}
    viol = _dedup(viol)
    obs = {"J": kind, "rows": [i0, i1], "x": [float(xs[0]), float(xs[-1])],
           "worst": worst, "model_err": model, "bad_rows": sorted(bad_rows),
           "max_row_minus_direct": float(np.max(np.abs(V[i0:i1] - direct))),
           "rel_large": rel_large}
    return {"key": f"rows:{kind}:{i0}", "cls": f"rows:{kind}", "nontrivial": True, "obs": obs,
            "viol": viol, "mon": mon}


def _dedup(viol, keep=6):
    """Keep at most `keep` violations per mechanism in one case (counts stay in msg)."""
    out, cnt = [], {}
    for v in viol:
        cnt[v["mech"]] = cnt.get(v["mech"], 0) + 1
        if cnt[v["mech"]] <= keep:
            out.append(v)
    for v in out:
        v["data"]["count_in_case"] = cnt[v["mech"]]
    return out


def _case_tablemeta(case):
    kind = case["J"]
    _reset_default_modes()
    obj = _default(kind)
    viol = []
    data = np.loadtxt(_table_path(kind))
    X = np.asarray(obj._interpolationPoints)
    V = np.asarray(obj._interpolationValues)
    obs = {"rows_file": int(data.shape[0]), "rows_loaded": int(len(X)),
           "range": [float(obj.interpolationRangeMin()), float(obj.interpolationRangeMax())]}

    def bad(cond, msg):
        if cond:
            viol.append({"mech": "table-load-or-layout", "msg": f"J_{kind} table: {msg}",
                         "data": dict(obs)})

    bad(data.shape != (len(X), 3), f"file shape {data.shape} vs loaded {len(X)} rows")
    if data.shape == (len(X), 3):
        bad(not np.array_equal(data[:, 0], X) or not np.array_equal(data[:, 1:], V),
            "loaded arrays differ from the shipped file")
    bad(not np.all(np.diff(X) > 0), "abscissae not strictly increasing")
    bad(not np.all(np.isfinite(V)), "non-finite values")
    bad(obj.interpolationRangeMin() != -20.0 or obj.interpolationRangeMax() != 1000.0,
        f"range {obs['range']} is not the documented [-20, 1000]")
    bad(np.any(V[X >= 0, 1] != 0.0), "non-zero imaginary part stored for x >= 0")
    d = np.diff(X)
    bad(np.max(np.abs(d - d.mean())) > 1e-9, "grid not uniform")
    bad(np.any(V[X > 0, 0] >= 0), "real part for x>0 not negative")
    # monotone decay is NOT judged: the rows carry the direct integral's absolute noise
    # (<= 2e-11), which exceeds the row-to-row decrement for x >~ 400; recorded only
    dv = np.diff(V[X > 0, 0])
    obs["nonmonotone_steps_x_gt_0"] = int(np.sum(dv <= 0))
    if np.any(dv <= 0):
        obs["first_nonmonotone_x"] = float(X[X > 0][:-1][dv <= 0][0])
        obs["largest_backward_step"] = float(-dv.min())
    return {"key": f"tablemeta:{kind}", "cls": "tablemeta", "nontrivial": True, "obs": obs,
            "viol": viol, "mon": {"table_meta": 1}}


# --------------------------------------------------------------------- direct integrals
def _direct_points(case):
    rng = np.random.default_rng(case["s"])
    if case["region"] == "special":
        return np.array(case["xs"], dtype=float)
    n = case["n"]
    if case["region"] == "neg":
        xs = list(rng.uniform(-60.0, 0.0, size=n - 8))
        xs += list(-10.0 ** rng.uniform(-10, 0, size=3))
        for t in (-PI2, -4 * PI2, -20.0):
            xs.append(t + rng.normal() * 10.0 ** rng.uniform(-6, -0.5))
        xs += list(-9 * PI2 * rng.uniform(0.3, 0.66, size=2))
        return np.array(xs)
    xs = list(rng.uniform(0.0, 3000.0, size=n // 2))
    xs += list(10.0 ** rng.uniform(-10, 2.5, size=n - n // 2 - 2))
    xs += [1000.0 + rng.normal(), float(rng.uniform(0, 2))]
    return np.abs(np.array(xs))


def _case_direct(case):
    from WallGo import PotentialTools
    O = _oracle()
    kind = case["J"]
    xs = _direct_points(case)
    obj = (PotentialTools.JbIntegral if kind == "b" else PotentialTools.JfIntegral)(
        bUseAdaptiveInterpolation=False)
    viol, worst = [], {}
    mon = {"direct_vs_ref": 0, "known_zero": 0, "envelope": 0, "direct_derivative": 0}
    part = ("Re", "Im")
    # array call and scalar calls must agree (the code loops; the scalar branch differs)
    got = np.asarray(obj._functionImplementation(xs), dtype=float)
    if got.shape != (len(xs), 2):
        viol.append({"mech": "direct-integral-shape", "msg": f"J_{kind} array call returned "
                     f"shape {got.shape} for {len(xs)} arguments", "data": {}})
        got = got.reshape(len(xs), 2)
    sc = np.array([np.ravel(obj(float(x), False))[:2] for x in xs[:4]])
    if not np.array_equal(sc, got[:4]):
        viol.append({"mech": "direct-integral-scalar-vs-array", "msg": f"J_{kind}: scalar and "
                     f"array evaluation differ at {xs[:4].tolist()}", "data": {}})
    rel_large = []
    for j, x in enumerate(xs):
        x = float(x)
        r = np.array([O.JB0 if kind == "b" else O.JF0, 0.0]) if x == 0 else np.array(ref_J(kind, x))
        t = tq(r)
        e = np.abs(got[j] - r)
        for p in (0, 1):
            mon["direct_vs_ref"] += 1
            _worst(worst, "direct_vs_ref", e[p] / t[p], {"x": x, "part": part[p], "err": e[p]})
            if not e[p] <= t[p]:
                mech = _direct_mech(kind, x)
                if x == 0:
                    mech = "known-value-at-zero"
                viol.append({"mech": mech,
                             "msg": f"direct J_{kind}({x!r}) {part[p]} = {got[j, p]!r} vs "
                             f"reference {r[p]!r}: |diff|={e[p]:.3e} > {t[p]:.3e}",
                             "data": {"x": x, "part": part[p], "got": got[j, p], "ref": r[p]}})
        if x == 0:
            mon["known_zero"] += 1
        if x >= 0 and got[j, 1] != 0.0:
            viol.append({"mech": "imaginary-part-for-nonnegative-argument",
                         "msg": f"J_{kind}({x!r}) has Im = {got[j, 1]!r}", "data": {"x": x}})
        if x > 0:
            lo, hi = O.envelope(kind, x)
            lo, hi = float(lo), float(hi)
            ta = float(tq(0.0))
            v = got[j, 0]
            mon["envelope"] += 1
            if not (v <= ta and abs(v) <= hi * (1 + 1e-9) + ta and abs(v) >= lo * (1 - 1e-9) - ta):
                viol.append({"mech": "large-argument-not-boltzmann-bounded",
                             "msg": f"direct J_{kind}({x!r}) = {v!r} outside the rigorous "
                             f"envelope -[{lo!r}, {hi!r}] (+-{ta:.2e})",
                             "data": {"x": x, "got": v, "lo": lo, "hi": hi}})
            if x > 100:
                rel_large.append((x, abs(v - r[0]) / abs(r[0]), v == 0.0))
    # first derivative without interpolation: 4th-order central difference of the direct
    # integral with dx = 1e-16^(1/5); noise sum|c|/dx * TQ, truncation dx^4 |f^(5)|/30 with
    # |f^(5)| <= 1.5 * c_b * d^(-7/2) next to a branch point at distance d
    if case.get("deriv"):
        dx = 1e-16 ** 0.2
        sel = [float(x) for x in xs[:12]
               if min(abs(x - b) for b in O.thresholds("b", -100) + O.thresholds("f", -100)) > 0.05]
        for x in sel[:6]:
            d = np.ravel(np.asarray(obj.derivative(x, 1, False), dtype=float))[:2]
            rd = np.array(ref_dJ(kind, x))
            rv = np.array(ref_J(kind, x))
            dist = min(abs(x - b) for b in O.thresholds(kind, -100))
            tol = 1.5 / dx * tq(rv) + dx ** 4 / 30 * 1.5 * (math.pi / 3) * dist ** -3.5
            e = np.abs(d - rd)
            for p in (0, 1):
                mon["direct_derivative"] += 1
                _worst(worst, "direct_derivative", e[p] / tol[p], {"x": x, "part": part[p],
                                                                  "err": e[p]})
                if not e[p] <= tol[p]:
                    mech = ("direct-quad-misses-interior-singularity"
                            if x < first_threshold(kind) + 4 * dx else
                            "direct-derivative-off-reference")
                    viol.append({"mech": mech,
                                 "msg": f"J_{kind}.derivative({x!r}, 1, False) {part[p]} = "
                                 f"{d[p]!r} vs reference {rd[p]!r}: |diff|={e[p]:.3e} > "
                                 f"{tol[p]:.3e}", "data": {"x": x, "part": part[p]}})
    obs = {"J": kind, "region": case["region"], "n": len(xs),
           "range": [float(xs.min()), float(xs.max())], "worst": worst}
    if rel_large:
        a = np.array(rel_large)
        obs["rel_large"] = {"n": len(a), "max_rel": float(a[:, 1].max()),
                            "exact_zero_from_x": (float(a[a[:, 2] > 0, 0].min())
                                                  if np.any(a[:, 2] > 0) else None)}
    key = f"direct:{kind}:{case['region']}:{case['s'] % 100003}"
    return {"key": key, "cls": f"direct:{kind}", "nontrivial": True, "obs": obs,
            "viol": _dedup(viol), "mon": mon}


# -------------------------------------------------------------- beyond both table ends
def _case_beyond(case):
    """Fresh integral object carrying the shipped table, one extrapolation mode pair;
    scalar, array and straddling input beyond both ends.  Oracle per mode: ERROR raises
    ValueError, NONE = defining integral (reference), CONSTANT = the end row,
    FUNCTION = cubic continuation (continuous at the end, equal to the last polynomial
    piece of a spline built independently from the loaded rows)."""
    from scipy.interpolate import CubicSpline
    kind, lo, up = case["J"], case["lower"], case["upper"]
    rng = np.random.default_rng(case["s"])
    obj = _fresh(kind, True, lo, up)
    X = np.asarray(obj._interpolationPoints, dtype=float)
    V = np.asarray(obj._interpolationValues, dtype=float)
    own = CubicSpline(X, V, axis=0, extrapolate=True)
    viol, mon, worst = [], {"beyond_eval": 0}, {}
    below = [-20.0 - d for d in (1e-9, float(10 ** rng.uniform(-6, -1)), float(rng.uniform(0.2, 3)),
                                 float(rng.uniform(3, 30)))]
    above = [1000.0 + d for d in (1e-9, float(10 ** rng.uniform(-6, -1)), float(rng.uniform(0.2, 30)),
                                  float(rng.uniform(30, 2000)))]
    inside = [float(rng.uniform(-20, 1000)), float(rng.uniform(-20, 0)), -20.0, 1000.0]
    raised = {"lower": 0, "upper": 0}

    def expect(x):
        """(value(2), tol(2)) or 'raise'."""
        side, mode = ("lower", lo) if x < -20.0 else ("upper", up)
        if lo == "ERROR" and up == "ERROR":
            return "raise"
        if mode == "ERROR":
            return "raise"
        if lo == "NONE" and up == "NONE" or mode == "NONE":
            r = np.array(ref_J(kind, x))
            return r, tq(r), ("direct", x)
        if mode == "CONSTANT":
            r = V[0] if side == "lower" else V[-1]
            return r, 4e-16 * np.maximum(1.0, np.abs(r)), ("constant", x)
        r = own(x)
        return r, 1e-9 * np.maximum(1.0, np.abs(r)) * (1 + abs(x - (X[0] if side == "lower" else X[-1])) / 0.1) ** 3, ("function", x)

    def judge(x, got, how):
        e = expect(x)
        mon["beyond_eval"] += 1
        if isinstance(e, str):
            viol.append({"mech": "beyond-table-error-mode-does-not-raise",
                         "msg": f"J_{kind} modes ({lo},{up}) {how} x={x!r}: returned {got!r}, "
                         "ValueError expected", "data": {"x": x}})
            return
        r, t, tag = e
        got = np.ravel(np.asarray(got, dtype=float))
        err = np.abs(got - r)
        _worst(worst, "beyond:" + tag[0], float(np.max(err / t)), {"x": x, "err": float(err.max())})
        if got.shape != (2,) or not np.all(err <= t):
            mech = f"beyond-table-{tag[0]}-off"
            if tag[0] == "direct":
                mech = _direct_mech(kind, x)
            viol.append({"mech": mech,
                         "msg": f"J_{kind} modes ({lo},{up}) {how} x={x!r}: {got.tolist()} vs "
                         f"{np.asarray(r).tolist()} (|diff| {err.tolist()} > {np.asarray(t).tolist()})",
                         "data": {"x": x, "lower": lo, "upper": up}})

    def call(x):
        try:
            return obj(x), None
        except ValueError as exc:
            return None, exc

    for x in below + above:
        for how, arg in (("scalar", x), ("0-d", np.asarray(x)), ("1-d", np.array([x]))):
            got, exc = call(arg)
            if exc is not None:
                mon["beyond_eval"] += 1
                if isinstance(expect(x), str):
                    raised["lower" if x < -20 else "upper"] += 1
                else:
                    viol.append({"mech": "beyond-table-unexpected-raise",
                                 "msg": f"J_{kind} modes ({lo},{up}) {how} x={x!r} raised "
                                 f"{exc!r}", "data": {"x": x}})
            else:
                judge(x, got, how)
    # straddling arrays: element-wise identical to single calls
    for pts in (below[:2] + inside, inside + above[1:3], [below[2]] + inside[:2] + [above[2]]):
        arr = np.array(pts)
        arr = arr[rng.permutation(len(arr))]
        will_raise = any(isinstance(expect(float(x)), str) for x in arr if x < -20 or x > 1000)
        got, exc = call(arr)
        mon["beyond_eval"] += 1
        if exc is not None:
            if not will_raise:
                viol.append({"mech": "beyond-table-unexpected-raise",
                             "msg": f"J_{kind} modes ({lo},{up}) array {arr.tolist()} raised "
                             f"{exc!r}", "data": {}})
            continue
        if will_raise:
            viol.append({"mech": "beyond-table-error-mode-does-not-raise",
                         "msg": f"J_{kind} modes ({lo},{up}) array {arr.tolist()} did not raise",
                         "data": {}})
            continue
        got = np.asarray(got, dtype=float)
        for j, x in enumerate(arr):
            single = np.ravel(np.asarray(obj(float(x)), dtype=float))
            if got.shape != (len(arr), 2) or not np.array_equal(got[j], single):
                viol.append({"mech": "beyond-table-array-vs-scalar",
                             "msg": f"J_{kind} modes ({lo},{up}): element {j} of array call "
                             f"{arr.tolist()} = {got[j].tolist() if got.ndim == 2 else got.shape}"
                             f" but the single call gives {single.tolist()}", "data": {}})
                break
    # continuity at the ends for the continuous modes
    for end, side, mode in ((-20.0, -1, lo), (1000.0, +1, up)):
        if mode in ("CONSTANT", "FUNCTION") and not (lo == "ERROR" and up == "ERROR"):
            a = np.ravel(np.asarray(obj(end + side * 1e-9), dtype=float))
            b = np.ravel(np.asarray(obj(end), dtype=float))
            mon["beyond_eval"] += 1
            lip = 4.0 if end < 0 else 1e-9
            if not np.all(np.abs(a - b) <= 1e-9 * lip + 4e-16 * np.abs(b)):
                viol.append({"mech": "beyond-table-discontinuous-at-end",
                             "msg": f"J_{kind} mode {mode} at {end}: {a.tolist()} just outside "
                             f"vs {b.tolist()} on the end", "data": {}})
    obs = {"J": kind, "lower": lo, "upper": up, "raised": raised, "worst": worst}
    return {"key": f"beyond:{kind}:{lo}:{up}:{case['s'] % 1009}", "cls": ["beyond", f"modes:{lo}:{up}"],
            "nontrivial": True, "obs": obs, "viol": _dedup(viol), "mon": mon}


# ------------------------------------------------------------------ one-loop potential
class _RecJ:
    """Recording wrapper around a real JbIntegral/JfIntegral (harness-side monitor)."""

    def __init__(self, real, log):
        self._real = real
        self._log = log

    def __call__(self, x, *a, **k):
        out = self._real(x, *a, **k)
        self._log.append((np.array(x, dtype=float, copy=True), np.array(out, dtype=float, copy=True)))
        return out

    def __getattr__(self, name):
        return getattr(self._real, name)


class _RecIntegrals:
    def __init__(self, real):
        self.real = real
        self.logb, self.logf = [], []
        self.Jb = _RecJ(real.Jb, self.logb)
        self.Jf = _RecJ(real.Jf, self.logf)


_TABLE_OBJ = {}


def _table_integrals(lo, up):
    """Integrals object of the real class whose Jb/Jf carry the shipped tables (read once
    per process through the real readInterpolationTable) with the given mode pair."""
    from WallGo import PotentialTools, EExtrapolationType
    if "I" not in _TABLE_OBJ:
        integ = PotentialTools.Integrals()
        integ.Jb = _fresh("b", True)
        integ.Jf = _fresh("f", True)
        _TABLE_OBJ["I"] = integ
    integ = _TABLE_OBJ["I"]
    for o in (integ.Jb, integ.Jf):
        o.setExtrapolationType(EExtrapolationType[lo], EExtrapolationType[up])
        o.disableAdaptiveInterpolation()
    return integ


def _make_pot(spec, src, opt):
    """Small EffectivePotentialNoResum subclass: one field phi, boson/fermion spectra
    m_i^2 = a_i + g_i*phi + t_i*T^2 (linear in phi so that m^2 crosses 0 exactly)."""
    from WallGo import PotentialTools
    from WallGo.PotentialTools import EffectivePotentialNoResum, EImaginaryOption

    class Pot(EffectivePotentialNoResum):
        fieldCount = 1
        effectivePotentialError = 1e-8

        def _info(self, which, fields, temperature):
            sp = spec[which]
            phi = np.asarray(fields, dtype=float)[..., 0]
            T = np.asarray(temperature, dtype=float)
            base = phi * 0.0 + T * 0.0
            m2 = (np.asarray(sp["a"]) + np.asarray(sp["g"]) * (base + phi)[..., None]
                  + np.asarray(sp["t"]) * (base + T ** 2)[..., None])
            return m2, np.asarray(sp["n"], dtype=float), np.asarray(sp["c"]), np.asarray(sp["mu"])

        def bosonInformation(self, fields, temperature):
            return self._info("b", fields, temperature)

        def fermionInformation(self, fields, temperature):
            return self._info("f", fields, temperature)

        def evaluate(self, fields, temperature):
            b = self.bosonInformation(fields, temperature)
            f = self.fermionInformation(fields, temperature)
            return np.asarray(self.potentialOneLoop(b, f)
                              + self.potentialOneLoopThermal(b, f, temperature))

    option = EImaginaryOption[opt]
    if src == "direct":
        pot = Pot(integrals=PotentialTools.Integrals(), imaginaryOption=option)
        for o in (pot.integrals.Jb, pot.integrals.Jf):
            o.disableAdaptiveInterpolation()
    elif src == "default":
        pot = Pot(useDefaultInterpolation=True, imaginaryOption=option)
    else:
        _, lo, up = src.split(":")
        pot = Pot(integrals=_table_integrals(lo, up), imaginaryOption=option)
    rec = _RecIntegrals(pot.integrals)
    pot.integrals = rec
    return pot, rec


def _src_modes(src):
    if src == "direct":
        return None
    if src == "default":
        return ("CONSTANT", "CONSTANT")
    _, lo, up = src.split(":")
    return (lo, up)


def _species(rng, nb, nf):
    def one(n):
        return {"a": [0.0] * n, "g": [0.0] * n, "t": [0.0] * n,
                "n": [float(rng.integers(1, 25)) for _ in range(n)],
                "c": [float(rng.choice([0.5, 1.5])) for _ in range(n)],
                "mu": [float(10 ** rng.uniform(-1, 2)) for _ in range(n)]}
    return {"b": one(nb), "f": one(nf)}


def _temperature(rng):
    if rng.random() < 0.5:
        return float(10 ** rng.uniform(-2, 3))
    return 10 ** rng.uniform(-2, 3, size=int(rng.integers(1, 4)))


def _j_ref_tol(kind, x, src, negref=True):
    """(ref Re J, tolerance) for the value the given integral source returns at x, or None
    when that combination is not judged here (covered by the rows / beyond monitors)."""
    modes = _src_modes(src)
    x = float(x)
    if modes is None:
        r = np.array(ref_J(kind, x)) if x != 0 else np.array(
            [_oracle().JB0 if kind == "b" else _oracle().JF0, 0.0])
        return r[0], float(tq(r)[0])
    X = np.asarray(_default(kind)._interpolationPoints, dtype=float)
    V = np.asarray(_default(kind)._interpolationValues, dtype=float)
    if -20.0 <= x <= 1000.0:
        if x < 0 and not negref:
            return None
        r, t, _ = table_tolerance(kind, X, x)
        return r[0], float(t[0])
    mode = modes[0] if x < -20 else modes[1]
    if mode == "NONE" or modes == ("NONE", "NONE"):
        r = np.array(ref_J(kind, x))
        return r[0], float(tq(r)[0])
    if mode == "CONSTANT":
        v = V[0, 0] if x < -20 else V[-1, 0]
        return v, 4e-16 * max(1.0, abs(v))
    return None


def _case_pot(case):
    _reset_default_modes()          # canonical start state: the workload is order-independent
    try:
        return _pot_inner(case)
    finally:
        _reset_default_modes()


def _thermal_expected(rec, nb, nf, T):
    """Closed-form assembly  T^4/(2 pi^2) (sum n_B Re J_b + sum n_F Re J_f)  from the values
    the integrals actually returned (last recorded call of each)."""
    jb = rec.logb[-1][1][..., 0]
    jf = rec.logf[-1][1][..., 0]
    T = np.asarray(T, dtype=float)
    tot = np.sum(np.asarray(nb) * jb, axis=-1) + np.sum(np.asarray(nf) * jf, axis=-1)
    mag = np.sum(np.abs(np.asarray(nb) * jb), axis=-1) + np.sum(np.abs(np.asarray(nf) * jf), axis=-1)
    return tot * T ** 4 / (2 * math.pi ** 2), mag * T ** 4 / (2 * math.pi ** 2)


def _pot_inner(case):
    from WallGo import PotentialTools
    O = _oracle()
    scn, src, opt = case["scn"], case["src"], case["opt"]
    rng = np.random.default_rng(case["s"])
    viol = []
    mon = {"pot_assembly": 0, "pot_stefan_boltzmann": 0, "pot_heavy": 0, "pot_continuity": 0,
           "pot_cw": 0, "pot_global_state": 0, "pot_args": 0, "pot_j_vs_ref": 0,
           "pot_error_option": 0}
    worst = {}
    obs = {"scn": scn, "src": src, "opt": opt}
    modes = _src_modes(src)
    nb, nf = int(rng.integers(1, 6)), int(rng.integers(0, 5))
    spec = _species(rng, nb, nf)
    NB, NF = np.array(spec["b"]["n"]), np.array(spec["f"]["n"])
    obs["nB"], obs["nF"] = NB.tolist(), NF.tolist()
    pref = 1.0 / (2 * math.pi ** 2)

    def V(msg, mech, **d):
        viol.append({"mech": mech, "msg": f"[{scn} src={src} opt={opt}] " + msg,
                     "data": {"nB": NB.tolist(), "nF": NF.tolist(), **d}})

    def thermal(pot, rec, m2b, m2f, T, opt=opt):
        """Call the real potentialOneLoopThermal; judge arguments + assembly (opt = the
        imaginary option the potential was built with)."""
        del rec.logb[:], rec.logf[:]
        bos = (np.asarray(m2b, dtype=float), NB, np.asarray(spec["b"]["c"]), np.asarray(spec["b"]["mu"]))
        fer = (np.asarray(m2f, dtype=float), NF, np.asarray(spec["f"]["c"]), np.asarray(spec["f"]["mu"]))
        neg = bool(np.any(bos[0] < 0) or np.any(fer[0] < 0))
        try:
            got = pot.potentialOneLoopThermal(bos, fer, T)
        except ValueError as exc:
            mon["pot_error_option"] += 1
            if opt == "ERROR" and neg:
                return None
            if modes and "ERROR" in modes:
                return None
            V(f"potentialOneLoopThermal raised {exc!r}", "thermal-potential-unexpected-raise")
            return None
        if opt == "ERROR" and neg:
            mon["pot_error_option"] += 1
            V("negative m^2 with EImaginaryOption.ERROR did not raise",
              "imaginary-option-error-does-not-raise")
        got = np.asarray(got, dtype=float)
        Ta = np.asarray(T, dtype=float)
        t2 = Ta ** 2 + 1e-100
        if t2.ndim > 0:
            t2 = t2[:, None]
        for which, m2, log in (("b", bos[0], rec.logb), ("f", fer[0], rec.logf)):
            mm = np.abs(m2) if opt == "ABS_ARGUMENT" else m2
            want = mm / t2
            mon["pot_args"] += 1
            if not log or log[-1][0].shape != np.shape(want) or not np.array_equal(log[-1][0], want):
                V(f"J_{which} was called with {log[-1][0].tolist() if log else None}, expected "
                  f"m^2/T^2 = {np.asarray(want).tolist()}", "thermal-potential-wrong-argument")
                return got
        exp, mag = _thermal_expected(rec, NB, NF, T)
        mon["pot_assembly"] += 1
        tol = 16 * np.finfo(float).eps * (mag + 1e-300) * (nb + nf + 2)
        if opt == "ABS_RESULT" and neg:
            # "absolute value of the analytically continued integral": only the magnitude
            # is judged here; the sign is the business of the continuity monitor
            err = np.abs(np.abs(got) - np.abs(exp))
        else:
            err = np.abs(got - exp)
        if got.shape != np.shape(exp) or not np.all(err <= tol):
            V(f"V_T = {got.tolist()} but T^4/(2pi^2) sum n J (from the J values returned) = "
              f"{np.asarray(exp).tolist()}", "thermal-sum-assembly", T=np.asarray(T).tolist())
        else:
            _worst(worst, "assembly", float(np.max(err / tol)), {})
        return got

    # ------------------------------------------------------------------ scenarios
    if scn in ("massless", "heavy", "random", "contEnd"):
        pot, rec = _make_pot(spec, src, opt)
        T = _temperature(rng)
        Ta = np.asarray(T, dtype=float)
        shape = Ta.shape
        obs["T"] = Ta.tolist()

    if scn == "massless":
        got = thermal(pot, rec, np.zeros(shape + (nb,)), np.zeros(shape + (nf,)), T)
        if got is not None:
            exp = -PI2 / 90.0 * (NB.sum() + 7.0 / 8.0 * NF.sum()) * Ta ** 4
            tb = _j_ref_tol("b", 0.0, src)[1]
            tf = _j_ref_tol("f", 0.0, src)[1]
            tol = pref * Ta ** 4 * (NB.sum() * tb + NF.sum() * tf)
            err = np.abs(got - exp)
            mon["pot_stefan_boltzmann"] += 1
            _worst(worst, "stefan_boltzmann", float(np.max(err / tol)),
                   {"rel_err": float(np.max(err / np.abs(exp))), "tolJb": tb, "tolJf": tf})
            if not np.all(err <= tol):
                V(f"massless V_T = {got.tolist()} vs -pi^2/90 (n_B + 7/8 n_F) T^4 = "
                  f"{exp.tolist()} (tolerance {tol.tolist()})", "stefan-boltzmann-limit")

    elif scn == "heavy":
        xmax = 3000.0 if not (modes and modes[1] == "FUNCTION") else 1000.0
        xb = 10 ** rng.uniform(math.log10(30), math.log10(xmax), size=shape + (nb,))
        xf = 10 ** rng.uniform(math.log10(30), math.log10(xmax), size=shape + (nf,))
        t2 = (Ta ** 2)[..., None] if shape else Ta ** 2
        got = thermal(pot, rec, xb * t2, xf * t2, T)
        if got is not None and rec.logb:
            xrb, xrf = rec.logb[-1][0], rec.logf[-1][0]
            lob, hib = O.envelope("b", xrb)
            lof, hif = O.envelope("f", xrf) if nf else (np.zeros(shape + (0,)), np.zeros(shape + (0,)))
            tolb = np.vectorize(lambda x: (_j_ref_tol("b", x, src) or (0, 0))[1] + (
                abs(_j_ref_tol("b", x, src)[0]) if x > 1000 and modes and modes[1] == "CONSTANT" else 0.0))(xrb)
            tolf = (np.vectorize(lambda x: (_j_ref_tol("f", x, src) or (0, 0))[1] + (
                abs(_j_ref_tol("f", x, src)[0]) if x > 1000 and modes and modes[1] == "CONSTANT" else 0.0))(xrf)
                if nf else np.zeros(shape + (0,)))
            scale = pref * Ta ** 4
            hi = scale * (np.sum(NB * hib, axis=-1) + np.sum(NF * hif, axis=-1))
            lo_ = scale * (np.sum(NB * lob, axis=-1) + np.sum(NF * lof, axis=-1))
            fl = scale * (np.sum(NB * tolb, axis=-1) + np.sum(NF * tolf, axis=-1))
            massless = PI2 / 90.0 * (NB.sum() + 7.0 / 8.0 * NF.sum()) * Ta ** 4
            mon["pot_heavy"] += 1
            obs["suppression"] = float(np.max(np.abs(got) / massless))
            ok = np.all(got <= fl) and np.all(np.abs(got) <= hi * (1 + 1e-9) + fl) \
                and np.all(np.abs(got) >= lo_ * (1 - 1e-9) - fl)
            if not ok:
                V(f"heavy spectrum x_b={xrb.tolist()} x_f={xrf.tolist()}: V_T = {got.tolist()} "
                  f"outside the Boltzmann envelope -[{lo_.tolist()}, {hi.tolist()}] "
                  f"(+-{fl.tolist()})", "heavy-not-boltzmann-suppressed")

    elif scn == "random":
        lo_x = -25.0
        if modes and modes[0] == "FUNCTION":
            lo_x = -20.0
        hi_x = 1000.0 if (modes and modes[1] == "FUNCTION") else 1500.0

        def draw(n, allow_neg):
            x = np.where(rng.random(shape + (n,)) < 0.5, rng.uniform(0, 30, size=shape + (n,)),
                         10 ** rng.uniform(-6, math.log10(hi_x), size=shape + (n,)))
            if allow_neg and n:
                idx = tuple(int(rng.integers(0, s)) for s in x.shape)
                x[idx] = rng.uniform(lo_x, 0.0)
            return x
        negB = rng.random() < 0.5
        negF = rng.random() < 0.35
        xb, xf = draw(nb, negB), draw(nf, negF)
        t2 = (Ta ** 2)[..., None] if shape else Ta ** 2
        got = thermal(pot, rec, xb * t2, xf * t2, T)
        obs["neg"] = [bool(negB), bool(negF and nf > 0)]
        if got is not None and rec.logb:
            negref = (src == "direct") or bool(case["s"] % 4 == 0)
            for kind, log in (("b", rec.logb), ("f", rec.logf)):
                xr, jr = log[-1]
                for x, j in zip(np.ravel(xr), jr.reshape(-1, 2)):
                    rt = _j_ref_tol(kind, x, src, negref)
                    if rt is None:
                        continue
                    mon["pot_j_vs_ref"] += 1
                    e = abs(j[0] - rt[0])
                    _worst(worst, "j_vs_ref", e / rt[1], {"x": float(x), "J": kind})
                    if not e <= rt[1]:
                        inside = modes is not None and -20 <= x <= 1000
                        mech = (_row_mech(kind, x) if inside else _direct_mech(kind, x))
                        V(f"Re J_{kind}({x!r}) = {j[0]!r} returned to the potential vs "
                          f"reference {rt[0]!r} (|diff| {e:.3e} > {rt[1]:.3e})", mech, x=float(x))

    elif scn == "contEnd":
        lo_m, up_m = modes
        for end, kind in ((-20.0, "b" if rng.random() < 0.5 or nf == 0 else "f"), (1000.0, "b")):
            L = 1.5 * abs(ref_dJ(kind, end)[0])
            for delta in (1e-3, 1e-6, 1e-9):
                vals = {}
                for sgn in (-1.0, 1.0):
                    m2b = np.array([3.0 + i for i in range(nb)], dtype=float)
                    m2f = np.array([2.0 + i for i in range(nf)], dtype=float)
                    if kind == "b":
                        m2b[0] = end + sgn * delta
                    else:
                        m2f[0] = end + sgn * delta
                    Ts = 1.0
                    got = thermal(pot, rec, m2b * Ts ** 2, m2f * Ts ** 2, Ts)
                    vals[sgn] = None if got is None else float(got)
                outside = -1.0 if end < 0 else 1.0
                mode = lo_m if end < 0 else up_m
                mon["pot_continuity"] += 1
                if mode == "ERROR" or (lo_m, up_m) == ("ERROR", "ERROR"):
                    if vals[outside] is not None:
                        V(f"x = {end}{'-' if end < 0 else '+'}{delta} with mode ERROR did not "
                          "raise", "beyond-table-error-mode-does-not-raise")
                    continue
                if vals[-1.0] is None or vals[1.0] is None:
                    continue
                n0 = NB[0] if kind == "b" else NF[0]
                X_ = np.asarray(_default(kind)._interpolationPoints, dtype=float)
                tin = float(tq(ref_J(kind, end)[0]))
                if mode == "NONE":
                    tolJ = 2 * delta * L + 2 * tin
                else:
                    tolJ = 2 * delta * L + 1e-14 * max(1.0, abs(ref_J(kind, end)[0]))
                tol = pref * n0 * tolJ + 64 * np.finfo(float).eps * abs(vals[1.0])
                jump = abs(vals[1.0] - vals[-1.0])
                _worst(worst, "continuity_end", jump / tol, {"end": end, "delta": delta, "mode": mode})
                if not jump <= tol:
                    V(f"V_T jumps by {jump:.3e} (> {tol:.3e}) when x_{kind} crosses the table end "
                      f"{end} by +-{delta} with mode {mode}", "discontinuous-across-table-end",
                      end=end, delta=delta, mode=mode)

    elif scn == "cont0":
        kind = "b" if (nf == 0 or rng.random() < 0.7) else "f"
        sp = spec[kind]
        g = float(10 ** rng.uniform(-1, 1))
        sp["g"][0] = g
        for k2 in "bf":
            for i in range(len(spec[k2]["a"])):
                if not (k2 == kind and i == 0):
                    spec[k2]["a"][i] = float(rng.uniform(0.0, 20.0))
        pot, rec = _make_pot(spec, src, opt)
        T = float(10 ** rng.uniform(-1, 1.5))
        for k2 in "bf":
            spec[k2]["a"] = [a * T * T for a in spec[k2]["a"]]
        n0 = (NB if kind == "b" else NF)[0]
        c0, mu0 = sp["c"][0], sp["mu"][0]
        obs.update(T=T, species=kind)
        dJ0 = abs((O.DJB0 if kind == "b" else O.DJF0))
        for delta in (1e-2, 1e-4, 1e-6, 1e-9, 1e-12):
            phi = delta * T * T / g
            vals, parts = {}, {}
            for sgn in (-1.0, 1.0):
                from WallGo import Fields
                fld = Fields([sgn * phi])
                try:
                    vals[sgn] = float(np.ravel(pot.evaluate(fld, T))[0])
                    bi, fi = pot.bosonInformation(fld, T), pot.fermionInformation(fld, T)
                    parts[sgn] = (float(np.ravel(pot.potentialOneLoop(bi, fi))[0]),
                                  float(np.ravel(pot.potentialOneLoopThermal(bi, fi, T))[0]))
                except ValueError:
                    vals[sgn] = None
            mon["pot_continuity"] += 1
            if opt == "ERROR":
                mon["pot_error_option"] += 1
                if vals[-1.0] is not None or vals[1.0] is None:
                    V(f"EImaginaryOption.ERROR: V(m^2=-{delta}T^2) = {vals[-1.0]!r} (ValueError "
                      f"expected), V(m^2=+{delta}T^2) = {vals[1.0]!r} (value expected)",
                      "imaginary-option-error-does-not-raise")
                continue
            if vals[-1.0] is None or vals[1.0] is None:
                V(f"evaluate raised ValueError at m^2 = +-{delta} T^2", "thermal-potential-unexpected-raise")
                continue
            jump = abs(vals[1.0] - vals[-1.0])
            if opt == "ABS_ARGUMENT":
                tol = 0.0          # |m^2| is the same number on both sides
                _worst(worst, "continuity_zero_abs_argument", jump, {"delta": delta})
            else:
                L = 1.05 * max(dJ0, abs(ref_dJ(kind, -delta)[0]), abs(ref_dJ(kind, delta)[0]))
                if modes is None:
                    tolJ = 2 * delta * L + 2 * float(tq(O.JB0))
                else:
                    # the spline is C^2; its slope near 0 differs from J' by the model error
                    tolJ = 2 * delta * (L + 0.05) + 1e-14
                m2 = delta * T * T
                cw = 2 * n0 * m2 ** 2 * (abs(math.log(m2 / mu0 ** 2)) + c0 + math.pi) / (64 * PI2)
                tol = pref * T ** 4 * n0 * tolJ + cw + 64 * np.finfo(float).eps * abs(vals[1.0])
                _worst(worst, "continuity_zero", jump / tol, {"delta": delta, "jump": jump})
            if not jump <= tol:
                mech = "discontinuous-across-zero-mass"
                why = ""
                if opt == "ABS_RESULT":
                    mj = abs(abs(parts[1.0][0]) - abs(parts[-1.0][0])) \
                        + abs(abs(parts[1.0][1]) - abs(parts[-1.0][1]))
                    if mj <= tol and (parts[1.0][0] < 0 or parts[1.0][1] < 0):
                        mech = "abs-result-option-flips-sign-of-potential"
                        why = (f"; magnitudes are continuous, but (V_CW, V_T) = {parts[1.0]} for "
                               f"m^2>0 and {parts[-1.0]} for m^2<0: abs() of a negative real "
                               "potential is applied as soon as any m^2 < 0")
                V(f"V(phi) jumps by {jump:.3e} (> {tol:.3e}) when m^2 of a J_{kind} species "
                  f"crosses 0 by +-{delta} T^2 (T={T!r}){why}", mech, delta=delta, T=T)

    elif scn == "cw":
        pot, rec = _make_pot(spec, "direct", opt)
        npts = int(rng.integers(1, 4))
        scale = float(10 ** rng.uniform(-1, 2))
        m2b = rng.uniform(-1, 1, size=(npts, nb)) * scale ** 2
        m2f = rng.uniform(0, 1, size=(npts, nf)) * scale ** 2
        if rng.random() < 0.4:
            m2b = np.abs(m2b)
        if rng.random() < 0.3:
            m2b[0, 0] = 0.0
        if rng.random() < 0.15 and nf:
            m2f[0, 0] = -abs(m2f[0, 0])
        bos = (m2b, NB, np.asarray(spec["b"]["c"]), np.asarray(spec["b"]["mu"]))
        fer = (m2f, NF, np.asarray(spec["f"]["c"]), np.asarray(spec["f"]["mu"]))
        neg = bool(np.any(m2b < 0) or np.any(m2f < 0))

        def jcw(m2, n, c, mu):
            a = np.abs(m2)
            with np.errstate(divide="ignore", invalid="ignore"):
                lg = np.where(a > 0, np.log(np.where(a > 0, a, 1.0) / mu ** 2), 0.0)
            re = n * m2 ** 2 * (lg - c) / (64 * PI2)
            im = n * m2 ** 2 * math.pi * (m2 < 0) / (64 * PI2)
            return re, im
        mb, mf = (np.abs(m2b), np.abs(m2f)) if opt == "ABS_ARGUMENT" else (m2b, m2f)
        rb, ib = jcw(mb, NB, bos[2], bos[3])
        rf, if_ = jcw(mf, NF, fer[2], fer[3])
        re = rb.sum(-1) - rf.sum(-1)
        im = ib.sum(-1) - if_.sum(-1)
        mag = np.abs(rb).sum(-1) + np.abs(rf).sum(-1) + np.abs(ib).sum(-1) + np.abs(if_).sum(-1)
        absres = opt == "ABS_RESULT" and neg
        exp = np.hypot(re, im) if absres else re
        mon["pot_cw"] += 1
        obs["neg"] = neg
        try:
            got = np.asarray(pot.potentialOneLoop(bos, fer))
            raised = False
        except ValueError:
            raised = True
        if opt == "ERROR" and neg:
            mon["pot_error_option"] += 1
            if not raised:
                V("potentialOneLoop with negative m^2 and EImaginaryOption.ERROR did not raise",
                  "imaginary-option-error-does-not-raise")
        elif raised:
            V("potentialOneLoop raised ValueError", "cw-unexpected-raise")
        else:
            tol = 64 * np.finfo(float).eps * (mag + 1e-300) * 40
            gr = np.abs(got.real) if absres else got.real     # magnitude only, see thermal()
            bad = (got.shape != exp.shape or np.iscomplexobj(got) and np.any(got.imag != 0)
                   or not np.all(np.abs(gr - exp) <= tol))
            if not bad:
                _worst(worst, "cw", float(np.max(np.abs(gr - exp) / tol)), {})
            if bad:
                V(f"potentialOneLoop = {got.tolist()} vs closed form {exp.tolist()} for "
                  f"m2_b={m2b.tolist()} m2_f={m2f.tolist()}", "coleman-weinberg-closed-form")

    elif scn == "global":
        D = PotentialTools.defaultIntegrals

        def state():
            return {k: {"lower": o.extrapolationTypeLower.name, "upper": o.extrapolationTypeUpper.name,
                        "adaptive": bool(o._bUseAdaptiveInterpolation),
                        "range": [float(o.interpolationRangeMin()), float(o.interpolationRangeMax())],
                        "n": int(o.numPoints()),
                        "sum": float(np.sum(np.asarray(o._interpolationValues))),
                        "id": id(o)}
                    for k, o in (("Jb", D.Jb), ("Jf", D.Jf))}
        snapX = {k: (np.array(o._interpolationPoints), np.array(o._interpolationValues))
                 for k, o in (("Jb", D.Jb), ("Jf", D.Jf))}
        probe = float(rng.uniform(-40, -21))
        before = state()
        visible_before = np.ravel(np.asarray(D.Jb(probe), dtype=float))
        pot, rec = _make_pot(spec, "default", opt)
        after = state()
        visible_after = np.ravel(np.asarray(D.Jb(probe), dtype=float))
        mon["pot_global_state"] += 1
        obs["before"] = {k: [v["lower"], v["upper"]] for k, v in before.items()}
        obs["after"] = {k: [v["lower"], v["upper"]] for k, v in after.items()}
        obs["modes_mutated"] = obs["before"] != obs["after"]
        obs["side_effect_visible"] = bool(not np.array_equal(visible_before, visible_after))
        if rec.real is not D:
            V("useDefaultInterpolation=True does not use PotentialTools.defaultIntegrals",
              "default-integrals-not-used")
        for k, o in (("Jb", D.Jb), ("Jf", D.Jf)):
            same = (np.array_equal(snapX[k][0], o._interpolationPoints)
                    and np.array_equal(snapX[k][1], o._interpolationValues)
                    and before[k]["range"] == after[k]["range"] and after[k]["n"] == 10000
                    and before[k]["id"] == after[k]["id"] and not after[k]["adaptive"])
            if not same:
                V(f"module-global defaultIntegrals.{k} changed its table/range/adaptive flag when "
                  f"a potential was constructed: before {before[k]} after {after[k]}",
                  "default-integrals-table-mutated")
            if (after[k]["lower"], after[k]["upper"]) != ("CONSTANT", "CONSTANT"):
                V(f"defaultIntegrals.{k} modes after construction: {after[k]}",
                  "default-integrals-modes-not-constant")
        # same numbers as an independent object with the shipped tables in CONSTANT mode,
        # whatever was done to the global in between (order independence of users)
        T = _temperature(rng)
        Ta = np.asarray(T, dtype=float)
        shape = Ta.shape
        xb = rng.uniform(-30, 1200, size=shape + (nb,))
        xf = rng.uniform(0, 1200, size=shape + (nf,))
        t2 = (Ta ** 2)[..., None] if shape else Ta ** 2
        o2 = "PRINCIPAL_PART" if opt == "ERROR" else opt
        potA, recA = _make_pot(spec, "default", o2)
        a = thermal(potA, recA, xb * t2, xf * t2, T, opt=o2)
        potB, recB = _make_pot(spec, "table:CONSTANT:CONSTANT", o2)
        b = thermal(potB, recB, xb * t2, xf * t2, T, opt=o2)
        mon["pot_global_state"] += 1
        if a is None or b is None or not np.array_equal(a, b):
            V(f"potential on the module default integrals gives {None if a is None else a.tolist()}"
              f", on an independent table object in CONSTANT mode "
              f"{None if b is None else b.tolist()}", "default-integrals-history-dependent")
    else:
        raise ValueError(scn)

    obs["worst"] = worst
    h = (case["s"] % 9973)
    return {"key": f"pot:{scn}:{src}:{opt}:{nb}:{nf}:{h}", "cls": [f"pot:{scn}", f"src:{src.split(':')[0]}",
                                                                  f"opt:{opt}"],
            "nontrivial": bool(sum(mon.values()) > 0), "obs": obs, "viol": _dedup(viol), "mon": mon}


# ------------------------------------------------------------------------------ evidence
def summarize(results, tier):
    worst = {}
    model = {}
    rel_large = {"rows": 0.0, "direct": 0.0, "exact_zero_from_x": None}
    glob = {"cases": 0, "modes_mutated": 0, "side_effect_visible": 0, "before": None, "after": None}
    modepairs = set()
    supp = []
    bad_rows = {"b": [], "f": []}
    meta = {}
    for r in results:
        if r.get("inconclusive"):
            continue
        o = r.get("obs", {})
        wd = o.get("worst")
        for name, w in (wd.items() if isinstance(wd, dict) else ()):
            if not isinstance(w, dict) or "ratio" not in w:
                continue
            cur = worst.setdefault(name, {"max_ratio": 0.0, "case_maxima": [], "where": None})
            cur["case_maxima"].append(w["ratio"])
            if w["ratio"] >= cur["max_ratio"]:
                cur["max_ratio"] = w["ratio"]
                cur["where"] = {k: v for k, v in w.items() if k != "ratio"}
        c = r.get("case", {})
        if c.get("kind") == "rows":
            reg = _region(c["J"], o["x"])
            m = model.setdefault(reg, {"val": 0.0, "der": 0.0})
            m["val"] = max(m["val"], o["model_err"]["val"])
            m["der"] = max(m["der"], o["model_err"]["der"])
            bad_rows[c["J"]] += o.get("bad_rows", [])
            if o.get("rel_large"):
                rel_large["rows"] = max(rel_large["rows"], o["rel_large"]["max_rel_row"])
        if c.get("kind") == "direct" and o.get("rel_large"):
            rel_large["direct"] = max(rel_large["direct"], o["rel_large"]["max_rel"])
            z = o["rel_large"].get("exact_zero_from_x")
            if z is not None:
                rel_large["exact_zero_from_x"] = min(z, rel_large["exact_zero_from_x"] or 1e9)
        if c.get("kind") == "beyond":
            modepairs.add(f"{c['lower']}:{c['upper']}")
        if c.get("kind") == "tablemeta":
            meta[c["J"]] = o
        if c.get("kind") == "pot" and c.get("scn") == "global":
            glob["cases"] += 1
            glob["modes_mutated"] += int(bool(o.get("modes_mutated")))
            glob["side_effect_visible"] += int(bool(o.get("side_effect_visible")))
            glob["before"], glob["after"] = o.get("before"), o.get("after")
        if c.get("kind") == "pot" and "suppression" in o:
            supp.append(o["suppression"])
    for name, cur in worst.items():
        a = np.array(cur.pop("case_maxima"))
        cur["median_of_case_maxima"] = float(np.median(a))
        cur["p99_of_case_maxima"] = float(np.quantile(a, 0.99))
        cur["cases"] = int(len(a))
    return {
        "residual_over_tolerance": worst,
        "exact_data_spline_error_by_region": model,
        "tolerances": {"EPS_QUAD": EPS_QUAD, "K_QUAD": K_QUAD, "K_MODEL": K_MODEL,
                       "LEB_V": LEB_V, "LEB_D": LEB_D, "W": W},
        "relative_error_for_x_gt_100_not_judged": rel_large,
        "table_rows_off_reference": {k: sorted(set(v)) for k, v in bad_rows.items()},
        "table_meta": meta,
        "default_integrals_global_state": glob,
        "extrapolation_mode_pairs_exercised": sorted(modepairs),
        "heavy_suppression_max_ratio_to_massless": float(max(supp)) if supp else None,
    }


def _region(kind, xr):
    a, b = xr
    for lo, hi, name in ((-20, -11, "[-20,-11)"), (-11, -9, "[-11,-9) (J_f branch point -pi^2)"),
                         (-9, -1.5, "[-9,-1.5)"), (-1.5, 1.5, "[-1.5,1.5) (branch point 0)"),
                         (1.5, 30, "[1.5,30)"), (30, 1001, "[30,1000]")):
        if a < hi:
            return f"J_{kind} {name}"
    return f"J_{kind} other"
