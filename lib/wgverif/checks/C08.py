"""C08 — covariance under relabelling of field space (translation of the origin, reflection
of a field, permutation of the fields).  Metamorphic relation between recorded runs of the
real pipeline on the *same* physical model expressed in different code fields
x = A phi + b (wgverif.models.potentials applies A, b consistently to the potential, the
particle masses and their derivatives, the phase guesses and the per-field variation
scales).
"""
from __future__ import annotations

import itertools
import math

import numpy as np

from wgverif import env  # noqa: F401
from wgverif.checks import _meta as MT
from wgverif.models import potentials as P

PROPERTY = "C08"
RULE = ("two-field poly2 models (and one-field poly1 models for translation/reflection) with "
        "spinodal margins; reference run in physical fields, partner runs under a random "
        "signed permutation and a random translation of up to twice the vev per field.  "
        "Non-trivial: a pair whose reference run has a finite wall velocity; distinct by "
        "(model, transformation).")
ASSUMPTIONS = [
    "P_trace required of the reference run (counted as inadmissible otherwise)",
    "v_w agrees to 3 errTol; hydrodynamic scalars to K*(hydro rtol + phaseTracerTol/alpha_n) "
    "(they depend on V only through p(T)); widths/offsets to the calibrated Nelder-Mead "
    "tolerance; offsets are compared after moving the z-origin to the partner's first field",
]
CASE_TIMEOUT = 1800
CHUNK = 1
K = 30.0
TOL_WIDTH = 5e-2     # widths lag the pressure iteration (stops at pressRelErrTol=0.1):
                     # observed <= 2.3e-2 relative over 8 seeds
TOL_OFFSET = 2e-2
CFG = {"M": 25, "N": 5, "errTol": 1e-3, "phaseTracerTol": 1e-6, "hydro_rtol": 1e-6}
_CFG_ACTIVE = None
# fixed-velocity probe, same pinned field, converged iteration (pressRelErrTol 1e-3).
# Unchanged tree, quick seeds 0-3: P <= 2.8e-2, widths <= 3.2e-3, offsets <= 2.3e-5;
# the seeded kinetic-term change gives P 5e-2, widths 2.3e-3, offsets 4.6e-3
TOLP_PROBE, TOLW_PROBE, TOLO_PROBE = 0.1, 2e-2, 1e-3
FLOORS = {
    "quick": {"distinct_nontrivial": 4, "mon": {"pairs_compared": 12, "solve_pairs": 4,
                                                "sibling_instances": 3}},
    "thorough": {"distinct_nontrivial": 80, "mon": {"pairs_compared": 200, "solve_pairs": 80,
                                                    "sibling_instances": 12}},
}


def worker_init():
    env.import_wallgo()


def generate(tier, seed):
    rng = np.random.default_rng(800 + seed)
    n = 13 if tier == "quick" else 36
    ntr = 2 if tier == "quick" else 7
    cases = []
    for i in range(n):
        fam = "poly2" if rng.random() < 0.75 else "poly1"
        if i % 3 == 1:
            fam = "poly1"     # one-field points mostly end in a finite velocity (floor solve_pairs)
        gen = "random_poly2_thick" if fam == "poly2" and rng.random() < 0.5 else "random_" + fam
        sfac = float(10 ** rng.uniform(-1, 2))
        forced = i % 4 == 0
        if forced:
            # two fields in units with T_n >> 1 and a pure exchange of the fields: the
            # relative wall offset changes sign, so one-sided absolute bounds or
            # tolerances on the wall parameters bite in one labelling only
            fam, gen, sfac = "poly2", "random_poly2_thick", float(10 ** rng.uniform(1.5, 2))
        spec = getattr(P, gen)(rng, s=sfac)
        nf = 2 if fam == "poly2" else 1
        trs = []
        if forced:
            trs.append({"perm": [1, 0], "signs": [float(x) for x in rng.choice([-1.0, 1.0], size=2)],
                        "shift_in_vev": [0.0, 0.0]})
        for _ in range(ntr - len(trs)):
            perm = [int(x) for x in rng.permutation(nf)]
            signs = [float(x) for x in rng.choice([-1.0, 1.0], size=nf)]
            kind = rng.random()
            shift = [0.0] * nf
            if kind < 0.7:
                shift = [float(x) for x in rng.uniform(-2, 2, size=nf)]   # in units of vev
            if kind > 0.85:
                perm, signs = list(range(nf)), [1.0] * nf                   # pure translation
                shift = [float(x) for x in rng.uniform(-2, 2, size=nf)]
            trs.append({"perm": perm, "signs": signs, "shift_in_vev": shift})
        c = {"i": i, "spec": spec, "transforms": trs}
        if forced:
            # let the pressure iteration converge (default stops at 10 %): otherwise thin
            # two-field walls end in the start-dependent regime recorded as a known finding,
            # which would absorb any other divergence between the labellings
            c["cfg"] = {"pressRelErrTol": 1e-3, "maxIterations": 60}
        cases.append(c)
    # out-of-equilibrium relabelling pairs, with the *other* labelling's model instance
    # created (and kept alive) before each solve: instances of one model class must not
    # share state (particle lists, mass functions)
    rng4 = np.random.default_rng(8800 + seed)
    for i in range(2 if tier == "quick" else 8):
        spec = P.random_poly1(rng4, s=float(10 ** rng4.uniform(-1, 2)))
        while spec["a"] < 3:
            spec = P.random_poly1(rng4, s=spec["s"])
        Tc_ = P.build_potential({**spec, "s": 1.0}).Tc()
        spec["Tn_over_s"] = 1.0 + float(rng4.uniform(0.65, 0.85)) * (Tc_ - 1.0)
        spec["particles"] = [{"name": "top", "coupling": float(rng4.uniform(0.2, 0.6)),
                              "field": 0, "statistics": "Fermion", "dofs": 12}]
        trs = [{"perm": [0], "signs": [float(rng4.choice([-1.0, 1.0]))],
                "shift_in_vev": [float(rng4.uniform(0.5, 2) * rng4.choice([-1, 1]))]}
               for _ in range(1 if tier == "quick" else 2)]
        cases.append({"i": 1000 + i, "spec": spec, "transforms": trs, "siblings": True,
                      "cfg": {"offEq": True, "kappa": float(rng4.choice([0.1, 0.3, 1.0])),
                              "M": 25, "N": 5, "pressRelErrTol": 1e-2, "maxIterations": 40}})
    return cases


def compare(ref, oth, tr, A, b, viol, tag):
    obs = {}
    aln = abs(ref["alN"])
    hyd_tol = K * (CFG["hydro_rtol"] + CFG["phaseTracerTol"] / max(aln, 1e-6))

    def fail(stage, q, d, tol, extra=""):
        viol.append({"mech": f"not-covariant:{stage}:{q}",
                     "msg": f"{tag}: {q} differs by {d:.3e} (tol {tol:.1e}) under x = A phi + b "
                     f"with perm {tr['perm']}, signs {tr['signs']}, shift {tr['shift_in_vev']} "
                     f"vev [{stage}] {extra}", "data": {"transform": tr}})

    fs = max(np.max(np.abs(ref["phase_low"])), np.max(np.abs(ref["phase_high"])), 1e-300)
    # phases move in the obvious way: x = A phi + b
    for ph in ("phase_high", "phase_low"):
        want = A @ ref[ph] + b
        d = float(np.max(np.abs(oth[ph] - want)) / fs)
        obs[ph] = d
        if d > 1e-3:
            fail("phases", ph, d, 1e-3)
    for k in ("H", "L"):
        for j in (0, 1):
            obs[f"range_{k}{j}_recorded"] = abs(ref["ranges"][k][j]
                                                - oth["ranges"][k][j]) / ref["Tn"]
        obs[f"flags_{k}_equal_recorded"] = ref["flags"][k] == oth["flags"][k]
    for q, tol in (("alN", hyd_tol), ("psiN", hyd_tol * aln), ("cs2", max(hyd_tol * aln * 10, 1e-5)),
                   ("cb2", max(hyd_tol * aln * 10, 1e-5))):
        d = abs(ref[q] - oth[q]) / (abs(ref[q]) + 1e-300)
        obs[q] = d
        if d > tol + 1e-9:
            fail("eos", q, d, tol)
    if ref["fastestDeflag"] == ref["vJ"] and oth["fastestDeflag"] == oth["vJ"]:
        d = abs(ref["vJ"] - oth["vJ"])
        obs["vJ"] = d
        if d > hyd_tol:
            fail("hydro", "vJ", d, hyd_tol)
    else:
        # the Chapman-Jouguet point lies beyond the end of a tabulated phase: vJ then comes
        # from the power-law extrapolation of the equation of state and is as sensitive to
        # the last table rows as the extrapolation is (P_margin); recorded only
        obs["vJ_beyond_range_recorded"] = abs(ref["vJ"] - oth["vJ"])
    a_, b_ = ref["vLTE"], oth["vLTE"]
    if a_ in (0.0, 1.0) or b_ in (0.0, 1.0):
        if a_ != b_:
            inter = a_ if 0 < a_ < 1 else b_
            if not (0 < inter < 1 and min(inter - ref["vMin"], ref["vJ"] - inter) < 1e-2):
                fail("lte", "vLTE sentinel", abs(a_ - b_), 0.0, f"({a_} vs {b_})")
    else:
        d = abs(a_ - b_)
        obs["vLTE"] = d
        if d > 10 * hyd_tol:
            fail("lte", "vLTE", d, 10 * hyd_tol)
    # fixed-velocity pressure probe (both runs start the iteration from the same physical
    # wall parameters): pressure, widths (permuted) and offsets (re-origined)
    pr, po = ref.get("probe"), oth.get("probe")
    # Judged only when the same physical field stays pinned at offset 0 (perm[0] == 0): the
    # tanh ansatz's action contains int (V - V_ref) dz, which changes by (shift x Delta V)
    # when the z origin moves to another field's wall centre, so away from the pressure's
    # zero the minimising widths/offsets legitimately depend on which field is pinned
    # (measured on the unchanged tree: offsets 0.30 vs 0.42 under a field exchange).
    if pr and po and "error" not in pr and "error" not in po and pr["ok"] and po["ok"] \
            and tr["perm"][0] == 0:
        perm = tr["perm"]
        prel = 1e-3      # the probe runs with pressRelErrTol = 1e-3 (see _meta._pipeline)
        scaleP = max(abs(pr["P_over_Tn4"]), abs(po["P_over_Tn4"]), 1e-300)
        dP = abs(pr["P_over_Tn4"] - po["P_over_Tn4"]) / scaleP
        obs["probe_P"] = dP
        Lr, dr = pr["widths"], pr["offsets"]
        Lo, do = po["widths"], po["offsets"]
        Lw = np.array([Lr[perm[j]] for j in range(len(perm))])
        dw = float(np.max(np.abs(Lo - Lw) / Lw))
        obs["probe_widths"] = dw
        p0 = perm[0]
        want = np.array([dr[perm[j]] - dr[p0] * Lr[p0] / Lr[perm[j]] for j in range(len(perm))])
        dd = float(np.max(np.abs(do - want)))
        obs["probe_offsets"] = dd
        hit = False
        if dP > TOLP_PROBE:
            fail("solve", "probe pressure", dP, TOLP_PROBE, f"at v_w={pr['vw']:.4f}")
            hit = True
        if dw > TOLW_PROBE:
            fail("solve", "probe widths (permuted)", dw, TOLW_PROBE, f"({Lo} vs {Lw})")
            hit = True
        if dd > TOLO_PROBE:
            fail("solve", "probe offsets (re-origined)", dd, TOLO_PROBE, f"({do} vs {want})")
            hit = True
        if hit:
            obs["_solve_diverged_at"] = [pr["vw"]]
    if "vw" in ref and "vw" in oth:
        if (ref["vw"] is None) != (oth["vw"] is None) or ref["solutionType"] != oth["solutionType"]:
            fail("solve", "outcome", 1.0, 0.0,
                 f"({ref['solutionType']}, v={ref['vw']} vs {oth['solutionType']}, v={oth['vw']})")
            cands = [max(ref["vMin"], 1e-3), 0.999 * min(ref["vJ"], ref["fastestDeflag"])]
            cands += [r_["vw"] for r_ in (ref, oth) if r_.get("vw") is not None]
            obs["_solve_diverged_at"] = cands
        elif ref["vw"] is not None and ref["success"] and oth["success"]:
            d = abs(ref["vw"] - oth["vw"])
            obs["vw"] = d
            if d > 3 * CFG["errTol"]:
                fail("solve", "wallVelocity", d, 3 * CFG["errTol"])
                obs["_solve_diverged_at"] = 0.5 * (ref["vw"] + oth["vw"])
            for q in ("Tplus", "Tminus"):
                d = abs(ref[q] - oth[q]) / ref["Tn"]
                obs[q] = d
                if d > 3 * CFG["errTol"] + hyd_tol:
                    fail("solve", q, d, 3 * CFG["errTol"] + hyd_tol)
            perm = tr["perm"]
            Lr, dr = ref["widths"], ref["offsets"]
            Lo, do = oth["widths"], oth["offsets"]
            # code field j of the partner is physical field perm[j]
            Lw = np.array([Lr[perm[j]] for j in range(len(perm))])
            dw = float(np.max(np.abs(Lo - Lw) / Lw))
            obs["widths"] = dw
            if dw > TOL_WIDTH:
                fail("solve", "widths (permuted)", dw, TOL_WIDTH, f"({Lo} vs {Lw})")
            # offsets: the first code field is pinned to 0, which fixes the z origin
            p0 = perm[0]
            want = np.array([dr[perm[j]] - dr[p0] * Lr[p0] / Lr[perm[j]]
                             for j in range(len(perm))])
            dd = float(np.max(np.abs(do - want)))
            obs["offsets"] = dd
            if dd > TOL_OFFSET:
                fail("solve", "offsets (re-origined)", dd, TOL_OFFSET, f"({do} vs {want})")
            if do[0] != 0.0:
                fail("solve", "first offset not pinned", abs(do[0]), 0.0)
            # field profiles: x(z') = A phi(z) + b with z' = z + L_p0 delta_p0; compare at
            # the end points (vevs) and through the tanh parameters above
            fp_ref = ref["fieldProfiles"]
            fp_oth = oth["fieldProfiles"]
            for idx, name in ((0, "low-T end"), (-1, "high-T end")):
                want_pt = A @ fp_ref[idx] + b
                d = float(np.max(np.abs(fp_oth[idx] - want_pt)) / fs)
                obs[f"profile_{name}"] = d
                # the end points are the vevs at T-+, which follow v_w (errTol = 1e-3) with
                # d ln phi / d ln T of a few; thorough tier, unchanged tree: 1.12e-3
                if d > 5e-3:
                    fail("solve", f"field profile {name}", d, 5e-3)
    return obs


def reclassify_solve(viol, nv, o, spec, cfg, mon):
    """Attribute a divergence at the solve stage to its mechanism when the monitor can
    show it: the real wallPressure at the velocity in question depends on the starting
    wall parameters by more than 3x its own relative tolerance."""
    v = o.pop("_solve_diverged_at", None)
    if v is None or not any(x["mech"].startswith("not-covariant:solve:") for x in viol[nv:]):
        return
    best = None
    for vv in (v if isinstance(v, list) else [v]):
        try:
            P1, P2, rel, rtol = MT.pressure_start_dependence(spec, cfg, float(vv))
        except Exception as exc:
            o["start_dependence_probe_error"] = repr(exc)[:100]
            continue
        mon["start_dependence_probes"] = mon.get("start_dependence_probes", 0) + 1
        if best is None or rel > best[3]:
            best = (float(vv), P1, P2, rel, rtol)
    if best is None:
        return
    v, P1, P2, rel, rtol = best
    o["start_dependence"] = {"vw": v, "P1": P1, "P2": P2, "rel": rel}
    early = False
    if rel > 3 * rtol:
        # the known finding is a start dependence between end states that are each a local
        # minimum of the action; an end state held by something else is not absorbed
        try:
            ends = MT.start_dependence_end_states(spec, cfg, v)
            o["start_dependence"]["end_states"] = ends
            early = all(e["stationary"] for e in ends)
            if not early:
                bad = [e for e in ends if not e["stationary"]][0]
                viol.append({"mech": "wall-parameters-not-a-minimum-of-the-action",
                             "msg": f"wallPressure({v:.5g}) ends at widths*Tn={bad['widthsTn']}"
                             f", offsets={bad['offsets']} where the action is lower by "
                             f"{-bad['action_drop_over_scale']:.2e} of its kinetic part at "
                             f"{bad['where']} (on {spec})", "data": {"end_states": ends}})
        except Exception as exc:
            o["start_dependence"]["end_state_probe_error"] = repr(exc)[:100]
    if rel > 3 * rtol and early:
        for x in viol[nv:]:
            if x["mech"].startswith("not-covariant:solve:"):
                x["msg"] += (f" | mechanism probe: wallPressure({v:.4g}) = {P1:.4e} from "
                             f"L0 and {P2:.4e} from L0/2.5 (relative tolerance {rtol})")
                x["mech"] = "pressure-iteration-start-dependent"


def run_case(case):
    spec = dict(case["spec"])
    mon = {"pipelines": 0, "pairs_compared": 0, "solve_pairs": 0}
    key0 = f"{spec['family']}:{case['i']}"
    viol, classes, keys, rows = [], [], [], []
    nf = 2 if spec["family"] == "poly2" else 1
    if spec["family"] == "poly2" and "particles" not in spec:
        pass
    cfg = dict(CFG, **case.get("cfg", {}))
    alive = []       # sibling model instances of the other labellings, kept alive on purpose

    def siblings_of(skip):
        def make():
            from wgverif.checks import _manager as MG
            vev_ = P.build_potential(spec).field_scale(spec["Tn_over_s"] * spec.get("s", 1.0)) \
                / spec.get("s", 1.0)
            for tr_ in ([{"perm": None}] + case["transforms"]):
                if tr_ is skip:
                    continue
                sp_ = dict(spec)
                if tr_.get("perm") is not None:
                    sp_["perm"], sp_["signs"] = tr_["perm"], tr_["signs"]
                    sp_["shift"] = [x * vev_ for x in tr_["shift_in_vev"]]
                alive.append(MG.build(sp_, cfg, setup=False))
                mon["sibling_instances"] = mon.get("sibling_instances", 0) + 1
        return make if case.get("siblings") else None
    try:
        ref = MT.pipeline(spec, cfg, solve=True, after_build=siblings_of("reference"))
        mon["pipelines"] += 1
    except Exception as exc:
        return {"key": key0, "cls": "reference-failed", "nontrivial": False,
                "obs": {"error": repr(exc)[:300], "spec": spec}, "viol": [], "mon": mon}
    pot0 = ref.pop("_pot", None)
    if "raised" in ref:
        return {"key": key0, "cls": "reference-failed", "nontrivial": False,
                "obs": {"error": ref["raised"], "spec": spec}, "viol": [], "mon": mon}
    if not ref["p_trace"]:
        return {"key": key0, "cls": "inadmissible(P_trace)", "nontrivial": False,
                "obs": {"why": ref["p_trace_why"], "spec": spec}, "viol": [], "mon": mon}
    mu = [x for x in ref.get("mu_ends", []) if np.isfinite(x)]
    me = ref.get("mu_ends", [np.nan] * 4)
    # lower table ends: c_s^2 < 1/60 means the enthalpy all but vanishes there; upper ends
    # next to a spinodal legitimately reach mu ~ 100 (c_s^2 -> 0 at the spinodal)
    if mu and (max([x for x in (me[0], me[2]) if np.isfinite(x)] or [0]) > 60
               or max(mu) > 300 or min(mu) < 2):
        return {"key": key0, "cls": "inadmissible(P_eos)", "nontrivial": False,
                "obs": {"mu_ends": ref.get("mu_ends"), "spec": spec}, "viol": [], "mon": mon}
    vev = pot0.field_scale(ref["Tn"]) / spec.get("s", 1.0)      # shift is given per unit s
    for tr in case["transforms"]:
        tag = f"{spec['family']} #{case['i']}"
        sp2 = dict(spec)
        sp2["perm"], sp2["signs"] = tr["perm"], tr["signs"]
        sp2["shift"] = [x * vev for x in tr["shift_in_vev"]]
        # per-field variation scales follow the permutation; they are differences, so a
        # translation does not change them
        try:
            # partner runs alone: if live siblings changed anything, the reference run (which
            # had them) and this one differ
            oth = MT.pipeline(sp2, cfg, solve=True)
            mon["pipelines"] += 1
        except Exception as exc:
            viol.append({"mech": "not-covariant:pipeline-raises",
                         "msg": f"{tag}: pipeline under {tr} raised {exc!r}"[:400]
                         + " while the reference run succeeded", "data": {"transform": tr}})
            classes.append("partner-raised")
            continue
        pot2 = oth.pop("_pot", None)
        if "raised" in oth:
            viol.append({"mech": "not-covariant:pipeline-raises",
                         "msg": f"{tag}: set-up under {tr} raised {oth['raised']} while the "
                         f"reference run succeeded", "data": {"transform": tr}})
            classes.append("partner-raised")
            continue
        if not oth["p_trace"]:
            viol.append({"mech": "not-covariant:trace-leaves-branch",
                         "msg": f"{tag}: under {tr} {oth['p_trace_why']} although the reference "
                         f"run stayed on its branches", "data": {"transform": tr}})
            classes.append("partner-off-branch")
            continue
        nv = len(viol)
        global _CFG_ACTIVE
        _CFG_ACTIVE = cfg
        o = compare(ref, oth, tr, pot2.A, pot2.b, viol, tag)
        reclassify_solve(viol, nv, o, spec, cfg, mon)
        mon["pairs_compared"] += 1
        rows.append({"transform": tr, **o})
        kind = "translation" if any(tr["shift_in_vev"]) else "relabel"
        classes.append("pair:" + kind)
        if ref.get("vw") is not None:
            mon["solve_pairs"] += 1
            keys.append(f"{key0}:{tr['perm']}:{tr['signs']}:{[round(x, 3) for x in tr['shift_in_vev']]}")
    obs = {"spec": spec, "ref_vw": ref.get("vw"), "ref_type": ref.get("solutionType"),
           "ref_widths": ref.get("widths"), "ref_offsets": ref.get("offsets"), "rows": rows}
    return {"key": key0, "cls": classes or ["no-pairs"], "nontrivial": bool(keys), "obs": obs,
            "viol": viol, "mon": mon, "keys": keys}


def summarize(results, tier):
    agg = {}
    for r in results:
        for row in r["obs"].get("rows", []) if isinstance(r["obs"], dict) else []:
            for k, v in row.items():
                if k != "transform" and isinstance(v, (int, float)):
                    agg.setdefault(k, []).append(v)
    return {"observed_differences_max": {k: float(np.max(v)) for k, v in agg.items()},
            "observed_differences_median": {k: float(np.median(v)) for k, v in agg.items()}}
