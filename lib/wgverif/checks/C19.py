"""C19 — finite-difference helpers exact on low-degree polynomials, never out of bounds.

Monitor shape: the callable ``f`` handed to the *real* WallGo.helpers.derivative /
gradient / hessian (and, for the EffectivePotential wrappers, the potential's own
``evaluate``) is a recording wrapper.  It logs every abscissa the helper evaluates, so the
bounds clause is decided on what was actually evaluated; the returned values are compared
with the closed-form derivative of the polynomial under a rounding bound computed for
that very call (no hand-picked epsilon).

Deviation from DESIGN §4-C19 (recorded there): "exact" cannot be bit-equality because
the stencil tables themselves contain k/12 entries; instead the tolerance is the
first-order rounding bound  C*eps*sum|c_i| * max(|f| + |x||f'|) / dx^n,  which is 1e3-1e12
times smaller than the effect of any wrong table entry.
"""
from __future__ import annotations

import itertools
import math

import numpy as np

from wgverif import env  # noqa: F401

PROPERTY = "C19"
RULE = ("derivative(): enumerated over n in {1,2} x order in {2,4} x placement of x "
        "relative to the bounds (interior, exactly 2dx / 1dx from a bound, inside the last "
        "step, on the bound; lower and upper; bounds=None) x every monomial degree <= "
        "stencil points-1 x dx in {2^m, 10^u random, default from epsilon/scale} x input "
        "shape {scalar,1-D mixed placements,2-D,vector-valued f}; gradient()/hessian(): "
        "every monomial in <=3 variables up to the scheme's exactness degree x axis "
        "selection x dx scalar/array x input rank; EffectivePotential.derivT/derivField/"
        "deriv2Field2/deriv2FieldT/allSecondDerivatives on random cubic potentials incl. "
        "temperatures within two steps of T=0.  A case is non-trivial when the expected "
        "derivative is not identically zero or a bound forces a one-sided stencil; "
        "distinct by (helper, n, order, placement, degree, dx class, shape).")
ASSUMPTIONS = [
    "closed-form derivatives of monomials evaluated in float64 are the reference",
    "intervals narrower than 2*(stencil points)*dx are outside the judged domain "
    "(lower and upper one-sided adjustments would interact); they are counted only",
]
CASE_TIMEOUT = 120
CHUNK = 40
EXHAUSTIVE = {"quick": False, "thorough": False}
FLOORS = {
    "quick": {"distinct_nontrivial": 300,
              "mon": {"derivative_calls": 500, "gradient_calls": 100, "hessian_calls": 100,
                      "abscissae_recorded": 5000, "veff_calls": 40},
              "cls": {"deriv:L2": 20, "deriv:U2": 20, "deriv:L1": 10, "deriv:U1": 10,
                      "deriv:interior": 20, "deriv:onLower": 10, "deriv:onUpper": 10}},
    "thorough": {"distinct_nontrivial": 10000,
                 "mon": {"derivative_calls": 100000, "gradient_calls": 15000,
                         "hessian_calls": 10000, "abscissae_recorded": 5000000,
                         "veff_calls": 50000}},
}

EPS = np.finfo(float).eps
POINTS = {(1, 2): 2, (1, 4): 4, (2, 2): 3, (2, 4): 5}
GRAD_DEG = {2: 1, 4: 3}          # stencil points - 1
HESS_DEG = {2: 3, 4: 5}          # per coordinate line (see DESIGN C19)


def worker_init():
    env.import_wallgo()


# --------------------------------------------------------------------------- generators
def _placements(order):
    pl = ["none", "interior", "eq2L", "eq2U", "L2", "U2", "onLower", "onUpper", "mixed"]
    if order == 4:
        pl += ["L1", "U1", "eq1L", "eq1U"]
    else:
        pl += ["eq1L", "eq1U"]
    return pl


def generate(tier, seed):
    rng = np.random.default_rng(1000 + seed)
    cases = []
    nrand = 2 if tier == "quick" else 40
    # --- derivative(): enumerated part
    for n, order in itertools.product((1, 2), (2, 4)):
        pts = POINTS[(n, order)]
        for pl in _placements(order):
            for deg in range(0, pts):
                for shape in ("scalar", "1d", "2d"):
                    dxs = [("pow2", float(2.0 ** int(m))) for m in
                           rng.choice(np.arange(-12, 6), size=min(nrand, 18), replace=False)]
                    dxs += [("pow10", float(10 ** rng.uniform(-8, 2)))
                            for _ in range(nrand if tier == "quick" else 5 * nrand)]
                    if pl == "none":
                        dxs.append(("default", None))
                    for dxc, dx in dxs:
                        if tier == "quick" and shape != "scalar" and rng.random() < 0.5:
                            continue
                        cases.append({
                            "kind": "deriv", "n": n, "order": order, "pl": pl, "deg": deg,
                            "shape": shape, "dxc": dxc, "dx": dx,
                            "vec": bool(rng.random() < 0.25),
                            "narrow": False,
                            "s": int(rng.integers(1 << 30)),
                        })
        # narrow intervals: counted, not judged
        for _ in range(4 if tier == "quick" else 40):
            cases.append({"kind": "deriv", "n": n, "order": order, "pl": "narrow",
                          "deg": pts - 1, "shape": "scalar", "dxc": "pow10",
                          "dx": float(10 ** rng.uniform(-4, 0)), "vec": False,
                          "narrow": True, "s": int(rng.integers(1 << 30))})
    # --- gradient / hessian: every monomial up to the exactness degree
    for order in (2, 4):
        for nv in (1, 2, 3):
            for expo in itertools.product(range(HESS_DEG[order] + 1), repeat=nv):
                tot = sum(expo)
                reps = 1 if tier == "quick" else 150
                for r_ in range(4 * reps):
                    if tot <= GRAD_DEG[order]:
                        cases.append({"kind": "grad", "order": order, "nv": nv,
                                      "expo": list(expo), "s": int(rng.integers(1 << 30))})
                for _ in range(reps):
                    if False:
                        cases.append({"kind": "grad", "order": order, "nv": nv,
                                      "expo": list(expo), "s": int(rng.integers(1 << 30))})
                    if tot <= HESS_DEG[order]:
                        cases.append({"kind": "hess", "order": order, "nv": nv,
                                      "expo": list(expo), "s": int(rng.integers(1 << 30))})
    # --- EffectivePotential wrappers
    for i in range(60 if tier == "quick" else 30000):
        cases.append({"kind": "veff", "nf": int(rng.integers(1, 4)),
                      "s": int(rng.integers(1 << 30)),
                      "nearZero": bool(i % 2 == 0)})
    for i, c in enumerate(cases):
        c["i"] = i
    return cases


# ------------------------------------------------------------------------------ oracle
class Recorder:
    """Wraps a polynomial; records every abscissa it is evaluated at."""

    def __init__(self, coeffs, vec=False):
        self.c = np.asarray(coeffs, dtype=float)   # ascending powers
        self.vec = vec
        self.lo = math.inf
        self.hi = -math.inf
        self.calls = 0
        self.npts = 0

    def __call__(self, x):
        x = np.asarray(x, dtype=float)
        self.calls += 1
        self.npts += x.size
        if x.size:
            self.lo = min(self.lo, float(x.min()))
            self.hi = max(self.hi, float(x.max()))
        val = np.polynomial.polynomial.polyval(x, self.c)
        if self.vec:
            return np.stack([val, 2.0 * val - 1.0, -val], axis=-1)
        return val


def _pick_x(rng, pl, order, dx, shape):
    """Return (x, bounds).  Offsets are realised exactly in floats by building x from the
    bound: x = lo + k*dx with lo a multiple of dx where exactness is needed."""
    span = 16.0 * dx * rng.integers(2, 6)      # >= 2*points*dx wide
    # anchor chosen so that lo/dx is a modest integer when dx is a power of two
    lo = dx * float(rng.integers(-64, 64))
    hi = lo + span

    def one(p):
        u = rng.uniform(0.05, 0.95)
        if p == "interior":
            return lo + 2 * dx + u * (span - 4 * dx)
        if p == "L2":
            return lo + u * dx
        if p == "U2":
            return hi - u * dx
        if p == "L1":
            return lo + dx + u * dx
        if p == "U1":
            return hi - dx - u * dx
        if p == "onLower":
            return lo
        if p == "onUpper":
            return hi
        if p == "eq2L":
            return lo + 2 * dx
        if p == "eq2U":
            return hi - 2 * dx
        if p == "eq1L":
            return lo + dx
        if p == "eq1U":
            return hi - dx
        raise ValueError(p)

    if pl == "none":
        x0 = float(rng.uniform(-5, 5)) * (1.0 if rng.random() < 0.7 else 100.0)
        bounds = None
        if shape == "scalar":
            return np.float64(x0), bounds, ["none"]
        shp = (5,) if shape == "1d" else (3, 4)
        return x0 + rng.uniform(-1, 1, size=shp), bounds, ["none"]
    avail = ["interior", "L2", "U2", "onLower", "onUpper", "eq2L", "eq2U", "eq1L", "eq1U"]
    if order == 4:
        avail += ["L1", "U1"]
    if pl == "mixed" or shape != "scalar":
        shp = (7,) if shape != "2d" else (3, 4)
        if shape == "scalar":
            shp = (7,)
        n = int(np.prod(shp))
        if pl == "mixed":
            labels = [avail[int(k)] for k in rng.integers(0, len(avail), size=n)]
        else:
            labels = [pl] * n
            # mix in interior points so row selection is per element
            for k in range(0, n, 3):
                labels[k] = "interior"
            labels[1 % n] = pl
        x = np.array([one(p) for p in labels]).reshape(shp)
        return x, (lo, hi), labels
    return np.float64(one(pl)), (lo, hi), [pl]


def _label_class(order, lab):
    if order == 2 and lab in ("L1", "U1"):
        return "interior"
    return lab


def _poly_bounds(c, X):
    """sum |a_k| X^k and X*sum k|a_k| X^(k-1): bound on |f| and |x f'| on |x|<=X."""
    a = np.abs(c)
    k = np.arange(len(c))
    return float(np.sum(a * X ** k) + np.sum(k * a * X ** k))


def _case_deriv(case):
    from WallGo import helpers
    rng = np.random.default_rng(case["s"])
    n, order, deg = case["n"], case["order"], case["deg"]
    pts = POINTS[(n, order)]
    dx = case["dx"]
    viol, mon = [], {"derivative_calls": 0, "abscissae_recorded": 0}
    # polynomial: pure monomial x^deg half of the time, else random ints with leading != 0
    if rng.random() < 0.5:
        c = np.zeros(deg + 1)
        c[deg] = 1.0
    else:
        c = rng.integers(-4, 5, size=deg + 1).astype(float)
        if c[deg] == 0:
            c[deg] = 1.0
    kw = {}
    if dx is None:
        scale = float(10 ** rng.uniform(-2, 2))
        eps = float(10 ** rng.uniform(-16, -10))
        kw = {"epsilon": eps, "scale": scale}
        dxe = scale * eps ** (1 / (n + order))
    else:
        kw = {"dx": dx}
        dxe = dx
    if case["narrow"]:
        # interval narrower than the one-sided stencil: record only
        lo = float(rng.uniform(-1, 1))
        hi = lo + dxe * rng.uniform(0.5, pts - 1)
        x = np.float64(lo + rng.uniform(0, 1) * (hi - lo))
        bounds = (lo, hi)
        labels = ["narrow"]
    else:
        x, bounds, labels = _pick_x(rng, case["pl"], order, dxe, case["shape"])
    f = Recorder(c, vec=case["vec"])
    try:
        res = helpers.derivative(f, x, n=n, order=order, bounds=bounds, **kw)
    except Exception as exc:
        if case["narrow"]:
            return {"key": f"narrow:{case['i']}", "cls": "deriv:narrow", "nontrivial": False,
                    "obs": {"raised": repr(exc)[:100]}, "viol": [], "mon": mon}
        viol.append({"mech": "derivative-raises", "msg": f"derivative raised {exc!r} for "
                     f"n={n} order={order} placement={case['pl']} shape={np.shape(x)}",
                     "data": {}})
        return {"key": f"raise:{case['i']}", "cls": "deriv:raise", "nontrivial": True,
                "obs": {}, "viol": viol, "mon": mon}
    mon["derivative_calls"] += 1
    mon["abscissae_recorded"] += f.npts
    res = np.asarray(res)
    xa = np.asarray(x, dtype=float)
    obs = {"n": n, "order": order, "pl": case["pl"], "deg": deg, "dx": dxe,
           "x_shape": list(xa.shape), "res_shape": list(res.shape),
           "evaluated_range": [f.lo, f.hi], "bounds": bounds}
    if case["narrow"]:
        obs["outside"] = bool(f.lo < bounds[0] or f.hi > bounds[1])
        return {"key": f"narrow:{n}:{order}", "cls": "deriv:narrow", "nontrivial": False,
                "obs": obs, "viol": [], "mon": mon}
    # --- shape
    want_shape = xa.shape + ((3,) if case["vec"] else ())
    if res.shape != want_shape:
        viol.append({"mech": "derivative-shape", "msg": f"result shape {res.shape} != "
                     f"{want_shape} (n={n}, order={order})", "data": obs})
    else:
        dc = np.polynomial.polynomial.polyder(c, n) if deg >= n else np.zeros(1)
        exact = np.polynomial.polynomial.polyval(xa, dc)
        if case["vec"]:
            exact = np.stack([exact, 2.0 * exact, -exact], axis=-1)
        X = float(np.max(np.abs(xa))) + 5 * dxe
        tol = 8 * EPS * 40.0 * 3.0 * (_poly_bounds(c, X) + (1.0 if case["vec"] else 0.0)) \
            / dxe ** n + 1e-300
        err = float(np.max(np.abs(res - exact)))
        obs["err"] = err
        obs["tol"] = tol
        if not np.all(np.isfinite(res)) or err > tol:
            viol.append({"mech": f"derivative-inexact-n{n}-o{order}",
                         "msg": f"derivative(n={n},order={order}) of degree-{deg} polynomial "
                         f"(coeffs {c.tolist()}) at placement {sorted(set(labels))} dx={dxe:g}:"
                         f" |err|={err:.3e} > rounding bound {tol:.3e}", "data": obs})
    # --- bounds
    if bounds is not None and (f.lo < bounds[0] or f.hi > bounds[1]):
        viol.append({"mech": "derivative-evaluates-outside-bounds",
                     "msg": f"f evaluated on [{f.lo!r},{f.hi!r}] outside bounds {bounds} "
                     f"(n={n}, order={order}, placement {sorted(set(labels))}, dx={dxe:g})",
                     "data": obs})
    cls = sorted({"deriv:" + _label_class(order, l) for l in labels})
    nontriv = deg >= n or any(l not in ("interior", "none") for l in labels)
    key = f"deriv:{n}:{order}:{case['pl']}:{deg}:{case['dxc']}:{case['shape']}:{case['vec']}:{case['s'] % 7}"
    return {"key": key, "cls": cls, "nontrivial": bool(nontriv), "obs": obs, "viol": viol,
            "mon": mon}


class RecorderND:
    def __init__(self, expo, coef=1.0):
        self.e = np.asarray(expo)
        self.coef = coef
        self.npts = 0

    def __call__(self, X):
        X = np.asarray(X, dtype=float)
        self.npts += X.shape[0]
        assert X.ndim == 2 and X.shape[1] == len(self.e), X.shape
        return self.coef * np.prod(X ** self.e, axis=-1)

    def d1(self, X, i):
        e = self.e.copy()
        k = e[i]
        if k == 0:
            return np.zeros(X.shape[:-1])
        e[i] -= 1
        return self.coef * k * np.prod(X ** e, axis=-1)

    def d2(self, X, i, j):
        e = self.e.copy()
        k = e[i]
        if k == 0:
            return np.zeros(X.shape[:-1])
        e[i] -= 1
        m = e[j]
        if m == 0:
            return np.zeros(X.shape[:-1])
        e[j] -= 1
        return self.coef * k * m * np.prod(X ** e, axis=-1)


def _axis_choice(rng, nv):
    r = rng.random()
    if r < 0.4:
        return None, list(range(nv))
    if r < 0.6:
        a = int(rng.integers(-nv, nv))
        return a, [a]
    k = int(rng.integers(1, nv + 1))
    lst = [int(v) for v in rng.choice(np.arange(-nv, nv), size=k, replace=False)]
    return lst, lst


def _case_gradhess(case):
    from WallGo import helpers
    rng = np.random.default_rng(case["s"])
    order, nv, expo = case["order"], case["nv"], case["expo"]
    f = RecorderND(expo, coef=float(rng.integers(1, 5)))
    rank = int(rng.integers(0, 3))
    shp = {0: (), 1: (4,), 2: (2, 3)}[rank]
    X = rng.uniform(-3, 3, size=shp + (nv,))
    dxkind = rng.random()
    if dxkind < 0.4:
        dx = float(2.0 ** rng.integers(-10, 2))
        dxa = np.full(nv, dx)
    elif dxkind < 0.8:
        dxa = 10 ** rng.uniform(-5, 0, size=nv)
        dx = dxa.copy()
    else:
        dx = None
        dxa = None
    viol = []
    tot = sum(expo)
    Xmax = float(np.max(np.abs(X))) + 4.0
    if case["kind"] == "grad":
        ax, axl = _axis_choice(rng, nv)
        kw = {"dx": dx} if dx is not None else {"scale": float(10 ** rng.uniform(-1, 1)),
                                                "epsilon": 1e-12}
        if dx is None:
            dxa = np.full(nv, kw["scale"] * 1e-12 ** (1 / (1 + order)))
        res = np.asarray(helpers.gradient(f, X, order=order, axis=ax, **kw))
        want = shp + (len(axl),)
        mon = {"gradient_calls": 1, "abscissae_recorded": f.npts}
        obs = {"helper": "gradient", "order": order, "expo": expo, "axis": ax,
               "x_shape": list(X.shape), "res_shape": list(res.shape)}
        if res.shape != want:
            viol.append({"mech": "gradient-shape", "msg": f"gradient shape {res.shape} != "
                         f"{want} for x{X.shape} axis={ax}", "data": obs})
        else:
            exact = np.stack([f.d1(X, i) for i in axl], axis=-1)
            scale = f.coef * (tot + 1) * Xmax ** tot
            tol = 8 * EPS * 10 * scale / float(np.min(dxa)) + 1e-300
            err = float(np.max(np.abs(res - exact)))
            obs.update(err=err, tol=tol)
            if not np.all(np.isfinite(res)) or err > tol:
                viol.append({"mech": f"gradient-inexact-o{order}",
                             "msg": f"gradient(order={order}) of monomial exponents {expo} "
                             f"axis={ax}: |err|={err:.3e} > {tol:.3e}", "data": obs})
        key = f"grad:{order}:{expo}:{rank}:{'N' if ax is None else len(axl)}:{dxkind < 0.4}"
    else:
        xax, xl = _axis_choice(rng, nv)
        yax, yl = _axis_choice(rng, nv)
        kw = {"dx": dx} if dx is not None else {"scale": float(10 ** rng.uniform(-1, 1)),
                                                "epsilon": 1e-12}
        if dx is None:
            dxa = np.full(nv, kw["scale"] * 1e-12 ** (1 / (2 + order)))
        res = np.asarray(helpers.hessian(f, X, order=order, xAxis=xax, yAxis=yax, **kw))
        want = shp + (len(xl), len(yl))
        mon = {"hessian_calls": 1, "abscissae_recorded": f.npts}
        obs = {"helper": "hessian", "order": order, "expo": expo, "xAxis": xax, "yAxis": yax,
               "x_shape": list(X.shape), "res_shape": list(res.shape)}
        if res.shape != want:
            viol.append({"mech": "hessian-shape", "msg": f"hessian shape {res.shape} != {want}"
                         f" for x{X.shape} xAxis={xax} yAxis={yax}", "data": obs})
        else:
            exact = np.stack([np.stack([f.d2(X, i, j) for j in yl], axis=-1) for i in xl],
                             axis=-2)
            scale = f.coef * (tot + 1) ** 2 * (Xmax + 4 * float(np.max(dxa))) ** tot
            tol = 8 * EPS * 20 * scale / float(np.min(dxa)) ** 2 + 1e-300
            err = float(np.max(np.abs(res - exact)))
            obs.update(err=err, tol=tol)
            if not np.all(np.isfinite(res)) or err > tol:
                viol.append({"mech": f"hessian-inexact-o{order}",
                             "msg": f"hessian(order={order}) of monomial exponents {expo} "
                             f"xAxis={xax} yAxis={yax}: |err|={err:.3e} > {tol:.3e}",
                             "data": obs})
        key = f"hess:{order}:{expo}:{rank}:{dxkind < 0.4}"
    return {"key": key, "cls": case["kind"] + f":o{order}", "nontrivial": tot >= 1,
            "obs": obs, "viol": viol, "mon": mon}


def _case_veff(case):
    """EffectivePotential.derivT & co on a random cubic potential; evaluate() records
    every temperature it is asked for (never negative; bounds=(0,inf))."""
    import WallGo
    from WallGo import Fields
    rng = np.random.default_rng(case["s"])
    nf = case["nf"]
    nvar = nf + 1
    expos = [e for e in itertools.product(range(4), repeat=nvar) if sum(e) <= 3]
    coefs = rng.integers(-3, 4, size=len(expos)).astype(float)
    rec = {"minT": math.inf, "n": 0}

    def poly(Xf, T, d=None):
        """Xf (...,nf), T (...)  -> value of V or of a derivative given by tuple d."""
        tot = 0.0
        for e, a in zip(expos, coefs):
            if a == 0:
                continue
            e = list(e)
            fac = a
            if d is not None:
                for idx in d:
                    if e[idx] == 0:
                        fac = 0.0
                        break
                    fac *= e[idx]
                    e[idx] -= 1
            if fac == 0.0:
                continue
            term = fac * np.asarray(T) ** e[-1]
            for i in range(nf):
                term = term * Xf[..., i] ** e[i]
            tot = tot + term
        return tot

    class Pot(WallGo.EffectivePotential):
        fieldCount = nf
        effectivePotentialError = 1e-15

        def evaluate(self, fields, temperature):
            fields = Fields(fields) if not isinstance(fields, np.ndarray) else fields
            T = np.asarray(temperature, dtype=float)
            rec["n"] += T.size
            if T.size:
                rec["minT"] = min(rec["minT"], float(T.min()))
            return poly(np.asarray(fields), T)

    pot = Pot()
    Tscale = float(10 ** rng.uniform(-1, 2))
    fscale = 10 ** rng.uniform(-1, 2, size=nf)
    pot.configureDerivatives(WallGo.VeffDerivativeSettings(
        temperatureVariationScale=Tscale,
        fieldValueVariationScale=fscale if nf > 1 or rng.random() < 0.5 else float(fscale[0])))
    npts = int(rng.integers(1, 5))
    F = Fields(rng.uniform(-2, 2, size=(npts, nf)) * fscale)
    dT = Tscale * 1e-15 ** (1 / 5)
    if case["nearZero"]:
        T = np.array([0.0, 0.3 * dT, 1.4 * dT, 2.0 * dT, 5 * dT][:npts]) \
            if rng.random() < 0.5 else rng.uniform(0, 2.5 * dT, size=npts)
    else:
        T = rng.uniform(0.5, 3, size=npts) * Tscale
    if npts == 1 and rng.random() < 0.5:
        T = float(T[0])
    viol = []
    mon = {"veff_calls": 0}
    Fa = np.asarray(F)
    Ta = np.asarray(T, dtype=float) * np.ones(npts)
    Xmax = max(float(np.max(np.abs(Fa))) + 1, float(np.max(Ta)) + 1, 1.0)
    vmax = float(np.sum(np.abs(coefs))) * Xmax ** 3 * 4
    obs = {"nf": nf, "npts": npts, "nearZero": case["nearZero"], "T": np.asarray(T).tolist()}

    def judge(name, got, exact, h, n):
        mon["veff_calls"] += 1
        got = np.asarray(got, dtype=float)
        exact = np.asarray(exact, dtype=float)
        if exact.ndim == 0:
            # closed form is identically constant (no dependence on that variable): the
            # helper must still return one value per point
            exact = np.full((npts,) + got.shape[1:], float(exact))
            if got.ndim == 0 and npts == 1:
                exact = exact.reshape(())
        if got.shape != exact.shape:
            try:
                got2 = got.reshape(exact.shape)
            except Exception:
                got2 = None
            if got2 is None or got.size != exact.size:
                viol.append({"mech": f"veff-{name}-shape", "msg": f"{name} returned shape "
                             f"{got.shape}, expected {exact.shape}", "data": obs})
                return
            got = got2
        tol = 8 * EPS * 40 * vmax / h ** n
        err = float(np.max(np.abs(got - exact)))
        obs[name] = {"err": err, "tol": tol}
        if not np.all(np.isfinite(got)) or err > tol:
            viol.append({"mech": f"veff-{name}-inexact", "msg": f"{name} on a cubic potential"
                         f" ({nf} fields): |err|={err:.3e} > rounding bound {tol:.3e}",
                         "data": obs})

    hT = dT
    hF = float(np.min(fscale)) * 1e-15 ** (1 / 5)
    hF2 = float(np.min(np.append(fscale, Tscale))) * 1e-15 ** (1 / 6)
    judge("derivT", pot.derivT(F, T), poly(Fa, Ta, d=(nf,)), hT, 1)
    if not case["nearZero"]:
        judge("derivField", pot.derivField(F, T),
              np.stack([poly(Fa, Ta, d=(i,)) for i in range(nf)], axis=-1), hF, 1)
        judge("deriv2Field2", pot.deriv2Field2(F, T),
              np.stack([np.stack([poly(Fa, Ta, d=(i, j)) * np.ones(npts) for j in range(nf)],
                                 axis=-1) for i in range(nf)], axis=-2), hF2, 2)
        judge("deriv2FieldT", pot.deriv2FieldT(F, T),
              np.stack([poly(Fa, Ta, d=(i, nf)) * np.ones(npts) for i in range(nf)], axis=-1),
              hF2, 2)
        h, g, t2 = pot.allSecondDerivatives(F, T)
        judge("all.hess", h, np.stack([np.stack([poly(Fa, Ta, d=(i, j)) * np.ones(npts)
                                                 for j in range(nf)], axis=-1)
                                       for i in range(nf)], axis=-2), hF2, 2)
        judge("all.gradT", g, np.stack([poly(Fa, Ta, d=(i, nf)) * np.ones(npts)
                                        for i in range(nf)], axis=-1), hF2, 2)
        judge("all.d2T", t2, poly(Fa, Ta, d=(nf, nf)) * np.ones(npts), hF2, 2)
    obs["minT_evaluated"] = rec["minT"]
    if case["nearZero"] and rec["minT"] < 0:
        viol.append({"mech": "derivT-negative-temperature",
                     "msg": f"derivT evaluated the potential at T={rec['minT']!r} < 0 for "
                     f"T={np.asarray(T).tolist()}", "data": obs})
    mon["abscissae_recorded"] = rec["n"]
    key = f"veff:{nf}:{npts}:{case['nearZero']}:{case['s'] % 50}"
    return {"key": key, "cls": "veff:nearZero" if case["nearZero"] else "veff:bulk",
            "nontrivial": True, "obs": obs, "viol": viol, "mon": mon}


def run_case(case):
    if case["kind"] == "deriv":
        return _case_deriv(case)
    if case["kind"] in ("grad", "hess"):
        return _case_gradhess(case)
    return _case_veff(case)
