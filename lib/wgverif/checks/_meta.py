"""Stage-wise pipeline through the real WallGoManager, for the metamorphic properties C07
(unit change) and C08 (field relabelling).  Returns a dict of stage observations so that a
divergence between two runs can be attributed to the first stage where it appears.
"""
from __future__ import annotations

import math

import numpy as np

from wgverif import env  # noqa: F401
from wgverif.checks import _manager as MG


def p_trace(manager, pot):
    th = manager.thermodynamics
    for name, fe in (("high", th.freeEnergyHigh), ("low", th.freeEnergyLow)):
        Ts = np.asarray(fe._interpolationPoints, dtype=float)
        vals = np.asarray(fe._interpolationValues, dtype=float)
        # soft ends (the continuous family of minima passes to another closed-form
        # branch, e.g. phi=0 -> phi_- at T0 in poly1) are admissible continuations
        ex = getattr(pot, "exists_soft", pot.exists)
        vp = getattr(pot, "V_phase_soft", pot.V_phase)
        lo, hi = ex(name)
        if Ts.min() < lo * (1 - 1e-5) or Ts.max() > hi * (1 + 1e-5):
            return False, f"{name} table leaves the existence interval"
        Vex = vp(name, Ts)
        if np.max(np.abs(vals[:, -1] - Vex) / (np.abs(Vex) + 1e-300)) > 1e-5:
            return False, f"{name} table off its branch"
    return True, ""


def pipeline(spec, cfg, solve=True, after_build=None):
    """Run set-up, hydrodynamics, LTE and (optionally) the wall solve.  Dimensionful
    outputs are returned raw; the caller rescales."""
    out = {"stage": "setup"}
    # monitor on the minimiser used by EffectivePotential.findLocalMinimum: how many calls
    # returned without a single iteration (gradient already below the *absolute* tolerance
    # scipy derives from tol)
    import WallGo.effectivePotential as EP
    real_min = EP.scipy.optimize.minimize
    stats = {"calls": 0, "zero_iterations": 0}

    class _Opt:
        def __getattr__(self, name):
            return getattr(real_opt, name)

    real_opt = EP.scipy.optimize

    def counting_minimize(*a, **k):
        res = real_min(*a, **k)
        stats["calls"] += 1
        if getattr(res, "nit", 1) == 0:
            stats["zero_iterations"] += 1
        return res

    real_opt.minimize = counting_minimize
    try:
        return _pipeline(spec, cfg, solve, out, stats, after_build)
    finally:
        real_opt.minimize = real_min


def table_spacing(fe, Tn):
    """Smallest gap between adjacent table abscissae relative to the median gap, and
    whether it touches the starting temperature."""
    Ts = np.asarray(fe._interpolationPoints, dtype=float)
    d = np.diff(Ts)
    j = int(np.argmin(d))
    out = {"min_over_median": float(d[j] / np.median(d)),
           "at_start": bool(abs(Ts[j] - Tn) < 1e-12 * Tn or abs(Ts[j + 1] - Tn) < 1e-12 * Tn)}
    # is the row at the starting temperature (located by the minimiser) an outlier among
    # its neighbours (located by the ODE + re-minimisation)?  measure: distance from the
    # mean of the two neighbours in units of the field scale of the table
    vals = np.asarray(fe._interpolationValues, dtype=float)[:, :-1]
    k = int(np.argmin(np.abs(Ts - Tn)))
    if 0 < k < len(Ts) - 1:
        scale = float(np.max(np.abs(vals))) + 1e-300
        jump = float(np.max(np.abs(vals[k] - 0.5 * (vals[k - 1] + vals[k + 1]))))
        nb = float(np.max(np.abs(vals[k + 1] - vals[k - 1])))
        out["start_row_jump_over_neighbour_spread"] = jump / (nb + 1e-300)
        out["start_row_jump_over_scale"] = jump / scale
    return out


def _pipeline(spec, cfg, solve, out, stats, after_build=None):
    b = MG.build(spec, cfg, setup=False)
    if after_build is not None:
        # e.g. create further model instances that stay alive while this one is solved
        after_build()
    out["minimiser"] = stats
    m, pot, Tn = b["manager"], b["pot"], b["Tn"]
    out["_pot"] = pot
    out["Tn"] = Tn
    try:
        m.setupThermodynamicsHydrodynamics(b["phaseInfo"], b["scales"])
    except Exception as exc:
        out["raised"] = repr(exc)[:300]
        th = getattr(m, "thermodynamics", None)
        if th is not None and th.freeEnergyHigh.hasInterpolation() and \
                th.freeEnergyLow.hasInterpolation():
            out["spacing"] = {"H": table_spacing(th.freeEnergyHigh, Tn),
                              "L": table_spacing(th.freeEnergyLow, Tn)}
        return out
    out["spacing"] = {"H": table_spacing(m.thermodynamics.freeEnergyHigh, Tn),
                      "L": table_spacing(m.thermodynamics.freeEnergyLow, Tn)}
    ok, why = p_trace(m, pot)
    out["p_trace"] = ok
    out["p_trace_why"] = why
    th, hyd = m.thermodynamics, m.hydrodynamics
    out["Tn"] = Tn
    out["phase_high"] = np.asarray(m.phasesAtTn.phaseLocation1, dtype=float).ravel()
    out["phase_low"] = np.asarray(m.phasesAtTn.phaseLocation2, dtype=float).ravel()
    g1 = np.asarray(b["phaseInfo"].phaseLocation1, dtype=float).ravel()
    g2 = np.asarray(b["phaseInfo"].phaseLocation2, dtype=float).ravel()
    out["phases_equal_guesses"] = bool(np.array_equal(g1, out["phase_high"])
                                       and np.array_equal(g2, out["phase_low"]))
    # exponents of the power-law extrapolation at the four table ends (mu = 1 + 1/c_s^2):
    # P_eos admissibility -- a table end with c_s^2 < 1/60 belongs to a phase whose
    # enthalpy all but vanishes there (the zoo's few-dof points at 0.8 T_n), outside
    # "equations of state with positive sound speeds" in any useful sense
    out["mu_ends"] = [float(getattr(th, k, np.nan)) for k in
                      ("muMinLowT", "muMaxLowT", "muMinHighT", "muMaxHighT")]
    out["ranges"] = {"H": [th.freeEnergyHigh.minPossibleTemperature[0],
                           th.freeEnergyHigh.maxPossibleTemperature[0]],
                     "L": [th.freeEnergyLow.minPossibleTemperature[0],
                           th.freeEnergyLow.maxPossibleTemperature[0]]}
    out["flags"] = {"H": [bool(th.freeEnergyHigh.minPossibleTemperature[1]),
                          bool(th.freeEnergyHigh.maxPossibleTemperature[1])],
                    "L": [bool(th.freeEnergyLow.minPossibleTemperature[1]),
                          bool(th.freeEnergyLow.maxPossibleTemperature[1])]}
    out["npoints"] = {"H": int(th.freeEnergyHigh.numPoints()),
                      "L": int(th.freeEnergyLow.numPoints())}
    t = hyd.template
    out["alN"], out["psiN"], out["cs2"], out["cb2"] = t.alN, t.psiN, t.cs2, t.cb2
    out["pN"], out["wN"] = t.pN, t.wN
    out["stage"] = "hydro"
    out["vJ"], out["vMin"] = hyd.vJ, hyd.vMin
    out["fastestDeflag"] = hyd.fastestDeflag()
    # call-site monitor on the matching just below vJ (where fastestDeflag evaluates it): was
    # it a converged exact matching or the template fallback / a non-converged solve?
    try:
        from wgverif.checks._hydro import HydroProbe
        hp = HydroProbe.from_objects(th, hyd, cfg.get("hydro_rtol", 1e-6),
                                     cfg.get("hydro_atol", 1e-10))
        tops = []
        for dv in (1e-3, 4e-3, 1.2e-2):
            mm = hp.matching(float(hyd.vJ - dv))
            tops.append({"dv": dv, "branch": mm["branch"],
                         "n_hybr_failed": int(mm.get("n_hybr_failed") or 0),
                         "Tm_over_TMaxL": (mm["Tm"] / out["ranges"]["L"][1]) if "Tm" in mm else None})
        out["top_matchings"] = tops
    except Exception as exc:
        out["top_matchings"] = [{"error": repr(exc)[:100]}]
    out["stage"] = "lte"
    out["vLTE"] = float(m.wallSpeedLTE())
    # margins (P_margin): the whole window inside the tabulated ranges with room to spare
    try:
        top = min(hyd.vJ, out["fastestDeflag"]) * (1 - 1e-3)
        _, _, Tp, Tm = hyd.findMatching(top)
        out["margin"] = {
            "TpTop_over_TMaxH": float(Tp / out["ranges"]["H"][1]),
            "TmTop_over_TMaxL": float(Tm / out["ranges"]["L"][1]),
        }
    except Exception as exc:
        out["margin"] = {"error": repr(exc)[:100]}
    if solve:
        out["stage"] = "solve"
        coll = None
        if cfg.get("offEq") and spec.get("particles"):
            import pathlib
            coll = MG.collisions_dir([p_.get("name", f"p{i_}") for i_, p_ in
                                      enumerate(spec["particles"])],
                                     int(cfg.get("N", 5)), kappa=float(cfg.get("kappa", 0.3)))
            m.setPathToCollisionData(pathlib.Path(coll))
        try:
            res = m.solveWall(MG.wall_settings(cfg))
        finally:
            if coll:
                import shutil
                shutil.rmtree(coll, ignore_errors=True)
        if cfg.get("offEq") and spec.get("particles") and res.Deltas is not None:
            try:
                out["Delta00_max_over_Tn2"] = float(
                    np.max(np.abs(np.asarray(res.Deltas.Delta00.coefficients))) / Tn ** 2)
            except Exception:
                pass
        out["success"] = bool(res.success)
        out["solutionType"] = str(res.solutionType)
        out["vw"] = res.wallVelocity
        out["widths"] = None if res.wallWidths is None else np.asarray(res.wallWidths, float)
        out["offsets"] = None if res.wallOffsets is None else np.asarray(res.wallOffsets, float)
        out["Tplus"] = float(res.temperaturePlus)
        out["Tminus"] = float(res.temperatureMinus)
        out["fieldProfiles"] = np.asarray(res.fieldProfiles, dtype=float)
        out["temperatureProfile"] = np.asarray(res.temperatureProfile, dtype=float)
        # fixed-velocity probe: the real wallPressure in the middle of the window from the
        # default starting parameters.  Gives the metamorphic checks something to compare at
        # the wall-solving stage also when the outcome is RUNAWAY (no velocity, no widths).
        if not (cfg.get("offEq") and spec.get("particles")) and cfg.get("pressure_probe", True):
            try:
                import WallGo
                vpr = 0.5 * min(hyd.vJ, out["fastestDeflag"])
                # converged iteration (the default stops at 10 %: widths and offsets lag)
                ce = m.config.configEOM
                keep = (ce.pressRelErrTol, ce.maxIterations)
                ce.pressRelErrTol, ce.maxIterations = min(keep[0], 1e-3), max(keep[1], 80)
                try:
                    solver = m.setupWallSolver(MG.wall_settings(cfg))
                finally:
                    ce.pressRelErrTol, ce.maxIterations = keep
                nf = pot.fieldCount
                L0 = float(cfg.get("wallThicknessGuess", 5.0))
                o_ = solver.eom.wallPressure(vpr, WallGo.WallParams(widths=np.full(nf, L0 / Tn),
                                                                    offsets=np.zeros(nf)))
                out["probe"] = {"vw": float(vpr), "P_over_Tn4": float(o_[0]) / Tn ** 4,
                                "widths": np.asarray(o_[1].widths, float),
                                "offsets": np.asarray(o_[1].offsets, float),
                                "ok": bool(solver.eom.successWallPressure
                                           and solver.eom.successTemperatureProfile)}
            except Exception as exc:
                out["probe"] = {"error": repr(exc)[:200]}
    out["stage"] = "done"
    out["_pot"] = pot
    return out


def pressure_start_dependence(spec, cfg, vw):
    """Mechanism probe for divergences at the 'solve' stage: evaluate the real
    EOM.wallPressure(vw) on one manager from two different initial wall thicknesses.
    Returns (P1, P2, relative difference, rtol).  If the two differ by much more than the
    iteration's own relative tolerance, the iteration stops on a small *successive*
    difference far from its fixed point, so the pressure (and everything derived from its
    sign) depends on the starting parameters."""
    import WallGo
    b = MG.build(spec, cfg)
    m, Tn = b["manager"], b["Tn"]
    solver = m.setupWallSolver(MG.wall_settings(cfg))
    eom = solver.eom
    nf = b["pot"].fieldCount
    out = []
    for L0 in (cfg.get("wallThicknessGuess", 5.0), cfg.get("wallThicknessGuess", 5.0) / 2.5):
        wp = WallGo.WallParams(widths=np.full(nf, L0 / Tn), offsets=np.zeros(nf))
        out.append(float(eom.wallPressure(vw, wp)[0]))
    rtol = m.config.configEOM.pressRelErrTol
    rel = abs(out[0] - out[1]) / max(abs(out[0]), abs(out[1]), 1e-300)
    return out[0], out[1], rel, rtol


def action_drop(eom, thermo, out):
    """Is the wall-parameter set returned by EOM.wallPressure a local minimum of the real
    EOM.action for the profiles of that very evaluation?  Returns (worst drop of the action
    under +-10 % width / +-0.1 offset changes, direction, kinetic scale).  A drop below
    -1e-3 scale means the parameters are > 10 % away from the minimum in that direction
    (e.g. held by a bound)."""
    import WallGo
    _, wpf, bresf, bbgf, hydro = out
    vl_ = thermo.freeEnergyLow(float(hydro.temperatureMinus)).fieldsAtMinimum
    vh_ = thermo.freeEnergyHigh(float(hydro.temperaturePlus)).fieldsAtMinimum
    Tprof = np.asarray(bbgf.temperatureProfile)[1:-1]
    d00 = bresf.Deltas.Delta00

    def act(wid, off):
        return float(eom.action(WallGo.WallParams(widths=np.array(wid, float),
                                                  offsets=np.array(off, float)),
                                vl_, vh_, Tprof, d00))
    w0, o0 = np.array(wpf.widths, float), np.array(wpf.offsets, float)
    A0 = act(w0, o0)
    worst, where = 0.0, None
    for i in range(len(w0)):
        for f in (0.9, 1.1):
            w1 = w0.copy(); w1[i] *= f
            dA = act(w1, o0) - A0
            if dA < worst:
                worst, where = dA, f"width[{i}] x {f}"
        if i > 0:
            for dd in (-0.1, 0.1):
                o1 = o0.copy(); o1[i] += dd
                dA = act(w0, o1) - A0
                if dA < worst:
                    worst, where = dA, f"offset[{i}] {dd:+}"
    scale = float(np.sum((np.asarray(vh_) - np.asarray(vl_)) ** 2 / (6 * w0)))
    return worst, where, scale


def start_dependence_end_states(spec, cfg, vw):
    """Second half of the mechanism probe: the two starts of pressure_start_dependence
    again, now looking at the wall parameters each one ends with.  The known finding is a
    start dependence between two *local minima of the action* (or an iteration stopped on
    its successive-difference criterion); an end state that is not a stationary point of
    the action (held by something else, e.g. a bound) is a different mechanism and must
    not be absorbed.  Returns list of dicts (one per start)."""
    import WallGo
    b = MG.build(spec, cfg)
    m, Tn = b["manager"], b["Tn"]
    solver = m.setupWallSolver(MG.wall_settings(cfg))
    eom = solver.eom
    nf = b["pot"].fieldCount
    res = []
    for L0 in (cfg.get("wallThicknessGuess", 5.0), cfg.get("wallThicknessGuess", 5.0) / 2.5):
        wp = WallGo.WallParams(widths=np.full(nf, L0 / Tn), offsets=np.zeros(nf))
        out = eom.wallPressure(vw, wp)
        worst, where, scale = action_drop(eom, m.thermodynamics, out)
        res.append({"P": float(out[0]), "widthsTn": (np.asarray(out[1].widths) * Tn).tolist(),
                    "offsets": np.asarray(out[1].offsets).tolist(),
                    "action_drop_over_scale": worst / scale, "where": where,
                    # 1e-2: a converged end state sits within 1e-3 (C01's probe); an early-
                    # stopped one lags by an iteration (unchanged tree: 1.3e-3 with
                    # out-of-equilibrium on and 20 iterations); a parameter held by a bound
                    # showed 0.16
                    "stationary": bool(worst >= -1e-2 * scale)})
    return res


def start_dependence_is_early_stopping(spec, cfg, vw, rel):
    """Second half of the mechanism probe.  A start dependence is the *known* mechanism
    (iteration stopped on a small successive difference far from its fixed point) only if
    letting the same iteration run on -- tolerance 100x tighter, 10x more iterations --
    brings the two starts together (difference down by >= 3x, or inside the tight
    tolerance).  If the two starts keep disagreeing, the iteration has start-dependent
    *fixed points*, which is something else (e.g. a bound on the wall parameters that is
    active from one start only) and must not be absorbed by the known finding.
    Returns (is_early_stopping, rel_tight, rtol_tight)."""
    rt = max(float(cfg.get("pressRelErrTol", 0.1)) * 1e-2, 1e-5)
    cfg2 = dict(cfg, pressRelErrTol=rt, maxIterations=10 * int(cfg.get("maxIterations", 20)))
    _, _, rel_t, _ = pressure_start_dependence(spec, cfg2, vw)
    return bool(rel_t < rel / 3 or rel_t < 3 * rt), rel_t, rt
